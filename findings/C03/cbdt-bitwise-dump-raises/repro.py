#!/usr/bin/env python3
"""C03 finding: dumping a font with a CBDT table with bitmapGlyphDataFormat="bitwise" (ttx -z bitwise) raises
AttributeError: data.

C_B_D_T_.py removes the dump formats that make no sense for PNG data from the colour glyph classes
("Write data in the parent class will default to raw if an option is unsupported"): _removeUnsupportedForColor
deletes "row" - but not "bitwise", which is just as meaningless for PNG bytes.  With 'bitwise' the writer
_writeBitwiseImageData is therefore called on a ColorBitmapGlyph, asks it for getRow (which colour glyphs do not
have), BitmapGlyph.__getattr__ takes that for a lazy attribute, calls decompile() a second time and dies with
AttributeError('data').  'row' on the same font falls back to raw as intended.

Run with PYTHONPATH=<repo>/Lib.  Exit 1 = defect present, 0 = fixed."""
import io
import os
import sys
import tempfile

from fontTools.fontBuilder import FontBuilder
from fontTools.pens.ttGlyphPen import TTGlyphPen
from fontTools.ttLib import TTFont, newTable
from fontTools.ttLib.tables import E_B_L_C_ as LOC, C_B_D_T_ as CDAT
from fontTools.ttLib.tables.BitmapGlyphMetrics import SmallGlyphMetrics


def build():
    names = [".notdef", "A", "B"]
    fb = FontBuilder(1000, isTTF=True)
    fb.setupGlyphOrder(names)
    fb.setupCharacterMap({0x41: "A", 0x42: "B"})
    glyphs = {}
    for i, n in enumerate(names):
        pen = TTGlyphPen(None)
        pen.moveTo((0, 0)); pen.lineTo((0, 500 + i)); pen.lineTo((400, 500 + i)); pen.lineTo((400, 0)); pen.closePath()
        glyphs[n] = pen.glyph()
    fb.setupGlyf(glyphs)
    fb.setupHorizontalMetrics({n: (600, 0) for n in names})
    fb.setupHorizontalHeader(ascent=800, descent=-200)
    fb.setupNameTable({"familyName": "Repro", "styleName": "Regular"})
    fb.setupOS2()
    fb.setupPost()
    font = fb.font
    L, D = newTable("CBLC"), newTable("CBDT")
    L.version = D.version = 3.0
    s = LOC.Strike()
    t = s.bitmapSizeTable
    for d in ("hori", "vert"):
        m = LOC.SbitLineMetrics()
        (m.ascender, m.descender, m.widthMax, m.caretSlopeNumerator, m.caretSlopeDenominator, m.caretOffset, m.minOriginSB,
         m.minAdvanceSB, m.maxBeforeBL, m.minAfterBL, m.pad1, m.pad2) = (7, -2, 9, 1, 0, 0, 0, 0, 7, -2, 0, 0)
        setattr(t, d, m)
    t.colorRef, t.startGlyphIndex, t.endGlyphIndex, t.ppemX, t.ppemY, t.bitDepth, t.flags = 0, 1, 2, 20, 20, 32, 1
    ist = LOC.eblc_index_sub_table_1(None, None)
    ist.indexFormat, ist.imageFormat, ist.names, ist.firstGlyphIndex, ist.lastGlyphIndex = 1, 17, ["A", "B"], 1, 2
    s.indexSubTables.append(ist)
    data = {}
    for n, png in (("A", b"\x89PNG\r\n\x1a\n-not-really-a-png-A"), ("B", b"\x89PNG\r\n\x1a\n-not-really-a-png-B-longer")):
        g = CDAT.cbdt_bitmap_format_17(None, None)
        g.metrics = SmallGlyphMetrics()
        g.metrics.height, g.metrics.width, g.metrics.BearingX, g.metrics.BearingY, g.metrics.Advance = 20, 20, 0, 18, 22
        g.imageData = png
        data[n] = g
    L.strikes, D.strikeData = [s], [data]
    font["CBLC"], font["CBDT"] = L, D
    buf = io.BytesIO()
    font.save(buf)
    return buf.getvalue()


def table_bytes(font):
    buf = io.BytesIO()
    font.save(buf)
    f = TTFont(io.BytesIO(buf.getvalue()))
    return {t: f.reader[t] for t in ("CBLC", "CBDT")}


data = build()
want = table_bytes(TTFont(io.BytesIO(data)))
failed = False
for fmt in ("raw", "row", "bitwise", "extfile"):
    with tempfile.TemporaryDirectory() as d:
        path = os.path.join(d, "dump.ttx")
        try:
            TTFont(io.BytesIO(data)).saveXML(path, bitmapGlyphDataFormat=fmt)
            g = TTFont()
            g.importXML(path)
            got = table_bytes(g)
        except Exception as e:
            print("FAIL: bitmapGlyphDataFormat=%r on a CBDT font raised %s: %s" % (fmt, type(e).__name__, e))
            failed = True
            continue
    if got != want:
        print("FAIL: bitmapGlyphDataFormat=%r: CBLC / CBDT differ after the TTX round trip" % fmt)
        failed = True
    else:
        print("ok: bitmapGlyphDataFormat=%r" % fmt)
sys.exit(1 if failed else 0)
