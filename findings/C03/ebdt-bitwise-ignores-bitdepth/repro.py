#!/usr/bin/env python3
"""C03 finding: the 'bitwise' bitmap dump format (ttx -z bitwise, saveXML(bitmapGlyphDataFormat="bitwise"))
silently loses image data of every EBDT strike whose bitDepth is 2, 4 or 8.

_writeBitwiseImageData reads each row with bitDepth=1 and prints metrics.width characters per row, whatever the
strike's bit depth is, while it writes bitDepth="N" into the element and _readBitwiseImageData packs the rows
with that N.  So only the first `width` bits of the image are dumped (and, for bit-aligned formats, taken from
the wrong offsets); the imported font compiles to different EBDT (and EBLC) bytes - no exception, no warning.
The 'row' format of the same font is lossless, and 'bitwise' is lossless for 1-bit strikes.

Run with PYTHONPATH=<repo>/Lib.  Exit 1 = defect present, 0 = fixed."""

import io
import os
import sys
import tempfile

from fontTools.fontBuilder import FontBuilder
from fontTools.pens.ttGlyphPen import TTGlyphPen
from fontTools.ttLib import TTFont, newTable
from fontTools.ttLib.tables import E_B_L_C_ as LOC, E_B_D_T_ as DAT
from fontTools.ttLib.tables.BitmapGlyphMetrics import BigGlyphMetrics, SmallGlyphMetrics


def base_font(names):
    fb = FontBuilder(1000, isTTF=True)
    fb.setupGlyphOrder(names)
    fb.setupCharacterMap({0x41 + i: n for i, n in enumerate(names) if i})
    glyphs = {}
    for i, n in enumerate(names):
        pen = TTGlyphPen(None)
        pen.moveTo((0, 0)); pen.lineTo((0, 500 + i)); pen.lineTo((400, 500 + i)); pen.lineTo((400, 0)); pen.closePath()
        glyphs[n] = pen.glyph()
    fb.setupGlyf(glyphs)
    fb.setupHorizontalMetrics({n: (600, 0) for n in names})
    fb.setupHorizontalHeader(ascent=800, descent=-200)
    fb.setupNameTable({"familyName": "Repro", "styleName": "Regular"})
    fb.setupOS2()
    fb.setupPost()
    return fb.font


def small_metrics(h, w):
    m = SmallGlyphMetrics()
    m.height, m.width, m.BearingX, m.BearingY, m.Advance = h, w, 0, h, w + 1
    return m


def strike(bitDepth, ppem):
    s = LOC.Strike()
    t = s.bitmapSizeTable
    for d in ("hori", "vert"):
        m = LOC.SbitLineMetrics()
        (m.ascender, m.descender, m.widthMax, m.caretSlopeNumerator, m.caretSlopeDenominator, m.caretOffset, m.minOriginSB,
         m.minAdvanceSB, m.maxBeforeBL, m.minAfterBL, m.pad1, m.pad2) = (7, -2, 9, 1, 0, 0, 0, 0, 7, -2, 0, 0)
        setattr(t, d, m)
    t.colorRef, t.startGlyphIndex, t.endGlyphIndex, t.ppemX, t.ppemY, t.bitDepth, t.flags = 0, 1, 1, ppem, ppem, bitDepth, 1
    return s


def index_subtable_1(imageFormat, names):
    ist = LOC.eblc_index_sub_table_1(None, None)
    ist.indexFormat, ist.imageFormat, ist.names = 1, imageFormat, list(names)
    ist.firstGlyphIndex = ist.lastGlyphIndex = 0  # recomputed by compile
    return ist


def table_bytes(font):
    buf = io.BytesIO()
    font.save(buf)
    f = TTFont(io.BytesIO(buf.getvalue()))
    return {t: f.reader[t] for t in ("EBLC", "EBDT")}


def roundtrip(data, fmt):
    """dump with bitmapGlyphDataFormat=fmt, import the dump, compare EBLC / EBDT bytes; returns a problem or None"""
    want = table_bytes(TTFont(io.BytesIO(data)))
    with tempfile.TemporaryDirectory() as d:
        path = os.path.join(d, "dump.ttx")
        try:
            TTFont(io.BytesIO(data)).saveXML(path, bitmapGlyphDataFormat=fmt)
        except Exception as e:
            return "saveXML raised %s: %s" % (type(e).__name__, e)
        try:
            g = TTFont()
            g.importXML(path)
            got = table_bytes(g)
        except Exception as e:
            return "importXML / compile of the dump raised %s: %s" % (type(e).__name__, e)
    for t in want:
        if got[t] != want[t]:
            return "%s differs after the round trip:\n      original %s\n      imported %s" % (t, want[t].hex(), got[t].hex())
    return None


def pixels(width, height, bitDepth, byteAligned, seed):
    """deterministic pseudo-random pixels, most significant bit first, zero padding"""
    def pack(bits):
        bits = bits + [0] * (-len(bits) % 8)
        return bytes(int("".join(map(str, bits[i : i + 8])), 2) for i in range(0, len(bits), 8))

    rows, state = [], seed
    for _ in range(height):
        bits = []
        for _ in range(width):
            state = (state * 1103515245 + 12345) & 0x7FFFFFFF
            v = (state >> 16) % (1 << bitDepth)
            bits.extend((v >> (bitDepth - 1 - k)) & 1 for k in range(bitDepth))
        rows.append(bits)
    return b"".join(pack(r) for r in rows) if byteAligned else pack(sum(rows, []))


def build(bitDepth, imageFormat):
    names = [".notdef", "A", "B"]
    font = base_font(names)
    L, D = newTable("EBLC"), newTable("EBDT")
    L.version = D.version = 2.0
    s = strike(bitDepth, 12)
    s.indexSubTables.append(index_subtable_1(imageFormat, ["A", "B"]))
    data = {}
    for i, (n, w, h) in enumerate((("A", 5, 3), ("B", 7, 4))):
        g = DAT.ebdt_bitmap_classes[imageFormat](None, None)
        g.metrics, g.imageData = small_metrics(h, w), pixels(w, h, bitDepth, imageFormat == 1, 7 + i)
        data[n] = g
    L.strikes, D.strikeData = [s], [data]
    font["EBLC"], font["EBDT"] = L, D
    buf = io.BytesIO()
    font.save(buf)
    return buf.getvalue()


failed = False
for bitDepth in (1, 2, 4, 8):
    for imageFormat in (1, 2):  # byte-aligned / bit-aligned rows, small metrics
        data = build(bitDepth, imageFormat)
        for fmt in ("raw", "row", "bitwise"):
            problem = roundtrip(data, fmt)
            if problem:
                print("FAIL: bitDepth %d, image format %d, bitmapGlyphDataFormat=%r: %s" % (bitDepth, imageFormat, fmt, problem))
                failed = True
if not failed:
    print("ok: raw / row / bitwise dumps of 1, 2, 4 and 8 bit strikes are lossless")
sys.exit(1 if failed else 0)
