#!/usr/bin/env python3
"""C03 finding: a font whose EBDT holds a component bitmap glyph (image format 8 or 9) cannot be dumped to
TTX at all, and such a dump could not be imported either.

EbdtComponent.toXML and EbdtComponent.fromXML take the component field names with
    sstruct.getformat(ebdtComponentFormat)[1][1:]
i.e. they slice the *names* member of the parsed format.  sstruct.getformat returns the names as a dict
(name -> format char), so the slice raises KeyError: slice(1, None, None) as soon as a component is written or
read (BitmapSizeTable._getXMLMetricNames in E_B_L_C_.py was adapted to the dict with list(...keys())[3:]; these
two places were not).  Formats 8 and 9 are part of the EBDT specification; `ttx font.ttf` dies on such a font.

Run with PYTHONPATH=<repo>/Lib.  Exit 1 = defect present, 0 = fixed."""

import io
import os
import sys
import tempfile

from fontTools.fontBuilder import FontBuilder
from fontTools.pens.ttGlyphPen import TTGlyphPen
from fontTools.ttLib import TTFont, newTable
from fontTools.ttLib.tables import E_B_L_C_ as LOC, E_B_D_T_ as DAT
from fontTools.ttLib.tables.BitmapGlyphMetrics import BigGlyphMetrics, SmallGlyphMetrics


def base_font(names):
    fb = FontBuilder(1000, isTTF=True)
    fb.setupGlyphOrder(names)
    fb.setupCharacterMap({0x41 + i: n for i, n in enumerate(names) if i})
    glyphs = {}
    for i, n in enumerate(names):
        pen = TTGlyphPen(None)
        pen.moveTo((0, 0)); pen.lineTo((0, 500 + i)); pen.lineTo((400, 500 + i)); pen.lineTo((400, 0)); pen.closePath()
        glyphs[n] = pen.glyph()
    fb.setupGlyf(glyphs)
    fb.setupHorizontalMetrics({n: (600, 0) for n in names})
    fb.setupHorizontalHeader(ascent=800, descent=-200)
    fb.setupNameTable({"familyName": "Repro", "styleName": "Regular"})
    fb.setupOS2()
    fb.setupPost()
    return fb.font


def small_metrics(h, w):
    m = SmallGlyphMetrics()
    m.height, m.width, m.BearingX, m.BearingY, m.Advance = h, w, 0, h, w + 1
    return m


def strike(bitDepth, ppem):
    s = LOC.Strike()
    t = s.bitmapSizeTable
    for d in ("hori", "vert"):
        m = LOC.SbitLineMetrics()
        (m.ascender, m.descender, m.widthMax, m.caretSlopeNumerator, m.caretSlopeDenominator, m.caretOffset, m.minOriginSB,
         m.minAdvanceSB, m.maxBeforeBL, m.minAfterBL, m.pad1, m.pad2) = (7, -2, 9, 1, 0, 0, 0, 0, 7, -2, 0, 0)
        setattr(t, d, m)
    t.colorRef, t.startGlyphIndex, t.endGlyphIndex, t.ppemX, t.ppemY, t.bitDepth, t.flags = 0, 1, 1, ppem, ppem, bitDepth, 1
    return s


def index_subtable_1(imageFormat, names):
    ist = LOC.eblc_index_sub_table_1(None, None)
    ist.indexFormat, ist.imageFormat, ist.names = 1, imageFormat, list(names)
    ist.firstGlyphIndex = ist.lastGlyphIndex = 0  # recomputed by compile
    return ist


def table_bytes(font):
    buf = io.BytesIO()
    font.save(buf)
    f = TTFont(io.BytesIO(buf.getvalue()))
    return {t: f.reader[t] for t in ("EBLC", "EBDT")}


def roundtrip(data, fmt):
    """dump with bitmapGlyphDataFormat=fmt, import the dump, compare EBLC / EBDT bytes; returns a problem or None"""
    want = table_bytes(TTFont(io.BytesIO(data)))
    with tempfile.TemporaryDirectory() as d:
        path = os.path.join(d, "dump.ttx")
        try:
            TTFont(io.BytesIO(data)).saveXML(path, bitmapGlyphDataFormat=fmt)
        except Exception as e:
            return "saveXML raised %s: %s" % (type(e).__name__, e)
        try:
            g = TTFont()
            g.importXML(path)
            got = table_bytes(g)
        except Exception as e:
            return "importXML / compile of the dump raised %s: %s" % (type(e).__name__, e)
    for t in want:
        if got[t] != want[t]:
            return "%s differs after the round trip:\n      original %s\n      imported %s" % (t, want[t].hex(), got[t].hex())
    return None


def build(imageFormat):
    names = [".notdef", "A", "B", "C"]
    font = base_font(names)
    L, D = newTable("EBLC"), newTable("EBDT")
    L.version = D.version = 2.0
    s = strike(1, 9)
    # A, B: plain 1-bit images (format 1); C: a component glyph made of A and B
    s.indexSubTables.append(index_subtable_1(1, ["A", "B"]))
    s.indexSubTables.append(index_subtable_1(imageFormat, ["C"]))
    data = {}
    for n, bits in (("A", bytes([0xA0, 0x40, 0xA0])), ("B", bytes([0xE0, 0xA0, 0xE0]))):
        g = DAT.ebdt_bitmap_format_1(None, None)
        g.metrics, g.imageData = small_metrics(3, 3), bits
        data[n] = g
    c = DAT.ebdt_bitmap_classes[imageFormat](None, None)
    if imageFormat == 8:
        c.metrics = small_metrics(3, 7)
    else:
        c.metrics = BigGlyphMetrics()
        (c.metrics.height, c.metrics.width, c.metrics.horiBearingX, c.metrics.horiBearingY, c.metrics.horiAdvance,
         c.metrics.vertBearingX, c.metrics.vertBearingY, c.metrics.vertAdvance) = (3, 7, 0, 3, 8, -3, 0, 4)
    c.componentArray = []
    for name, x, y in (("A", 0, 0), ("B", 4, -1)):
        e = DAT.EbdtComponent()
        e.name, e.xOffset, e.yOffset = name, x, y
        c.componentArray.append(e)
    data["C"] = c
    L.strikes, D.strikeData = [s], [data]
    font["EBLC"], font["EBDT"] = L, D
    buf = io.BytesIO()
    font.save(buf)
    return buf.getvalue()


failed = False
for imageFormat in (8, 9):
    problem = roundtrip(build(imageFormat), "raw")
    if problem:
        print("FAIL: EBDT component glyph (image format %d): %s" % (imageFormat, problem))
        failed = True
    else:
        print("ok: EBDT component glyph (image format %d) survives the TTX round trip" % imageFormat)
sys.exit(1 if failed else 0)
