#!/usr/bin/env python3
"""C03 finding: a name record in a Unicode-compatible encoding (platform 0, or platform 3 encoding 1 / 10:
UTF-16) whose bytes are not valid UTF-16 (odd length, lone surrogate ...) does not survive a TTX round trip.

NameRecord.toXML copes with such records: toUnicode() fails, so it writes the bytes with write8bit (one
character per byte, numeric references for non-ASCII) and marks the element unicode="False".
NameRecord.fromXML however tests
    if self.encodingIsUnicodeCompatible() or safeEval(attrs.get("unicode", "False")):
        self.string = s.encode(encoding)
so for a Unicode-compatible encoding the unicode="False" marker is ignored and the 8-bit text is encoded
to UTF-16: every byte of the original becomes two bytes.  (For legacy encodings, e.g. Mac Roman, the marker is
honoured.)  Binary -> TTX -> binary changes the name table silently.

Run with PYTHONPATH=<repo>/Lib.  Exit 1 = defect present, 0 = fixed."""
import io
import sys

from fontTools.ttLib import TTFont, newTable
from fontTools.ttLib.tables._n_a_m_e import makeName

# (no NUL / control bytes in the undecodable records: write8bit would need &#0; ..., which XML 1.0 cannot express
#  at all - a limitation of the 8-bit text representation that is independent of this defect)
RECORDS = [
    (b"\x00A\x00b\x00c", 1, 3, 1, 0x409),  # fine
    (b"\x4e\x2d\x65\x87\x4e", 2, 3, 1, 0x804),  # odd length: truncated UTF-16 (seen in the wild)
    (b"\xff\xfeA\x80\x81", 6, 3, 1, 0x409),  # odd length, non-ASCII bytes
    (b"\xd8\x41\x4e\x41", 4, 0, 3, 0),  # lone high surrogate
    (b"Caf\x8e", 1, 1, 0, 0),  # Mac Roman, for comparison
]

font = TTFont()
font["name"] = name = newTable("name")
name.names = [makeName(*r) for r in RECORDS]
want = name.compile(font)

buf = io.StringIO()
font.saveXML(buf, tables=["name"])
back = TTFont()
back.importXML(io.StringIO(buf.getvalue()))
got = back["name"].compile(back)

failed = False
for r in RECORDS:
    rec = back["name"].getName(r[1], r[2], r[3], r[4])
    s = None if rec is None else rec.toBytes() if not isinstance(rec.string, bytes) else rec.string
    if s != r[0]:
        print("FAIL: name record nameID=%d platformID=%d platEncID=%d: %r came back as %r" % (r[1], r[2], r[3], r[0], s))
        failed = True
if got != want:
    print("FAIL: the name table compiles to different bytes after the TTX round trip (%d -> %d bytes)" % (len(want), len(got)))
    failed = True
if not failed:
    print("ok: name records that are not valid UTF-16 survive the TTX round trip")
sys.exit(1 if failed else 0)
