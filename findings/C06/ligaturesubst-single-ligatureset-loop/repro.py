"""C06 / key Terminates:LigatureSubst-single-LigatureSet>64k:repacker-off
GSUB.compile() never returns when USE_HARFBUZZ_REPACKER is False and a LigatureSubst subtable holds ONE
LigatureSet larger than 64 kB.  Run:  PYTHONPATH=/repo/Lib python repro.py   (stops itself after 60 s)."""
import itertools, signal, sys
from fontTools.ttLib import TTFont, newTable
from fontTools.ttLib.tables import otTables as ot
from fontTools.otlLib import builder

names = [".notdef"] + ["g%05d" % i for i in range(1, 12000)]
font = TTFont()
font.setGlyphOrder(names)
comps = names[10:40]
ligs = {}
for k, (a, b, c) in enumerate(itertools.islice(itertools.product(comps, comps, comps), 9000)):
    ligs[("g00001", a, b, c)] = names[100 + k]        # 9000 four-glyph ligatures in ONE LigatureSet (> 64 kB)
ligs[("g00002", "g00003")] = "g00004"
gsub = newTable("GSUB")
t = gsub.table = ot.GSUB()
t.Version = 0x00010000
t.ScriptList = ot.ScriptList(); t.ScriptList.ScriptRecord = []
t.FeatureList = ot.FeatureList(); t.FeatureList.FeatureRecord = []
t.LookupList = ot.LookupList()
lookup = builder.buildLookup([builder.buildLigatureSubstSubtable(ligs)])
t.LookupList.Lookup = [lookup]
font["GSUB"] = gsub
font.cfg["fontTools.ttLib.tables.otBase:USE_HARFBUZZ_REPACKER"] = False


def stop(*_):
    print("still looping after 60 s; the lookup now has %d subtables (all but one empty)" % len(lookup.SubTable))
    sys.exit(1)


signal.signal(signal.SIGALRM, stop)
signal.alarm(60)
data = gsub.compile(font)       # expected: bytes or OTLOffsetOverflowError; observed: never returns
print("returned %d bytes" % len(data))
