#!/usr/bin/env python3
"""C07 finding: a format-2 cmap subtable whose character codes are all one-byte is compiled to a subtable that maps
nothing.  cmap_format_2.compile keys the char codes of subheader 0 to that subheader only at the moment the first
byte changes inside its loop; when every code is one-byte the first byte never changes, the keys stay on the "empty"
subheader, and every mapping is lost when the font is saved.

The subsetter produces exactly such subtables: subsetting Tests/ttLib/tables/data/aots/cmap2_font1.otf (its only
Unicode subtable is format 2 with U+0034..36 and two-byte codes) to U+0034 yields a font in which U+0034, the
requested character, is not mapped.

Run with PYTHONPATH=<repo>/Lib.  Exit 1 = defect present, 0 = fixed."""
import io
import os
import sys

from fontTools import subset
from fontTools.fontBuilder import FontBuilder
from fontTools.pens.ttGlyphPen import TTGlyphPen
from fontTools.ttLib import TTFont
from fontTools.ttLib.tables._c_m_a_p import CmapSubtable

failed = False


def tiny_font():
    names = [".notdef", "A", "B", "C"]
    fb = FontBuilder(1000, isTTF=True)
    fb.setupGlyphOrder(names)
    fb.setupCharacterMap({0x41: "A"})
    glyphs = {}
    for i, n in enumerate(names):
        pen = TTGlyphPen(None)
        pen.moveTo((0, 0))
        pen.lineTo((0, 100 + i))
        pen.lineTo((100 + i, 100))
        pen.closePath()
        glyphs[n] = pen.glyph()
    fb.setupGlyf(glyphs)
    fb.setupHorizontalMetrics({n: (500, 0) for n in names})
    fb.setupHorizontalHeader(ascent=800, descent=-200)
    fb.setupNameTable({"familyName": "X", "styleName": "R"})
    fb.setupOS2()
    fb.setupPost()
    return fb.font


# 1. the codec alone: compile + decompile of a format-2 subtable
for mapping in ({0x34: "A"}, {0x34: "A", 0x35: "B", 0x40: "C"}, {0xFF: "A"}, {0x34: "A", 0x8432: "B"}, {0x8432: "B"}):
    font = tiny_font()
    t = CmapSubtable.newSubtable(2)
    t.platformID, t.platEncID, t.language, t.cmap = 3, 1, 0, dict(mapping)
    font["cmap"].tables = [t]
    buf = io.BytesIO()
    font.save(buf)
    back = TTFont(io.BytesIO(buf.getvalue()))["cmap"].tables[0].cmap
    shown = {hex(k): v for k, v in mapping.items()}
    if back != mapping:
        failed = True
        print("FAIL: format-2 cmap %s reads back as %s after save" % (shown, {hex(k): v for k, v in back.items()}))
    else:
        print("ok:   format-2 cmap %s survives save" % shown)

# 2. as it happens in practice: subsetting a corpus font
here = os.path.dirname(os.path.abspath(subset.__file__))
path = os.path.normpath(os.path.join(here, "..", "..", "..", "Tests", "ttLib", "tables", "data", "aots", "cmap2_font1.otf"))
if not os.path.exists(path):
    path = "/repo/Tests/ttLib/tables/data/aots/cmap2_font1.otf"
if os.path.exists(path):
    o = subset.Options()
    font = subset.load_font(path, o)
    s = subset.Subsetter(o)
    s.populate(unicodes=[0x34])
    s.subset(font)
    in_memory = {u for t in font["cmap"].tables for u in t.cmap}
    out = io.BytesIO()
    subset.save_font(font, out, o)
    saved = {u for t in TTFont(io.BytesIO(out.getvalue()))["cmap"].tables for u in t.cmap}
    if 0x34 not in saved:
        failed = True
        print("FAIL: cmap2_font1.otf subset to U+0034: in memory %s, saved font maps %s" % (sorted(map(hex, in_memory)), sorted(map(hex, saved))))
    else:
        print("ok:   cmap2_font1.otf subset to U+0034 keeps U+0034")
sys.exit(1 if failed else 0)
