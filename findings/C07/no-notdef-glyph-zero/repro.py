#!/usr/bin/env python3
"""C07 finding: with --no-notdef-glyph (Options.notdef_glyph = False) and without --retain-gids the subsetter
renumbers the first retained glyph to glyph id 0.  Glyph id 0 is the "missing glyph" of an OpenType font: a cmap
entry that points to it means "no glyph" to every consumer (HarfBuzz, FreeType, fontTools' own cmap reader drops
such entries).  The requested character whose glyph lands on id 0 is therefore NOT PRESENT in the result, although
subset --help says the option "works fine as long as no unsupported glyphs are requested from the font".

Run with PYTHONPATH=<repo>/Lib.  Exit 1 = defect present, 0 = fixed."""
import io
import sys

from fontTools import subset
from fontTools.fontBuilder import FontBuilder
from fontTools.pens.ttGlyphPen import TTGlyphPen
from fontTools.ttLib import TTFont


def make_font():
    names = [".notdef", "A", "B"]
    fb = FontBuilder(1000, isTTF=True)
    fb.setupGlyphOrder(names)
    fb.setupCharacterMap({0x41: "A", 0x42: "B"})
    glyphs = {}
    for i, n in enumerate(names):
        pen = TTGlyphPen(None)
        pen.moveTo((0, 0))
        pen.lineTo((0, 100 + i))
        pen.lineTo((100 + i, 100))
        pen.closePath()
        glyphs[n] = pen.glyph()
    fb.setupGlyf(glyphs)
    fb.setupHorizontalMetrics({n: (500 + i, 0) for i, n in enumerate(names)})
    fb.setupHorizontalHeader(ascent=800, descent=-200)
    fb.setupNameTable({"familyName": "X", "styleName": "R"})
    fb.setupOS2()
    fb.setupPost()
    buf = io.BytesIO()
    fb.font.save(buf)
    return buf.getvalue()


def run(unicodes):
    o = subset.Options()
    o.notdef_glyph = False  # --no-notdef-glyph
    font = subset.load_font(io.BytesIO(make_font()), o)
    s = subset.Subsetter(o)
    s.populate(unicodes=unicodes)
    s.subset(font)
    out = io.BytesIO()
    subset.save_font(font, out, o)
    return out.getvalue()


failed = False
for req in ([0x41], [0x41, 0x42]):
    data = run(req)
    res = TTFont(io.BytesIO(data))
    mapped = set()
    for t in res["cmap"].tables:
        if t.isUnicode():
            mapped |= set(t.cmap)
    missing = sorted(set(req) - mapped)
    line = "request %s: result glyph order %s, characters fontTools reads back from its cmap %s" % (
        ["U+%04X" % u for u in req], res.getGlyphOrder(), ["U+%04X" % u for u in sorted(mapped)])
    try:
        import uharfbuzz as hb

        f = hb.Font(hb.Face(hb.Blob(data)))
        line += "; HarfBuzz nominal glyphs %s" % [f.get_nominal_glyph(u) for u in req]
    except ImportError:
        pass
    if missing:
        failed = True
        print("FAIL:", line, "-> requested", ["U+%04X" % u for u in missing], "is mapped to glyph id 0 = not present")
    else:
        print("ok:  ", line)
sys.exit(1 if failed else 0)
