#!/usr/bin/env python3
"""C08 finding: instancer/featureVars.py mishandles a FeatureVariationRecord that applies
everywhere in the new design space without keeping a condition (all its conditions are on pinned
axes and are met, or it has none).

Stand-alone: imports fontTools from PYTHONPATH, builds a two-axis glyf font with the usual
"overlay" feature-variation records of two rules, pins one axis and compares what HarfBuzz (if
available) and a direct evaluation of the FeatureVariations table substitute, original vs instance,
at the SAME user-space locations.  Exits 1 on the defect, 0 once fixed."""
import io
import sys

from fontTools.feaLib.builder import addOpenTypeFeaturesFromString
from fontTools.fontBuilder import FontBuilder
from fontTools.pens.ttGlyphPen import TTGlyphPen
from fontTools.ttLib import TTFont
from fontTools.varLib import featureVars
from fontTools.varLib.instancer import instantiateVariableFont
from fontTools.varLib.models import normalizeValue


def build(records):
    names = [".notdef", "a", "a.alt1", "a.alt2"]
    fb = FontBuilder(1000, isTTF=True)
    fb.setupGlyphOrder(names)
    fb.setupCharacterMap({0x61: "a"})
    pen = TTGlyphPen(None)
    pen.moveTo((0, 0)); pen.lineTo((100, 0)); pen.lineTo((100, 100)); pen.closePath()
    g = pen.glyph()
    fb.setupGlyf({n: g for n in names})
    fb.setupHorizontalMetrics({n: (500, 0) for n in names})
    fb.setupHorizontalHeader(ascent=800, descent=-200)
    fb.setupNameTable({"familyName": "T", "styleName": "Regular"})
    fb.setupOS2()
    fb.setupPost()
    fb.setupFvar([("wght", 100, 400, 900, "Weight"), ("wdth", 50, 100, 200, "Width")], [])
    fb.setupGvar({n: [] for n in names})
    f = fb.font
    addOpenTypeFeaturesFromString(
        f, "lookup L0 { sub a by a.alt1; } L0; lookup L1 { sub a.alt1 by a.alt2; sub a by a.alt2; } L1;"
           "feature liga { sub a.alt1 a.alt2 by a; } liga;")
    featureVars.addFeatureVariationsRaw(f, f["GSUB"].table, records, "rvrn")
    buf = io.BytesIO()
    f.save(buf)
    return TTFont(io.BytesIO(buf.getvalue()))


def active_lookups(font, user):
    """lookups of the 'rvrn' feature in effect at a user-space location (OpenType FeatureVariations:
    the first record whose condition set is satisfied wins)"""
    t = font["GSUB"].table
    axes = font["fvar"].axes if "fvar" in font else []
    loc = [normalizeValue(user[a.axisTag], (a.minValue, a.defaultValue, a.maxValue)) for a in axes]
    idx = [i for i, fr in enumerate(t.FeatureList.FeatureRecord) if fr.FeatureTag == "rvrn"][0]
    fv = getattr(t, "FeatureVariations", None)
    for rec in (fv.FeatureVariationRecord if fv is not None else []):
        conds = rec.ConditionSet.ConditionTable if rec.ConditionSet is not None else []
        if all(c.FilterRangeMinValue <= loc[c.AxisIndex] <= c.FilterRangeMaxValue for c in conds):
            for sr in rec.FeatureTableSubstitution.SubstitutionRecord:
                if sr.FeatureIndex == idx:
                    return list(sr.Feature.LookupListIndex)
            break
    return list(t.FeatureList.FeatureRecord[idx].Feature.LookupListIndex)


def shaped(font, user):
    try:
        import uharfbuzz as hb
    except ImportError:
        return None
    buf = io.BytesIO()
    font.save(buf)
    fo = hb.Font(hb.Face(hb.Blob(buf.getvalue())))
    fo.set_variations(user)
    b = hb.Buffer()
    b.add_str("a")
    b.guess_segment_properties()
    hb.shape(fo, b, {})
    return [font.getGlyphName(i.codepoint) for i in b.glyph_infos]


def lookup_names(font, idxs):
    # lookups are renumbered by the instancer: identify them by what they do to 'a'
    out = []
    for i in idxs:
        st = font["GSUB"].table.LookupList.Lookup[i].SubTable[0]
        out.append(getattr(st, "mapping", {}).get("a"))
    return out


def main():
    bad = 0
    # (1) the records varLib itself produces for two rules (wght >= .5 -> L0, wdth >= .5 -> L1)
    f = build([({"wght": (0.5, 1.0), "wdth": (0.5, 1.0)}, [0, 1]), ({"wght": (0.5, 1.0)}, [0]), ({"wdth": (0.5, 1.0)}, [1])])
    inst = instantiateVariableFont(f, {"wght": 900})
    for wdth in (100, 125, 175):
        o = lookup_names(f, active_lookups(f, {"wght": 900, "wdth": wdth}))
        i = lookup_names(inst, active_lookups(inst, {"wdth": wdth}))
        so, si = shaped(f, {"wght": 900, "wdth": wdth}), shaped(inst, {"wdth": wdth})
        ok = o == i and so == si
        bad += not ok
        print("pin wght=900, at wdth=%s: original %s %s | instance %s %s %s" % (wdth, o, so, i, si, "" if ok else " <-- DIFFERS"))
    # (2) a record without conditions followed by another record
    f = build([({}, [0]), ({"wdth": (-1.0, 1.0)}, [1])])
    inst = instantiateVariableFont(f, {"wght": 100})
    for wdth in (100, 150):
        o = lookup_names(f, active_lookups(f, {"wght": 100, "wdth": wdth}))
        i = lookup_names(inst, active_lookups(inst, {"wdth": wdth}))
        so, si = shaped(f, {"wght": 100, "wdth": wdth}), shaped(inst, {"wdth": wdth})
        ok = o == i and so == si
        bad += not ok
        print("pin wght=100, at wdth=%s: original %s %s | instance %s %s %s" % (wdth, o, so, i, si, "" if ok else " <-- DIFFERS"))
    # (3) pinning every axis must not leave a FeatureVariations table
    f = build([({"wght": (0.5, 1.0)}, [0]), ({"wdth": (0.5, 1.0)}, [1])])
    inst = instantiateVariableFont(f, {"wght": 900, "wdth": 100})
    left = getattr(inst["GSUB"].table, "FeatureVariations", None) is not None
    o = lookup_names(f, active_lookups(f, {"wght": 900, "wdth": 100}))
    i = lookup_names(inst, active_lookups(inst, {}))
    ok = not left and o == i
    bad += not ok
    print("pin all: original %s | static instance %s, FeatureVariations left: %s%s" % (o, i, left, "" if ok else " <-- WRONG"))
    print("DEFECT PRESENT" if bad else "ok")
    return 1 if bad else 0


if __name__ == "__main__":
    sys.exit(main())
