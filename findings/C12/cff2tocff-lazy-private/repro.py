#!/usr/bin/env python3
"""C12 finding: convertCFF2ToCFF on a CFF2 font loaded from a file (the `fonttools cffLib.CFF2ToCFF`
command line path, and varLib.instancer's downgradeCFF2ToCFF) flags each FontDict as CFF *before* its
Private DICT is read.  The lazily read Private DICT then parses its local Subrs INDEX with the CFF
layout (2-byte count instead of the 4-byte count of CFF2), the subroutines are lost and the first
`callsubr` raises IndexError.

The script builds a 2-glyph CFF font with one local subroutine, converts it to CFF2 (fine), saves and
reloads it, and converts it back.
Stand-alone: PYTHONPATH=<fonttools>/Lib python repro.py ; exit 1 = defect present, 0 = fixed."""
import io, sys, traceback
from fontTools.fontBuilder import FontBuilder
from fontTools.misc.psCharStrings import T2CharString
from fontTools.cffLib import SubrsIndex
from fontTools.ttLib import TTFont
from fontTools.cffLib.CFFToCFF2 import convertCFFToCFF2
from fontTools.cffLib.CFF2ToCFF import convertCFF2ToCFF
from fontTools.pens.recordingPen import RecordingPen

def build():
    fb = FontBuilder(1000, isTTF=False)
    fb.setupGlyphOrder([".notdef", "A"])
    fb.setupCharacterMap({65: "A"})
    cs = {".notdef": T2CharString(program=[500, "endchar"]),
          "A": T2CharString(program=[600, 10, 20, "rmoveto", -107, "callsubr", "endchar"])}
    fb.setupCFF("T", {"FullName": "T"}, cs, {"defaultWidthX": 0, "nominalWidthX": 0})
    cff = fb.font["CFF "].cff
    priv = cff.topDictIndex[0].Private
    priv.Subrs = SubrsIndex()
    priv.Subrs.append(T2CharString(program=[100, 0, "rlineto", 0, 100, "rlineto", "return"], private=priv, globalSubrs=cff.GlobalSubrs))
    fb.setupHorizontalMetrics({".notdef": (500, 0), "A": (600, 0)})
    fb.setupHorizontalHeader(ascent=800, descent=-200)
    fb.setupNameTable({"familyName": "T", "styleName": "Regular"})
    fb.setupOS2(); fb.setupPost()
    b = io.BytesIO(); fb.font.save(b)
    return b.getvalue()

def draw(font):
    gs = font.getGlyphSet()
    out = {}
    for i, n in enumerate(font.getGlyphOrder()):
        p = RecordingPen(); gs[n].draw(p); out[i] = (p.value, gs[n].width)
    return out

data = build()
f = TTFont(io.BytesIO(data)); ref = draw(f)
f = TTFont(io.BytesIO(data)); convertCFFToCFF2(f); b = io.BytesIO(); f.save(b); cff2 = b.getvalue()
f = TTFont(io.BytesIO(cff2), recalcBBoxes=False, recalcTimestamp=False)
assert draw(f) == ref, "CFF2 draws differently"
f = TTFont(io.BytesIO(cff2), recalcBBoxes=False, recalcTimestamp=False)
try:
    convertCFF2ToCFF(f)
    b = io.BytesIO(); f.save(b)
    got = draw(TTFont(io.BytesIO(b.getvalue())))
except Exception:
    traceback.print_exc()
    print("DEFECT: convertCFF2ToCFF on a freshly loaded CFF2 font with local subroutines raised")
    sys.exit(1)
if got != ref:
    print("DEFECT: outlines/widths changed", ref, got); sys.exit(1)
print("ok")
