#!/usr/bin/env python3
"""C12 finding: convertCFFToCFF2 strips `endchar`/`return` from every subroutine BEFORE it looks for
glyphs that carry an explicit width.  A glyph whose only stack-clearing operator is an `endchar`
inside a subroutine (TN5177 allows endchar in a subroutine; typical for a blank glyph) then shows no
operator that would reveal the width, so the width operand stays in the CFF2 charstring, where it is
a stray operand (CFF2 charstrings have no width).  Converting back with convertCFF2ToCFF then yields
`w' w endchar`, whose advance fontTools itself reads as defaultWidthX.

Stand-alone: PYTHONPATH=<fonttools>/Lib python repro.py ; exit 1 = defect present, 0 = fixed."""
import io, sys
from fontTools.fontBuilder import FontBuilder
from fontTools.misc.psCharStrings import T2CharString
from fontTools.cffLib import SubrsIndex
from fontTools.ttLib import TTFont
from fontTools.cffLib.CFFToCFF2 import convertCFFToCFF2

def build():
    fb = FontBuilder(1000, isTTF=False)
    fb.setupGlyphOrder([".notdef", "space", "A"])
    fb.setupCharacterMap({32: "space", 65: "A"})
    cs = {".notdef": T2CharString(program=[500, "endchar"]),
          "space": T2CharString(program=[250, -107, "callsubr"]),           # width, then endchar from subr 0
          "A": T2CharString(program=[600, 10, 20, "rmoveto", 100, "hlineto", -107, "callsubr"])}
    fb.setupCFF("T", {"FullName": "T"}, cs, {"defaultWidthX": 0, "nominalWidthX": 0})
    cff = fb.font["CFF "].cff
    priv = cff.topDictIndex[0].Private
    priv.Subrs = SubrsIndex()
    priv.Subrs.append(T2CharString(program=["endchar"], private=priv, globalSubrs=cff.GlobalSubrs))
    fb.setupHorizontalMetrics({".notdef": (500, 0), "space": (250, 0), "A": (600, 0)})
    fb.setupHorizontalHeader(ascent=800, descent=-200)
    fb.setupNameTable({"familyName": "T", "styleName": "Regular"})
    fb.setupOS2(); fb.setupPost()
    b = io.BytesIO(); fb.font.save(b)
    return b.getvalue()

f = TTFont(io.BytesIO(build()))
convertCFFToCFF2(f)
b = io.BytesIO(); f.save(b)
f = TTFont(io.BytesIO(b.getvalue()))
td = f["CFF2"].cff.topDictIndex[0]
bad = 0
for n in f.getGlyphOrder():
    cs = td.CharStrings[n]; cs.decompile()
    print(n, cs.program)
    # a CFF2 charstring has no width operand: 'space' must be empty (or just the call of the now empty subroutine)
    nums = [t for t in cs.program if not isinstance(t, str)]
    if n == "space" and 250 in nums:
        bad = 1
if bad:
    print("DEFECT: the CFF width operand 250 of 'space' survived in the CFF2 charstring")
    sys.exit(1)
print("ok")
