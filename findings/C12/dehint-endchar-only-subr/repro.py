#!/usr/bin/env python3
"""C12 finding: remove_hints() treats a subroutine that consists of nothing but `endchar` once its hint
operators are dropped (e.g. `endchar`, or `1 2 hintmask <mask> endchar`) as EMPTY, because the scan in
_DehintingT2Decompiler.execute skips the last token of every charstring (normally `return`).  Calls of an
"empty" subroutine are deleted / cut away, so the glyph loses its endchar -- and in the nested case the
glyph is left as a bare width operand.

Glyph A: hinted outline, ends with a call of subroutine 0 = `endchar`.
Glyph B: calls subr 3 = `subr2 subr1 return`, subr 2 = `250 return` (the width), subr 1 = `1 2 hintmask <80> endchar`.
Stand-alone: PYTHONPATH=<fonttools>/Lib python repro.py ; exit 1 = defect present, 0 = fixed."""
import io, sys
from fontTools.fontBuilder import FontBuilder
from fontTools.misc.psCharStrings import T2CharString
from fontTools.cffLib import SubrsIndex
from fontTools.ttLib import TTFont

def build():
    fb = FontBuilder(1000, isTTF=False)
    fb.setupGlyphOrder([".notdef", "A", "B"])
    fb.setupCharacterMap({65: "A", 66: "B"})
    cs = {".notdef": T2CharString(program=[500, "endchar"]),
          # hinted glyph that ends by calling subroutine 0 = "endchar"
          "A": T2CharString(program=[600, 10, 20, "hstem", 5, 5, "rmoveto", 50, "hlineto", -107, "callsubr"]),
          # blank glyph: width 250 pushed, then subroutine 1 = "hintmask <no bytes> endchar"
          "B": T2CharString(program=[-104, "callsubr"])}
    fb.setupCFF("T", {"FullName": "T"}, cs, {"defaultWidthX": 0, "nominalWidthX": 0})
    cff = fb.font["CFF "].cff
    priv = cff.topDictIndex[0].Private
    priv.Subrs = SubrsIndex()
    priv.Subrs.append(T2CharString(program=["endchar"], private=priv, globalSubrs=cff.GlobalSubrs))
    priv.Subrs.append(T2CharString(program=[1, 2, "hintmask", b"\x80", "endchar"], private=priv, globalSubrs=cff.GlobalSubrs))
    priv.Subrs.append(T2CharString(program=[250, "return"], private=priv, globalSubrs=cff.GlobalSubrs))
    priv.Subrs.append(T2CharString(program=[-105, "callsubr", -106, "callsubr", "return"], private=priv, globalSubrs=cff.GlobalSubrs))
    fb.setupHorizontalMetrics({".notdef": (500, 0), "A": (600, 0), "B": (250, 0)})
    fb.setupHorizontalHeader(ascent=800, descent=-200)
    fb.setupNameTable({"familyName": "T", "styleName": "Regular"})
    fb.setupOS2(); fb.setupPost()
    b = io.BytesIO(); fb.font.save(b)
    return b.getvalue()

f = TTFont(io.BytesIO(build()))
cff = f["CFF "].cff
cff.remove_hints()
cff.desubroutinize()
td = cff.topDictIndex[0]
bad = 0
for n in ("A", "B"):
    p = td.CharStrings[n].program
    print(n, p)
    if not p or p[-1] != "endchar":
        print("  DEFECT: glyph %s lost its endchar" % n); bad = 1
sys.exit(bad)
