#!/usr/bin/env python3
"""C12 finding: programToCommands miscounts the operands in front of the first stack-clearing
operator of a CFF2 charstring when more than one `blend` precedes it, takes the first blend for a
glyph width, and generalizeProgram / specializeProgram then raise (or move operands around).

Stand-alone: PYTHONPATH=<fonttools>/Lib python repro.py ; exit 1 = defect present, 0 = fixed."""
import sys

from fontTools.cffLib.specializer import (
    programToCommands,
    commandsToProgram,
    generalizeProgram,
    specializeProgram,
)

numRegions = lambda vsindex: 1  # one region: each blended value is followed by one delta

# x and y of the first moveto blended separately: a perfectly ordinary CFF2 charstring
# ("1 10 1 blend" = value 1 with delta 10).  No width: CFF2 charstrings never have one.
two_blends = [1, 10, 1, "blend", 2, 20, 1, "blend", "rmoveto", 5, 6, "rlineto"]
# the same charstring with both values in one blend operator (handled correctly)
one_blend = [1, 2, 10, 20, 2, "blend", "rmoveto", 5, 6, "rlineto"]

failed = []


def check(what, ok, detail):
    print(("ok   " if ok else "FAIL ") + what + ": " + detail)
    if not ok:
        failed.append(what)


cmds = programToCommands(two_blends, numRegions)
check(
    "programToCommands(two blends before rmoveto)",
    cmds[0] == ("rmoveto", [[1, 10, 1], [2, 20, 1]]),
    repr(cmds[:2]),
)

for fn in (generalizeProgram, specializeProgram):
    try:
        out = fn(list(two_blends), numRegions)
        ref = fn(list(one_blend), numRegions)
        check("%s(two blends)" % fn.__name__, out == ref, "%r (one-blend twin gives %r)" % (out, ref))
    except Exception as e:
        check("%s(two blends)" % fn.__name__, False, "raised %r" % (e,))

# generalizeProgram itself produces that shape, so its own output cannot be specialised again
g = generalizeProgram(list(one_blend), numRegions)
try:
    s = specializeProgram(list(g), numRegions)
    check("specializeProgram(generalizeProgram(p))", s == one_blend, repr(s))
except Exception as e:
    check("specializeProgram(generalizeProgram(p))", False, "generalised form %r; raised %r" % (g, e))

# three blends in front of a stem hint: the count is wrong by more (1+2 too many)
p = [1, 10, 1, "blend", 2, 20, 1, "blend", 3, 30, 1, "blend", 4, 40, 1, "blend", "hstemhm", 7, "hmoveto"]
cmds = programToCommands(p, numRegions)
check("programToCommands(four blends before hstemhm)", cmds[0][0] == "hstemhm" and len(cmds[0][1]) == 4, repr(cmds[:2]))
p = [1, 10, 1, "blend", 2, 20, 1, "blend", 3, 30, 1, "blend", "hstemhm"]   # odd: this one really has a width-like operand
cmds = programToCommands(p, numRegions)
check("programToCommands(three blends before hstemhm: odd count)", cmds[0] == ("", [[1, 10, 1]]), repr(cmds[:2]))

if failed:
    print("DEFECT: %d check(s) failed" % len(failed))
    sys.exit(1)
print("all good")
