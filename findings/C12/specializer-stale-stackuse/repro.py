#!/usr/bin/env python3
"""C12 finding: specializeCommands (step 5, merging adjacent operators) loses track of the operand-stack
use when two adjacent curve operators cannot be merged: the `continue` statements of the curve branch
skip the `stackUse = ...` update at the bottom of the loop, so the next round adds its operands to the
stack use of the WRONG (later, possibly smaller) command.  A rrcurveto (6 operands) in front of a
4-operand h/v curve is then accounted as 4 deep, and the lines merged in front of it (rlinecurve) may
run 2 operands over `maxstack`.

With the CFF2 value maxstack=513 (what varLib passes) the emitted `rlinecurve` has 514 operands: one more
than a CFF2 interpreter's stack holds.  With the CFF default maxstack=48 the result is 48 deep (legal,
but not the "maxstack - 1" the code promises for subroutinizers); with any even/odd smaller maxstack the
requested bound is exceeded by 1 or 2.

Stand-alone: PYTHONPATH=<fonttools>/Lib python repro.py ; exit 1 = defect present, 0 = fixed."""
import sys

from fontTools.cffLib.specializer import specializeProgram


def deepest(program):
    d = m = 0
    for t in program:
        if isinstance(t, str):
            d = 0
        elif not isinstance(t, bytes):
            d += 1
            m = max(m, d)
    return m


def prog(nlines, tail):
    p = [10, 20, "rmoveto"]
    for i in range(nlines):
        p += [1 + (i % 5), 2, "rlineto"]
    p += [1, 2, 3, 4, 5, 6, "rrcurveto"]
    if tail:
        p += [6, 0, -1, 0, "hvcurveto"]  # cannot be merged with the rrcurveto in front of it
    return p


bad = 0
for maxstack, nlines in ((513, 300), (48, 30), (25, 15), (24, 15)):
    without = deepest(specializeProgram(prog(nlines, False), maxstack=maxstack))
    with_ = deepest(specializeProgram(prog(nlines, True), maxstack=maxstack))
    note = ""
    if with_ > maxstack:
        note = "  <-- DEFECT: deeper than maxstack" + (" and than the CFF2 stack (513)" if maxstack == 513 else "")
        bad = 1
    elif with_ != without:
        note = "  <-- (stale accounting: differs from the same lines without the trailing curve)"
        bad = 1
    print("maxstack=%3d: deepest operand run %3d without / %3d with a trailing h/v curve%s" % (maxstack, without, with_, note))
sys.exit(bad)
