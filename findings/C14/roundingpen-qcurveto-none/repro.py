#!/usr/bin/env python3
"""C14 finding: RoundingPen raises TypeError on a closed quadratic contour without on-curve point.

The segment-pen protocol (AbstractPen.qCurveTo) allows None as the last argument of qCurveTo:
"the last argument (normally the on-curve point) may be None, this is to support contours that have
NO on-curve points (a rarely seen feature of TrueType outlines)".  Glyph.draw() of the glyf table emits
exactly this call for such contours, RecordingPen / TransformPen / ReverseContourPen / TTGlyphPen accept it.
RoundingPen.qCurveTo unpacks every argument as (x, y) and dies on the None.

Run with PYTHONPATH=<repo>/Lib.  Exit 1 = defect present, 0 = fixed."""
import sys

from fontTools.pens.recordingPen import RecordingPen
from fontTools.pens.roundingPen import RoundingPen
from fontTools.pens.ttGlyphPen import TTGlyphPen

failed = False

# 1. the bare call sequence
rec = RecordingPen()
pen = RoundingPen(rec)
try:
    pen.qCurveTo((0.5, -2.5), (0.5, 0.5), (2.4, 1.6), None)
    pen.closePath()
except TypeError as e:
    print("FAIL: RoundingPen.qCurveTo(..., None) raised TypeError: %s" % e)
    failed = True
else:
    want = [("qCurveTo", ((1, -2), (1, 1), (2, 2), None)), ("closePath", ())]
    if rec.value != want:
        print("FAIL: RoundingPen output %r, expected %r" % (rec.value, want))
        failed = True
    else:
        print("ok: RoundingPen rounds the off-curve points and passes None through: %r" % (rec.value,))

# 2. the same thing as it happens in practice: a TrueType glyph whose contour has only off-curve points,
#    drawn through a RoundingPen (what e.g. a scaling + rounding pipeline does)
tt = TTGlyphPen(None)
tt.qCurveTo((0, 0), (100, 0), (100, 100), (0, 100), None)
tt.closePath()
glyph = tt.glyph()
rec = RecordingPen()
try:
    glyph.draw(RoundingPen(rec), None)
except TypeError as e:
    print("FAIL: Glyph.draw(RoundingPen(...)) of a glyph without on-curve points raised TypeError: %s" % e)
    failed = True
else:
    print("ok: glyph without on-curve points drawn through RoundingPen: %r" % (rec.value,))

sys.exit(1 if failed else 0)
