#!/usr/bin/env python3
"""C14 finding: TTGlyphPen drops an off-curve point of a contour without on-curve points when the last
off-curve point coincides with the first one, which changes the drawn curve.

TTGlyphPen.closePath() removes the last point of a contour if it equals the first one ("if first and last
point on this path are the same, remove last"): that is right when a closing lineTo / curve end duplicates
the moveTo point, but for qCurveTo(off_1, ..., off_n, None) -- a closed contour made of off-curve points
only -- both points are control points.  Two consecutive coincident control points put the implied on-curve
point ON them (the curve passes through that point, with a corner); dropping one of them makes the curve
cut the corner.

Run with PYTHONPATH=<repo>/Lib.  Exit 1 = defect present, 0 = fixed."""
import sys

from fontTools.pens.areaPen import AreaPen
from fontTools.pens.boundsPen import BoundsPen
from fontTools.pens.recordingPen import RecordingPen
from fontTools.pens.ttGlyphPen import TTGlyphPen, TTGlyphPointPen

offs = [(0, 0), (400, 0), (400, 400), (0, 400), (0, 0)]   # first == last, all off-curve


def measure(draw):
    a = AreaPen()
    draw(a)
    b = BoundsPen(None)
    draw(b)
    r = RecordingPen()
    draw(r)
    return a.value, b.bounds, r.value


def source(pen):
    pen.qCurveTo(*offs, None)
    pen.closePath()


area_in, bounds_in, calls_in = measure(source)
print("input            : %r" % (calls_in,))
print("                   area %.1f bounds %r" % (area_in, bounds_in))

failed = False
for label, make in (
    ("TTGlyphPen", lambda: TTGlyphPen(None)),
    ("TTGlyphPen(outputImpliedClosingLine=True)", lambda: TTGlyphPen(None, outputImpliedClosingLine=True)),
):
    pen = make()
    source(pen)
    glyph = pen.glyph()
    area, bounds, calls = measure(lambda p: glyph.draw(p, None))
    same = abs(area - area_in) < 1e-6 and bounds == bounds_in and len(glyph.coordinates) == len(offs)
    print("%-17s: %r" % (label, calls))
    print("                   %d points, area %.1f bounds %r -> %s" % (len(glyph.coordinates), area, bounds, "ok" if same else "FAIL: geometry changed"))
    failed |= not same

# the point pen builds the same contour correctly (reference)
pp = TTGlyphPointPen(None)
pp.beginPath()
for o in offs:
    pp.addPoint(o)
pp.endPath()
g2 = pp.glyph()
area, bounds, calls = measure(lambda p: g2.draw(p, None))
print("TTGlyphPointPen  : %d points, area %.1f bounds %r (reference)" % (len(g2.coordinates), area, bounds))

sys.exit(1 if failed else 0)
