"""reorderGlyphs on a CFF font with an FDSelect (CID-keyed fonts; CFF2 fonts with several Font DICTs) read from a
binary file permutes the charset and CharStrings but leaves FDSelect - an array indexed by glyph ID - in the old
order: glyph names end up with another glyph's Font DICT / Private DICT (hint zones, default and nominal widths).
Exit 1 while the defect is present, 0 once fixed.
"""
import io
import os
import sys

from fontTools.ttLib import TTFont
from fontTools.ttLib.reorderGlyphs import reorderGlyphs

REPO = os.environ.get("FONTTOOLS_REPO", "/repo")


def fd_by_name(font):
    cs = font["CFF "].cff.topDictIndex[0].CharStrings
    return {n: cs.getItemAndSelector(n)[1] for n in font.getGlyphOrder()}


def main():
    src = TTFont()
    src.importXML(os.path.join(REPO, "Tests/varLib/data/master_sparse_cff2/MasterSet_Kanji-w1000.00.ttx"))
    buf = io.BytesIO()
    src.save(buf)
    data = buf.getvalue()
    before = fd_by_name(TTFont(io.BytesIO(data)))
    font = TTFont(io.BytesIO(data))
    order = font.getGlyphOrder()
    new = order[:1] + order[2:] + order[1:2]
    reorderGlyphs(font, new)
    buf = io.BytesIO()
    font.save(buf)
    font = TTFont(io.BytesIO(buf.getvalue()))
    after = fd_by_name(font)
    print("Font DICT index per glyph name before:", before)
    print("                               after :", after)
    if font.getGlyphOrder() != new:
        print("DEFECT: glyph order of the saved file is not the requested one")
        return 1
    if before != after:
        print("DEFECT: glyph names changed their Font DICT:", sorted(n for n in before if before[n] != after.get(n)))
        return 1
    print("ok")
    return 0


if __name__ == "__main__":
    sys.exit(main())
