"""reorderGlyphs on a CFF2 font opened from a binary file hands every glyph name the outline of another glyph.
CFF2 has no charset: fontTools keys the CharStrings by TTFont.getGlyphOrder() at the moment the top DICT's CharStrings
are first accessed, and reorderGlyphs first accesses them AFTER it has installed the new glyph order.
Exit 1 while the defect is present, 0 once fixed.
"""
import io
import os
import sys

from fontTools.pens.recordingPen import RecordingPen
from fontTools.ttLib import TTFont
from fontTools.ttLib.reorderGlyphs import reorderGlyphs

REPO = os.environ.get("FONTTOOLS_REPO", "/repo")


def outlines(font):
    gs = font.getGlyphSet()
    out = {}
    for n in font.getGlyphOrder():
        pen = RecordingPen()
        gs[n].draw(pen)
        out[n] = pen.value
    return out


def main():
    src = TTFont()
    src.importXML(os.path.join(REPO, "Tests/varLib/data/master_ttx_varfont_otf/TestCFF2VF.ttx"))
    buf = io.BytesIO()
    src.save(buf)
    data = buf.getvalue()
    before = outlines(TTFont(io.BytesIO(data)))
    font = TTFont(io.BytesIO(data))
    order = font.getGlyphOrder()
    new = order[:1] + order[1:][::-1]
    reorderGlyphs(font, new)
    buf = io.BytesIO()
    font.save(buf)
    font = TTFont(io.BytesIO(buf.getvalue()))
    if font.getGlyphOrder() != new:
        font.setGlyphOrder(new)
    after = outlines(font)
    changed = [n for n in order if before[n] != after[n]]
    print("glyph order %s -> %s" % (order, new))
    print("glyph names whose outline changed:", changed)
    if changed:
        print("DEFECT: e.g. %r had %d pen operations, now %d" % (changed[0], len(before[changed[0]]), len(after[changed[0]])))
        return 1
    print("ok")
    return 0


if __name__ == "__main__":
    sys.exit(main())
