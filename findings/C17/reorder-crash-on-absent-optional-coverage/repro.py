"""reorderGlyphs raises AttributeError on a MATH table whose optional coverage offsets are NULL (MathVariants.VertGlyphCoverage / HorizGlyphCoverage, MathGlyphInfo.ExtendedShapeCoverage: each may be absent).
Exit 1 while the defect is present, 0 once fixed.
"""
import io
import os
import sys

from fontTools.ttLib import TTFont
from fontTools.ttLib.reorderGlyphs import reorderGlyphs

REPO = os.environ.get("FONTTOOLS_REPO", "/repo")


def main():
    src = TTFont()
    src.importXML(os.path.join(REPO, "Tests/subset/data/test_math_closure.ttx"))
    buf = io.BytesIO()
    src.save(buf)
    font = TTFont(io.BytesIO(buf.getvalue()))
    m = font["MATH"].table
    gi, mv = m.MathGlyphInfo, m.MathVariants
    print("MathGlyphInfo.ExtendedShapeCoverage:", getattr(gi, "ExtendedShapeCoverage", "(no MathGlyphInfo)"))
    print("MathVariants.VertGlyphCoverage:", getattr(mv, "VertGlyphCoverage", "(no MathVariants)"),
          " HorizGlyphCoverage:", getattr(mv, "HorizGlyphCoverage", "(no MathVariants)"))
    order = font.getGlyphOrder()
    try:
        reorderGlyphs(font, order[:1] + order[1:][::-1])
        font.save(io.BytesIO())
    except Exception as e:
        print("DEFECT: reorderGlyphs raised %s: %s" % (type(e).__name__, e))
        return 1
    print("ok: reordered and saved")
    return 0


if __name__ == "__main__":
    sys.exit(main())
