"""HVAR without an AdvWidthMap uses the implicit mapping "delta-set index = glyph ID".  reorderGlyphs changes the
glyph IDs but neither permutes the delta sets nor writes an explicit map, so after reordering every glyph name gets
the advance variation of whatever glyph had its new ID before.  Exit 1 while the defect is present, 0 once fixed.
"""
import io
import sys

from fontTools.fontBuilder import FontBuilder
from fontTools.pens.ttGlyphPen import TTGlyphPen
from fontTools.ttLib import TTFont, newTable
from fontTools.ttLib.reorderGlyphs import reorderGlyphs
from fontTools.ttLib.tables import otTables as ot
from fontTools.varLib import builder as vb

NAMES = [".notdef", "A", "B", "C"]
DELTAS = {".notdef": 0, "A": 10, "B": 20, "C": 30}


def build():
    fb = FontBuilder(1000, isTTF=True)
    fb.setupGlyphOrder(NAMES)
    fb.setupCharacterMap({0x41: "A", 0x42: "B", 0x43: "C"})
    glyphs = {}
    for i, n in enumerate(NAMES):
        pen = TTGlyphPen(None)
        pen.moveTo((0, 0))
        pen.lineTo((0, 700))
        pen.lineTo((100 + 100 * i, 700))
        pen.closePath()
        glyphs[n] = pen.glyph()
    fb.setupGlyf(glyphs)
    fb.setupHorizontalMetrics({n: (600, 0) for n in NAMES})
    fb.setupHorizontalHeader(ascent=800, descent=-200)
    fb.setupNameTable({"familyName": "Repro", "styleName": "Regular"})
    fb.setupOS2()
    fb.setupPost()
    fb.setupFvar([("wght", 100, 400, 900, "Weight")], [])
    regions = vb.buildVarRegionList([{"wght": (0, 1.0, 1.0)}], ["wght"])
    data = vb.buildVarData([0], [[DELTAS[n]] for n in NAMES], optimize=False)
    hvar = ot.HVAR()
    hvar.Version = 0x00010000
    hvar.VarStore = vb.buildVarStore(regions, [data])
    hvar.AdvWidthMap = hvar.LsbMap = hvar.RsbMap = None      # implicit mapping: delta-set index = glyph ID
    fb.font["HVAR"] = newTable("HVAR")
    fb.font["HVAR"].table = hvar
    buf = io.BytesIO()
    fb.font.save(buf)
    return buf.getvalue()


def advance_deltas(font):
    t = font["HVAR"].table
    out = {}
    for gid, n in enumerate(font.getGlyphOrder()):
        idx = gid if t.AdvWidthMap is None else t.AdvWidthMap.mapping[n]
        out[n] = t.VarStore.VarData[idx >> 16].Item[idx & 0xFFFF][0]
    return out


def main():
    font = TTFont(io.BytesIO(build()))
    before = advance_deltas(font)
    reorderGlyphs(font, [".notdef", "C", "B", "A"])
    buf = io.BytesIO()
    font.save(buf)
    after = advance_deltas(TTFont(io.BytesIO(buf.getvalue())))
    print("advance delta at wght=900 per glyph name, before:", before)
    print("                                           after:", after)
    if before != after:
        print("DEFECT: reordering changed the advance variation of glyph names")
        return 1
    print("ok")
    return 0


if __name__ == "__main__":
    sys.exit(main())
