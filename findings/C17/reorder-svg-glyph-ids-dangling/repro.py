"""The SVG table addresses glyphs by glyph-ID ranges (startGlyphID, endGlyphID) and, inside each document, by
id="glyph<ID>".  reorderGlyphs leaves the table untouched and does not refuse the font, so after reordering each SVG
document belongs to whatever glyph received its ID.  Exit 1 while the defect is present, 0 once fixed (the SVG
records follow their glyph names, or reorderGlyphs refuses the font).
"""
import io
import sys

from fontTools.fontBuilder import FontBuilder
from fontTools.pens.ttGlyphPen import TTGlyphPen
from fontTools.ttLib import TTFont, newTable
from fontTools.ttLib.reorderGlyphs import reorderGlyphs
from fontTools.ttLib.tables.S_V_G_ import SVGDocument

NAMES = [".notdef", "A", "B", "C"]


def build():
    fb = FontBuilder(1000, isTTF=True)
    fb.setupGlyphOrder(NAMES)
    fb.setupCharacterMap({0x41: "A", 0x42: "B", 0x43: "C"})
    glyphs = {}
    for i, n in enumerate(NAMES):
        pen = TTGlyphPen(None)
        pen.moveTo((0, 0))
        pen.lineTo((0, 700))
        pen.lineTo((100 + 100 * i, 700))
        pen.closePath()
        glyphs[n] = pen.glyph()
    fb.setupGlyf(glyphs)
    fb.setupHorizontalMetrics({n: (600, 0) for n in NAMES})
    fb.setupHorizontalHeader(ascent=800, descent=-200)
    fb.setupNameTable({"familyName": "Repro", "styleName": "Regular"})
    fb.setupOS2()
    fb.setupPost()
    svg = newTable("SVG ")
    doc = '<svg xmlns="http://www.w3.org/2000/svg"><g id="glyph1"><rect x="0" y="-700" width="200" height="700"/></g></svg>'
    svg.docList = [SVGDocument(doc, 1, 1, False)]     # the colour drawing of glyph ID 1 = "A"
    fb.font["SVG "] = svg
    buf = io.BytesIO()
    fb.font.save(buf)
    return buf.getvalue()


def svg_names(font):
    order = font.getGlyphOrder()
    return [[order[g] for g in range(d.startGlyphID, d.endGlyphID + 1)] for d in font["SVG "].docList]


def main():
    font = TTFont(io.BytesIO(build()))
    before = svg_names(font)
    try:
        reorderGlyphs(font, [".notdef", "C", "B", "A"])
    except NotImplementedError as e:
        print("ok: reorderGlyphs refuses fonts with an SVG table (%s)" % e)
        return 0
    buf = io.BytesIO()
    font.save(buf)
    after = svg_names(TTFont(io.BytesIO(buf.getvalue())))
    print("glyph names that own an SVG document, before:", before, "after:", after)
    if before != after:
        print("DEFECT: the SVG document of 'A' now belongs to another glyph")
        return 1
    print("ok")
    return 0


if __name__ == "__main__":
    sys.exit(main())
