"""reorderGlyphs does not re-sort the VARC table's Coverage (and the parallel VarCompositeGlyphs array) by the new
glyph IDs: the saved font has a Coverage table whose glyph IDs are not ascending, which OpenType requires (readers
binary-search it).  Exit 1 while the defect is present, 0 once fixed.
"""
import io
import os
import sys

from fontTools.ttLib import TTFont
from fontTools.ttLib.reorderGlyphs import reorderGlyphs

REPO = os.environ.get("FONTTOOLS_REPO", "/repo")


def main():
    font = TTFont(os.path.join(REPO, "Tests/ttLib/data/varc-6868.ttf"))
    order = font.getGlyphOrder()
    comps0 = dict(zip(font["VARC"].table.Coverage.glyphs, [len(g.components) for g in font["VARC"].table.VarCompositeGlyphs.VarCompositeGlyph]))
    new = order[:1] + order[1:][::-1]
    reorderGlyphs(font, new)
    buf = io.BytesIO()
    font.save(buf)
    font = TTFont(io.BytesIO(buf.getvalue()))
    font.setGlyphOrder(new)  # the file carries no glyph names (post 3.0)
    cov = font["VARC"].table.Coverage.glyphs
    gids = [new.index(g) for g in cov]
    comps1 = dict(zip(cov, [len(g.components) for g in font["VARC"].table.VarCompositeGlyphs.VarCompositeGlyph]))
    print("VARC Coverage glyph IDs in the saved file:", gids)
    rc = 0
    if gids != sorted(gids):
        print("DEFECT: Coverage is not in ascending glyph-ID order")
        rc = 1
    if comps0 != comps1:
        print("DEFECT: a glyph name's composite changed:", comps0, comps1)
        rc = 1
    print("ok" if rc == 0 else "")
    return rc


if __name__ == "__main__":
    sys.exit(main())
