"""scale_upem multiplies the deltas of the avar version 2 ItemVariationStore by the scale factor.  Those deltas are
normalized axis coordinates (F2Dot14 units: 16384 = 1.0), not design units, so the axis mapping of the variable font
changes: after halving the em, an avar2 mapping that moved an axis by -1.0 moves it by -0.5.
Exit 1 while the defect is present, 0 once fixed.
"""
import io
import os
import sys

from fontTools.ttLib import TTFont
from fontTools.ttLib.scaleUpem import scale_upem

REPO = os.environ.get("FONTTOOLS_REPO", "/repo")


def deltas(font):
    store = font["avar"].table.VarStore
    return [list(item) for vd in store.VarData for item in vd.Item]


def main():
    path = os.path.join(REPO, "Tests/ttLib/tables/data/Amstelvar-avar2.subset.ttf")
    before = deltas(TTFont(path))
    font = TTFont(path)
    upem = font["head"].unitsPerEm
    scale_upem(font, upem // 2)
    buf = io.BytesIO()
    font.save(buf)
    after = deltas(TTFont(io.BytesIO(buf.getvalue())))
    print("unitsPerEm %d -> %d" % (upem, upem // 2))
    print("avar VarStore deltas before:", before[:2])
    print("                     after :", after[:2])
    if before != after:
        print("DEFECT: avar 2 deltas (normalized coordinates) were scaled")
        return 1
    print("ok")
    return 0


if __name__ == "__main__":
    sys.exit(main())
