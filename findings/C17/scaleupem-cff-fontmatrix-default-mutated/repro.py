"""scale_upem on a CFF font whose top DICT has no FontMatrix (the usual case: the default 0.001 applies)
divides the library's shared default list in place instead of giving the font its own FontMatrix:

  * the saved font has the new unitsPerEm but still no FontMatrix operator, i.e. the file says 0.001
    (CFF specification default) although the outlines were rescaled to unitsPerEm != 1000;
  * every other CFF font opened later in the same process reports the divided default.

Stand-alone.  Exit 1 while the defect is present, 0 once fixed.
"""
import io
import sys

from fontTools.fontBuilder import FontBuilder
from fontTools.pens.t2CharStringPen import T2CharStringPen
from fontTools.ttLib import TTFont
from fontTools.ttLib.scaleUpem import scale_upem

SPEC_DEFAULT = [0.001, 0, 0, 0.001, 0, 0]  # CFF specification (Adobe TN #5176), Top DICT operator FontMatrix


def build():
    names = [".notdef", "A"]
    fb = FontBuilder(1000, isTTF=False)
    fb.setupGlyphOrder(names)
    fb.setupCharacterMap({0x41: "A"})
    cs = {}
    for n in names:
        pen = T2CharStringPen(600, None)
        pen.moveTo((0, 0))
        pen.lineTo((0, 700))
        pen.lineTo((500, 700))
        pen.closePath()
        cs[n] = pen.getCharString()
    fb.setupCFF("Repro", {}, cs, {})
    fb.setupHorizontalMetrics({n: (600, 0) for n in names})
    fb.setupHorizontalHeader(ascent=800, descent=-200)
    fb.setupNameTable({"familyName": "Repro", "styleName": "Regular"})
    fb.setupOS2()
    fb.setupPost()
    buf = io.BytesIO()
    fb.font.save(buf)
    return buf.getvalue()


def stored_matrix(data):
    """FontMatrix as the FILE states it: the stored operands, else the specification's default."""
    top = TTFont(io.BytesIO(data))["CFF "].cff.topDictIndex[0]
    return [float(x) for x in top.rawDict.get("FontMatrix", SPEC_DEFAULT)]


def main():
    original = build()
    font = TTFont(io.BytesIO(original))
    scale_upem(font, 2000)
    buf = io.BytesIO()
    font.save(buf)
    scaled = buf.getvalue()
    upem = TTFont(io.BytesIO(scaled))["head"].unitsPerEm
    m = stored_matrix(scaled)
    print("scaled file: unitsPerEm %d, FontMatrix stated by the file %s (FontMatrix[0] * unitsPerEm = %g, was 1)" % (upem, m, m[0] * upem))
    rc = 0
    if abs(m[0] * upem - 1.0) > 1e-6:
        print("DEFECT: the scaled file's FontMatrix does not match its unitsPerEm")
        rc = 1
    other = TTFont(io.BytesIO(original))["CFF "].cff.topDictIndex[0].FontMatrix
    print("an untouched copy of the original opened afterwards reports FontMatrix %s" % list(other))
    if list(other) != SPEC_DEFAULT:
        print("DEFECT: scale_upem changed the library-wide default FontMatrix")
        rc = 1
    if rc == 0:
        print("ok")
    return rc


if __name__ == "__main__":
    sys.exit(main())
