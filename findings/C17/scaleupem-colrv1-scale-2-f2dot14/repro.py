"""scale_upem on a COLRv1 font with a factor of exactly 2 (or 1/2, whose inverse 2 wraps every PaintGlyph)
builds a PaintScaleUniform with scale = 2.0, which F2Dot14 cannot hold: saving raises AssertionError.
(`2 - (1 >> 14)` in _setup_scale_paint is 2 - 0; the largest F2Dot14 is 2 - 2**-14.)

Stand-alone.  Exit 1 while the defect is present, 0 once fixed.
"""
import io
import sys

from fontTools.fontBuilder import FontBuilder
from fontTools.pens.ttGlyphPen import TTGlyphPen
from fontTools.ttLib import TTFont
from fontTools.ttLib.scaleUpem import scale_upem
from fontTools.ttLib.tables import otTables as ot


def build():
    names = [".notdef", "A", "layer"]
    fb = FontBuilder(1000, isTTF=True)
    fb.setupGlyphOrder(names)
    fb.setupCharacterMap({0x41: "A"})
    glyphs = {}
    for n in names:
        pen = TTGlyphPen(None)
        pen.moveTo((0, 0))
        pen.lineTo((0, 700))
        pen.lineTo((500, 700))
        pen.closePath()
        glyphs[n] = pen.glyph()
    fb.setupGlyf(glyphs)
    fb.setupHorizontalMetrics({n: (600, 0) for n in names})
    fb.setupHorizontalHeader(ascent=800, descent=-200)
    fb.setupNameTable({"familyName": "Repro", "styleName": "Regular"})
    fb.setupOS2()
    fb.setupPost()
    P = ot.PaintFormat
    fb.setupCOLR({"A": {"Format": P.PaintGlyph, "Glyph": "layer", "Paint": {"Format": P.PaintSolid, "PaletteIndex": 0, "Alpha": 1.0}}})
    fb.setupCPAL([[(1.0, 0.0, 0.0, 1.0)]])
    buf = io.BytesIO()
    fb.font.save(buf)
    return buf.getvalue()


def main():
    data = build()
    rc = 0
    for target in (2000, 500, 1500):
        font = TTFont(io.BytesIO(data))
        scale_upem(font, target)
        try:
            font.save(io.BytesIO())
            print("1000 -> %d: saved" % target)
        except Exception as e:
            print("1000 -> %d: save raised %s: %s" % (target, type(e).__name__, str(e)[:120]))
            rc = 1
    print("DEFECT: scaling a COLRv1 font by 2 or 1/2 produces a font that cannot be saved" if rc else "ok")
    return rc


if __name__ == "__main__":
    sys.exit(main())
