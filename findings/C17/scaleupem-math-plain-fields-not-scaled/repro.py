"""scale_upem scales the MATH table's MathValueRecords but none of its design-unit fields that are plain integers:
MathConstants.DelimitedSubFormulaMinHeight / DisplayOperatorMinHeight, MathVariants.MinConnectorOverlap,
MathGlyphVariantRecord.AdvanceMeasurement, GlyphPartRecord.StartConnectorLength / EndConnectorLength / FullAdvance.
Exit 1 while the defect is present, 0 once fixed.
"""
import io
import os
import sys

from fontTools.ttLib import TTFont
from fontTools.ttLib.scaleUpem import scale_upem

REPO = os.environ.get("FONTTOOLS_REPO", "/repo")


def fields(font):
    m = font["MATH"].table
    out = {"AxisHeight (MathValueRecord)": m.MathConstants.AxisHeight.Value,
           "DelimitedSubFormulaMinHeight": m.MathConstants.DelimitedSubFormulaMinHeight,
           "DisplayOperatorMinHeight": m.MathConstants.DisplayOperatorMinHeight,
           "MinConnectorOverlap": m.MathVariants.MinConnectorOverlap}
    for cov, cons in ((m.MathVariants.VertGlyphCoverage, m.MathVariants.VertGlyphConstruction),
                      (m.MathVariants.HorizGlyphCoverage, m.MathVariants.HorizGlyphConstruction)):
        if cov is None:
            continue
        for g, c in zip(cov.glyphs, cons):
            for i, v in enumerate(c.MathGlyphVariantRecord):
                out.setdefault("AdvanceMeasurement %s[%d]" % (g, i), v.AdvanceMeasurement)
            if c.GlyphAssembly is not None:
                for i, p in enumerate(c.GlyphAssembly.PartRecords):
                    out.setdefault("FullAdvance %s part %d" % (g, i), p.FullAdvance)
                    out.setdefault("StartConnectorLength %s part %d" % (g, i), p.StartConnectorLength)
    return out


def main():
    src = TTFont()
    src.importXML(os.path.join(REPO, "Tests/subset/data/TestMATH-Regular.ttx"))
    buf = io.BytesIO()
    src.save(buf)
    data = buf.getvalue()
    before = fields(TTFont(io.BytesIO(data)))
    font = TTFont(io.BytesIO(data))
    upem = font["head"].unitsPerEm
    scale_upem(font, 2 * upem)
    buf = io.BytesIO()
    font.save(buf)
    after = fields(TTFont(io.BytesIO(buf.getvalue())))
    bad = [k for k in before if before[k] != 0 and after[k] != 2 * before[k]]
    for k in list(before)[:4] + bad[:8]:
        print("%-45s %6d -> %6d%s" % (k, before[k], after[k], "   <-- not scaled" if k in bad else ""))
    if bad:
        print("DEFECT: %d design-unit fields of MATH were not scaled by 2 (unitsPerEm %d -> %d)" % (len(bad), upem, 2 * upem))
        return 1
    print("ok")
    return 0


if __name__ == "__main__":
    sys.exit(main())
