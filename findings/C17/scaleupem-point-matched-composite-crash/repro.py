"""scale_upem raises AttributeError on a TrueType font that contains a composite glyph with a component attached by
point matching (component flag ARGS_ARE_XY_VALUES clear: the two arguments are point numbers, the component has no
x / y offset).  Exit 1 while the defect is present, 0 once fixed.
"""
import io
import sys

from fontTools.fontBuilder import FontBuilder
from fontTools.pens.ttGlyphPen import TTGlyphPen
from fontTools.ttLib import TTFont
from fontTools.ttLib.scaleUpem import scale_upem
from fontTools.ttLib.tables._g_l_y_f import Glyph, GlyphComponent


def build():
    names = [".notdef", "A", "dot", "Adot"]
    fb = FontBuilder(1000, isTTF=True)
    fb.setupGlyphOrder(names)
    fb.setupCharacterMap({0x41: "A", 0x2E: "dot", 0xC4: "Adot"})
    glyphs = {}
    for i, n in enumerate(names[:3]):
        pen = TTGlyphPen(None)
        pen.moveTo((0, 0))
        pen.lineTo((0, 700 - 100 * i))
        pen.lineTo((300 + 50 * i, 700 - 100 * i))
        pen.closePath()
        glyphs[n] = pen.glyph()
    g = Glyph()
    g.numberOfContours = -1
    c1 = GlyphComponent()
    c1.glyphName, c1.x, c1.y, c1.flags = "A", 10, -6, 0x2          # ARGS_ARE_XY_VALUES
    c2 = GlyphComponent()
    c2.glyphName, c2.firstPt, c2.secondPt, c2.flags = "dot", 2, 0, 0  # point 2 of the composite = point 0 of "dot"
    g.components = [c1, c2]
    glyphs["Adot"] = g
    fb.setupGlyf(glyphs)
    fb.setupHorizontalMetrics({n: (600, 0) for n in names})
    fb.setupHorizontalHeader(ascent=800, descent=-200)
    fb.setupNameTable({"familyName": "Repro", "styleName": "Regular"})
    fb.setupOS2()
    fb.setupPost()
    buf = io.BytesIO()
    fb.font.save(buf)
    return buf.getvalue()


def main():
    font = TTFont(io.BytesIO(build()))
    try:
        scale_upem(font, 500)
        buf = io.BytesIO()
        font.save(buf)
    except Exception as e:
        print("DEFECT: scale_upem / save raised %s: %s" % (type(e).__name__, e))
        return 1
    font = TTFont(io.BytesIO(buf.getvalue()))
    comps = [(c.glyphName, getattr(c, "x", None), getattr(c, "y", None), getattr(c, "firstPt", None), getattr(c, "secondPt", None))
             for c in font["glyf"]["Adot"].components]
    print("components after 1000 -> 500:", comps)
    if comps != [("A", 5, -3, None, None), ("dot", None, None, 2, 0)]:
        print("DEFECT: unexpected components")
        return 1
    print("ok")
    return 0


if __name__ == "__main__":
    sys.exit(main())
