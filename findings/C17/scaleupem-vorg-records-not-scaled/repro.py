"""scale_upem scales VORG.defaultVertOriginY but leaves every per-glyph vertOriginY unscaled.

Stand-alone: builds a small CFF font with a VORG table, doubles the units per em and prints the
vertical origins before / after.  Exit 1 while the defect is present, 0 once fixed.
"""
import io
import sys

from fontTools.fontBuilder import FontBuilder
from fontTools.pens.t2CharStringPen import T2CharStringPen
from fontTools.ttLib import TTFont
from fontTools.ttLib.scaleUpem import scale_upem


def build():
    names = [".notdef", "A", "B"]
    fb = FontBuilder(1000, isTTF=False)
    fb.setupGlyphOrder(names)
    fb.setupCharacterMap({0x41: "A", 0x42: "B"})
    cs = {}
    for n in names:
        pen = T2CharStringPen(600, None)
        pen.moveTo((0, 0))
        pen.lineTo((0, 700))
        pen.lineTo((500, 700))
        pen.closePath()
        cs[n] = pen.getCharString()
    fb.setupCFF("Repro", {}, cs, {})
    fb.setupHorizontalMetrics({n: (600, 0) for n in names})
    fb.setupHorizontalHeader(ascent=800, descent=-200)
    fb.setupVerticalMetrics({n: (1000, 0) for n in names})
    fb.setupVerticalHeader(ascent=500, descent=-500)
    fb.setupVerticalOrigins({"A": 850, "B": 700}, 880)
    fb.setupNameTable({"familyName": "Repro", "styleName": "Regular"})
    fb.setupOS2()
    fb.setupPost()
    buf = io.BytesIO()
    fb.font.save(buf)
    return buf.getvalue()


def main():
    font = TTFont(io.BytesIO(build()))
    before = (font["VORG"].defaultVertOriginY, dict(font["VORG"].VOriginRecords))
    scale_upem(font, 2000)
    buf = io.BytesIO()
    font.save(buf)
    font = TTFont(io.BytesIO(buf.getvalue()))
    after = (font["VORG"].defaultVertOriginY, dict(font["VORG"].VOriginRecords))
    print("unitsPerEm 1000 -> %d" % font["head"].unitsPerEm)
    print("VORG before: default %d, records %s" % before)
    print("VORG after : default %d, records %s" % after)
    bad = [g for g, v in before[1].items() if after[1].get(g) != 2 * v]
    if after[0] != 2 * before[0] or bad:
        print("DEFECT: vertOriginY of %s not scaled by 2 (the default was%s)" % (bad, "" if after[0] == 2 * before[0] else " not either"))
        return 1
    print("ok: every vertical origin scaled")
    return 0


if __name__ == "__main__":
    sys.exit(main())
