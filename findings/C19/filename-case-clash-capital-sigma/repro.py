#!/usr/bin/env python3
"""Two glyph names get file names that differ only in case: the clash test
compares str.lower() images, and str.lower() of GREEK CAPITAL LETTER SIGMA
depends on its neighbours ("aΣ_.glif".lower() == "aς_.glif", final sigma), so
the later name "aσ_" is not recognised as a clash of "aΣ_.glif".
Exits 1 while the defect is there."""
import os
import sys
import tempfile

from fontTools.misc import filenames as misc_filenames
from fontTools.ufoLib import filenames as ufo_filenames


def same_ignoring_case(a, b):
    # every context-free notion of "ignoring case" agrees on these two
    return a.upper() == b.upper() or a.casefold() == b.casefold() or [c.lower() for c in a] == [c.lower() for c in b]


bad = 0
for mod in (misc_filenames, ufo_filenames):
    for users in (["aΣ", "aσ_"], ["AΣ", "Aσ_"], ["ΣΣ", "Σσ_"]):
        existing = set()  # what GlyphSet / UFOWriter pass: lower-cased names handed out so far
        names = []
        for u in users:
            fn = mod.userNameToFileName(u, existing, suffix=".glif")
            existing.add(fn.lower())
            names.append(fn)
        clash = same_ignoring_case(*names)
        print("%-28s %r -> %r%s" % (mod.__name__, users, names, "   <-- same name ignoring case" if clash else ""))
        bad += clash

from fontTools.ufoLib.glifLib import GlyphSet


class G:
    width = 1


with tempfile.TemporaryDirectory() as d:
    gs = GlyphSet(d)
    gs.writeGlyph("aΣ", G(), None)
    gs.writeGlyph("aσ_", G(), None)
    files = sorted(gs.contents.values())
    clash = same_ignoring_case(*files)
    print("GlyphSet files:", files, "(one file on a case-insensitive file system: the second glyph overwrites the first)" if clash else "")
    bad += clash
print("DEFECT PRESENT" if bad else "ok")
sys.exit(1 if bad else 0)
