#!/usr/bin/env python3
"""userNameToFileName returns a name longer than maxFileNameLength (255) when a
dot-separated part of a long user name is a reserved file name: the "_" prefix
is added after the name was clipped to 255.  Exits 1 while the defect is there."""
import sys
import tempfile

from fontTools.misc import filenames as misc_filenames
from fontTools.ufoLib import filenames as ufo_filenames

bad = 0
cases = [
    ("con." + "a" * 251, "", ""),
    ("con." + "a" * 246, "", ".glif"),  # what glifLib passes
    ("a" * 251 + ".conx", "", ""),  # "conx" is clipped to the reserved "con"
    ("aux." + "b" * 240 + ".nul.prn.con", "glyphs.", ""),  # layer directory
]
for mod in (misc_filenames, ufo_filenames):
    for user, prefix, suffix in cases:
        fn = mod.userNameToFileName(user, prefix=prefix, suffix=suffix)
        reserved = [p for p in fn.split(".") if p.lower() in mod.reservedFileNames]
        ok = len(fn) <= mod.maxFileNameLength and not reserved
        print("%-28s user name of %3d chars, prefix %r, suffix %r -> %d chars%s%s" % (
            mod.__name__, len(user), prefix, suffix, len(fn), " reserved part %r" % reserved if reserved else "",
            "" if ok else "   <-- longer than %d" % mod.maxFileNameLength))
        bad += not ok

# consequence: a glyph the glyph set cannot write on file systems limited to 255
from fontTools.ufoLib.glifLib import GlyphSet


class G:
    width = 1


with tempfile.TemporaryDirectory() as d:
    gs = GlyphSet(d)
    try:
        gs.writeGlyph("con." + "a" * 246, G(), None)
        print("GlyphSet.writeGlyph: file name of %d chars written" % len(gs.contents["con." + "a" * 246]))
        bad += len(gs.contents["con." + "a" * 246]) > 255
    except OSError as e:
        print("GlyphSet.writeGlyph('con.' + 'a' * 246) failed:", e.strerror)
        bad += 1
print("DEFECT PRESENT" if bad else "ok")
sys.exit(1 if bad else 0)
