#!/usr/bin/env python3
"""fontTools.misc.filenames.userNameToFileName keeps '"' (U+0022) and NUL in
file names although both are in the illegal-character list of the UFO 3
conventions the module implements: the list is built from a *raw* string
literal, so it contains the two-character strings '\\"' and '\\0' instead.
Exits 1 while the defect is there."""
import sys

from fontTools.misc import filenames as misc_filenames
from fontTools.ufoLib import filenames as ufo_filenames

# UFO 3 conventions, "illegal characters": " * + / : < > ? [ \ ] | NUL, 0x01-0x1F, 0x7F
SPEC_ILLEGAL = set('"*+/:<>?[\\]|') | {chr(i) for i in range(0, 32)} | {chr(0x7F)}

bad = 0
for mod in (misc_filenames, ufo_filenames):
    kept = sorted(ch for ch in SPEC_ILLEGAL if ch in mod.userNameToFileName("q%sq" % ch))
    junk = sorted(x for x in mod.illegalCharacters if len(x) != 1)
    print("%-28s illegal characters kept in file names: %r; non-characters in illegalCharacters: %r" % (mod.__name__, kept, junk))
    bad += len(kept) + len(junk)
fn = misc_filenames.userNameToFileName('quote"dbl.alt')
print("misc.filenames.userNameToFileName('quote\"dbl.alt') = %r" % fn)
print("DEFECT PRESENT" if bad else "ok")
sys.exit(1 if bad else 0)
