#!/usr/bin/env python3
"""A <variable-font> whose range axis subset sets only some of userMinimum /
userDefault / userMaximum (each documented as optional on its own) is written
by designspaceLib but cannot be read back.  Exits 1 while the defect is there."""
import math
import sys

from fontTools.designspaceLib import (AxisDescriptor, DesignSpaceDocument, RangeAxisSubsetDescriptor,
                                      VariableFontDescriptor)

bad = 0
for kw in (dict(userMinimum=300, userMaximum=700), dict(userMinimum=300.5), dict(userDefault=500), dict(userMaximum=700, userDefault=500)):
    doc = DesignSpaceDocument()
    ax = AxisDescriptor()
    ax.name, ax.tag, ax.minimum, ax.default, ax.maximum = "Weight", "wght", 100, 400, 900
    doc.addAxis(ax)
    doc.variableFonts.append(VariableFontDescriptor(name="VF", axisSubsets=[RangeAxisSubsetDescriptor(name="Weight", **kw)]))
    text = doc.tostring().decode("utf-8")
    line = [l.strip() for l in text.splitlines() if "<axis-subset " in l][0]
    try:
        back = DesignSpaceDocument.fromstring(text)
        sub = back.variableFonts[0].axisSubsets[0]
        want = dict(userMinimum=-math.inf, userDefault=None, userMaximum=math.inf)
        want.update(kw)
        got = dict(userMinimum=sub.userMinimum, userDefault=sub.userDefault, userMaximum=sub.userMaximum)
        ok = got == want
        print("%-32s written as %s  read back %s" % (kw, line, "equal" if ok else "DIFFERENT: %r" % got))
    except Exception as e:
        ok = False
        print("%-32s written as %s  reading back raised %s: %s" % (kw, line, type(e).__name__, e))
    bad += not ok
print("DEFECT PRESENT" if bad else "ok")
sys.exit(1 if bad else 0)
