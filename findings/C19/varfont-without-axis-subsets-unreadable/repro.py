#!/usr/bin/env python3
"""A VariableFontDescriptor without axis subsets (the constructor's default:
every axis at its default location) is written as <variable-font name=".."/>
without an <axis-subsets> child, which designspaceLib's own reader refuses.
Exits 1 while the defect is there."""
import os
import sys
import tempfile

from fontTools.designspaceLib import AxisDescriptor, DesignSpaceDocument, VariableFontDescriptor

doc = DesignSpaceDocument()
ax = AxisDescriptor()
ax.name, ax.tag, ax.minimum, ax.default, ax.maximum = "Weight", "wght", 100, 400, 900
doc.addAxis(ax)
doc.variableFonts.append(VariableFontDescriptor(name="VF-default-location", filename="vf.ttf", lib={"com.example": 1}))
bad = 0
text = doc.tostring().decode("utf-8")
print("\n".join(l for l in text.splitlines() if "variable-font" in l or "axis-subset" in l))
try:
    back = DesignSpaceDocument.fromstring(text)
    vf = back.variableFonts[0]
    ok = (vf.name, vf.filename, vf.axisSubsets, vf.lib) == ("VF-default-location", "vf.ttf", [], {"com.example": 1})
    print("fromstring: read back", "equal" if ok else "DIFFERENT: %r" % vf)
    bad += not ok
except Exception as e:
    print("fromstring raised %s: %s" % (type(e).__name__, e))
    bad += 1
with tempfile.TemporaryDirectory() as d:
    path = os.path.join(d, "x.designspace")
    doc.write(path)
    try:
        DesignSpaceDocument.fromfile(path)
        print("write()/fromfile(): ok")
    except Exception as e:
        print("write()/fromfile() raised %s: %s" % (type(e).__name__, e))
        bad += 1
print("DEFECT PRESENT" if bad else "ok")
sys.exit(1 if bad else 0)
