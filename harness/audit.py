"""Turn the bytes of a saved font file into the integer record Trace_C04 judges.
Uses only the independent reader (rawsfnt); fontTools is never consulted here."""
import struct

from . import rawsfnt as R


def _tagcodes(tag):
    return list(tag)


def _head_zeroed(data):
    return data[:8] + b"\0\0\0\0" + data[12:]


def _dir_record(data, f, cont_kind):
    """Per-font directory record for sfnt / ttc members (offsets refer to `data`)."""
    d = []
    for e in f.entries:
        raw = data[e.offset : e.offset + e.length]
        padded_end = e.offset + R.pad4(e.length)
        pad = data[e.offset + e.length : padded_end]
        padzero = len(pad) == padded_end - (e.offset + e.length) and not any(pad)
        body = _head_zeroed(raw) if e.tag == b"head" and len(raw) >= 12 else raw
        d.append({"tag": _tagcodes(e.tag), "off": e.offset, "len": e.length, "cs": R.limbs(e.checksum),
                  "sum": R.limbs(R.wordsum(body)), "padzero": padzero})
    rec = {"n": f.numTables, "sr": f.searchRange, "es": f.entrySelector, "rs": f.rangeShift, "dirOff": f.dirOffset,
           "hdrEnd": f.dirOffset + 12 + 16 * f.numTables, "dir": d}
    if b"head" in f.tables and len(f.tables[b"head"]) >= 12:
        rec["adj"] = R.limbs(struct.unpack(">L", f.tables[b"head"][8:12])[0])
    else:
        rec["adj"] = []
    return rec


def container_record(data):
    c = R.parse(data)
    rec = {"kind": c.kind, "fileLen": len(data), "problems": c.problems, "fonts": []}
    if c.kind in ("sfnt", "ttc"):
        for f in c.fonts:
            rec["fonts"].append(_dir_record(data, f, c.kind))
        if c.kind == "sfnt":
            f = c.fonts[0]
            z = bytearray(data)
            for e in f.entries:
                if e.tag == b"head" and e.length >= 12:
                    z[e.offset + 8 : e.offset + 12] = b"\0\0\0\0"
            rec["fileSum0"] = R.limbs(R.wordsum(bytes(z)))
            ends = [e.offset + e.length for e in f.entries] or [12]
            tail = data[max(ends) :]
            rec["tailZero"] = not any(tail)
            rec["lastEnd"] = max(ends)
        else:
            rec["ttc"] = {"numFonts": c.header["numFonts"], "offsets": c.header["offsets"], "major": c.header["major"]}
            ends = [e.offset + e.length for f in c.fonts for e in f.entries] + [f.dirOffset + 12 + 16 * f.numTables for f in c.fonts]
            rec["tailZero"] = not any(data[max(ends) :])
            rec["lastEnd"] = max(ends)
    elif c.kind == "woff":
        f = c.fonts[0]
        h = c.header
        d = []
        for e in f.entries:
            padded_end = e.offset + R.pad4(e.compLength)
            pad = data[e.offset + e.compLength : padded_end]
            last = max(x.offset for x in f.entries) == e.offset
            padzero = (len(pad) == padded_end - (e.offset + e.compLength)) and not any(pad)
            raw = f.tables[e.tag]
            body = _head_zeroed(raw) if e.tag == b"head" and len(raw) >= 12 else raw
            d.append({"tag": _tagcodes(e.tag), "off": e.offset, "len": e.compLength, "orig": e.origLength,
                      "cs": R.limbs(e.checksum), "sum": R.limbs(R.wordsum(body)), "padzero": padzero,
                      "inflated": len(raw)})
        # the sfnt a WOFF decoder reconstructs: directory sorted by tag, table data in WOFF data order
        order = sorted(f.entries, key=lambda e: e.offset)
        n = len(f.entries)
        off = 12 + 16 * n
        offs = {}
        for e in order:
            offs[e.tag] = off
            off += R.pad4(e.origLength)
        sr = 16 * (1 << (n.bit_length() - 1)) if n else 0
        hdr = struct.pack(">4sHHHH", h["flavor"], n, sr, (n.bit_length() - 1) if n else 0, n * 16 - sr)
        total = R.wordsum(hdr)
        for e in sorted(f.entries, key=lambda e: e.tag):
            raw = f.tables[e.tag]
            body = _head_zeroed(raw) if e.tag == b"head" and len(raw) >= 12 else raw
            cs = R.wordsum(body)
            total = (total + R.wordsum(struct.pack(">4sLLL", e.tag, cs, offs[e.tag], e.origLength)) + cs) & 0xFFFFFFFF
        adj = []
        if b"head" in f.tables and len(f.tables[b"head"]) >= 12:
            adj = R.limbs(struct.unpack(">L", f.tables[b"head"][8:12])[0])
        ends = [e.offset + R.pad4(e.compLength) for e in f.entries] or [44]
        rec["fonts"].append({"n": h["numTables"], "dir": d, "adj": adj, "hdrEnd": 44 + 20 * h["numTables"]})
        rec["woff"] = {"length": h["length"], "reserved": h["reserved"], "totalSfntSize": h["totalSfntSize"],
                       "metaOffset": h["metaOffset"], "metaLength": h["metaLength"], "privOffset": h["privOffset"],
                       "privLength": h["privLength"], "sfntSum0": R.limbs(total), "lastEnd": max(ends)}
    elif c.kind == "woff2":
        f = c.fonts[0]
        h = c.header
        tags = [e.tag for e in f.entries]
        gi = tags.index(b"glyf") if b"glyf" in tags else -1
        li = tags.index(b"loca") if b"loca" in tags else -1
        head = f.tables.get(b"head")
        rec["woff2"] = {
            "length": h["length"], "reserved": h["reserved"], "n": h["numTables"], "entries": len(f.entries),
            "decompressed": h["decompressedLength"], "dirSum": h["directorySum"],
            "dataEnd": h["dataOffset"] + h["totalCompressedSize"],
            "padZero": not any(data[h["dataOffset"] + h["totalCompressedSize"] :]) if not (h["metaLength"] or h["privLength"]) else True,
            "hasMetaOrPriv": bool(h["metaLength"] or h["privLength"]),
            "glyfIdx": gi + 1, "locaIdx": li + 1,
            "glyfTransformed": bool(gi >= 0 and f.entries[gi].transformed), "locaTransformed": bool(li >= 0 and f.entries[li].transformed),
            "hasDSIG": b"DSIG" in tags,
            "headFlags": struct.unpack(">H", head[16:18])[0] if head else -1,
            "tagsUnique": len(set(tags)) == len(tags),
            "totalSfntSize": h["totalSfntSize"],
            "expectSfntSize": 12 + 16 * len(f.entries) + sum(R.pad4(e.origLength) for e in f.entries),
            "locaOrigOK": True,
        }
        rec["fonts"].append({"n": h["numTables"], "dir": [{"tag": _tagcodes(e.tag), "orig": e.origLength} for e in f.entries]})
    rec["_container"] = c
    return rec


# ---------------------------------------------------------------- derived fields
def glyph_tables(c, fontIndex=0):
    """Return (glyph records, info) for a glyf-flavoured font in container c, or None."""
    f = c.fonts[fontIndex]
    t = f.tables
    if c.kind == "woff2" and getattr(c, "woff2_transformed", None) and b"glyf" in c.woff2_transformed:
        glyphs, info = R.woff2_glyf_glyphs(c.woff2_transformed[b"glyf"])
        return glyphs, info
    if b"glyf" not in t or b"loca" not in t or b"head" not in t or b"maxp" not in t:
        return None
    head = R.parse_head(t[b"head"])
    maxp = R.parse_maxp(t[b"maxp"])
    loca = R.parse_loca(t[b"loca"], head["indexToLocFormat"], maxp["numGlyphs"])
    return R.parse_glyf(t[b"glyf"], loca), {"loca": loca}


def _flatten(glyphs, gid, memo, depth=0):
    """(points, contours, depth, pts list or None) of the flattened glyph; None points when a
    component is transformed / point-matched (cannot be recomputed exactly here)."""
    if gid in memo:
        return memo[gid]
    if depth > 64 or gid >= len(glyphs):
        return (0, 0, 0, None)
    g = glyphs[gid]
    if g["nc"] >= 0:
        r = (len(g["pts"]), g["nc"], 0, [(p[0], p[1]) for p in g["pts"]])
    else:
        np_ = ncn = 0
        dep = 0
        pts = []
        for comp in g["comps"]:
            sp, sc, sd, spts = _flatten(glyphs, comp["gid"], memo, depth + 1)
            np_ += sp
            ncn += sc
            dep = max(dep, sd)
            xy = bool(comp["rawflags"] & 0x0002)
            if pts is not None and spts is not None and comp["tr"] is None and xy:
                pts.extend((x + comp["a1"], y + comp["a2"]) for x, y in spts)
            else:
                pts = None
        r = (np_, ncn, dep + 1, pts)
    memo[gid] = r
    return r


def derived_record(c, rng=None, sample=40, fontIndex=0):
    """Fields for the derived-field clauses of C04 (glyf-flavoured fonts)."""
    f = c.fonts[fontIndex]
    t = f.tables
    if b"head" not in t or b"maxp" not in t:
        return None
    head = R.parse_head(t[b"head"])
    maxp = R.parse_maxp(t[b"maxp"])
    out = {"head": {k: head[k] for k in ("xMin", "yMin", "xMax", "yMax", "indexToLocFormat", "flags")}, "maxp": maxp,
           "flavor": "glyf" if (b"glyf" in t or (c.kind == "woff2" and b"glyf" in getattr(c, "woff2_transformed", {}))) else "other"}
    ng = maxp["numGlyphs"]
    for tag, hk in ((b"hhea", b"hmtx"), (b"vhea", b"vmtx")):
        if tag in t and hk in t:
            hh = R.parse_hhea(t[tag])
            mt, used = R.parse_hmtx(t[hk], hh["numberOfMetrics"], ng) if 4 * hh["numberOfMetrics"] + 2 * max(0, ng - hh["numberOfMetrics"]) <= len(t[hk]) else ([], -1)
            out[tag.decode()] = {**{k: hh[k] for k in ("advanceMax", "minLeading", "minTrailing", "maxExtent", "numberOfMetrics")},
                                 "mtxLen": len(t[hk]), "mtxUsed": used, "metrics": [list(m) for m in mt]}
    if out["flavor"] != "glyf":
        return out
    gt = glyph_tables(c, fontIndex)
    if gt is None:
        return out
    glyphs, info = gt
    # WOFF2 transformed glyf: the loca a decoder reconstructs uses the stream's own indexFormat (WOFF2 5.1 / 5.3)
    out["w2IndexFormat"] = info.get("indexFormat", -1)
    if "loca" in info:
        loca = info["loca"]
        out["loca"] = {"n": len(loca), "glyfLen": len(t[b"glyf"]), "monotone": all(a <= b for a, b in zip(loca, loca[1:])),
                       "last": loca[-1] if loca else 0, "first": loca[0] if loca else 0,
                       "allEven": all(o % 2 == 0 for o in loca), "max": max(loca) if loca else 0,
                       "locaLen": len(t[b"loca"]),
                       "used_ok": all(glyphs[i].get("used", 0) <= loca[i + 1] - loca[i] for i in range(len(glyphs)))}
    memo = {}
    gl = []
    for gid, g in enumerate(glyphs):
        np_, ncn, dep, pts = _flatten(glyphs, gid, memo)
        bbox = list(g["bbox"]) if g["bbox"] else []
        if pts:
            xs = [p[0] for p in pts]
            ys = [p[1] for p in pts]
            calc = [min(xs), min(ys), max(xs), max(ys)]
        else:
            calc = []   # empty, or composite that cannot be flattened exactly here
        gl.append({"nc": g["nc"], "np": np_, "ncn": ncn, "dep": dep, "ncomp": len(g["comps"]), "bbox": bbox, "calc": calc,
                   "flat": pts is not None})
    out["glyphs"] = gl
    # a sample of simple glyphs travels with its points so that TLC recomputes the box itself
    idx = [i for i, g in enumerate(glyphs) if g["nc"] > 0]
    if rng is not None and len(idx) > sample:
        idx = sorted(rng.sample(idx, sample))
    out["pointSample"] = [{"gid": i, "xs": [p[0] for p in glyphs[i]["pts"]], "ys": [p[1] for p in glyphs[i]["pts"]],
                           "endPts": glyphs[i]["endPts"]} for i in idx[:sample]]
    return out


def glyph_content(glyphs):
    """Hashable content of glyph records for flavour-neutrality comparison (bbox excluded)."""
    out = []
    for g in glyphs:
        comps = tuple((c["flags"] & ~0x0100 | (0x0100 if g["instr"] else 0), c["gid"], c["a1"], c["a2"], tuple(c["tr"]) if c["tr"] else None) for c in g["comps"])
        out.append((g["nc"], tuple(g["endPts"]), tuple(g["pts"]), bytes(g["instr"]), comps))
    return out
