"""C01 — recompiling any readable font is lossless and reaches a fixed point.

(M) MC_FontLifecycle: the TTFont life-cycle machine (Open / Access / Edit / Save = Write* /
    Reopen) keeps Passthrough, NoDecoderVerbatim, FixedPoint, Complete for every decoder /
    encoder satisfying the codec hypothesis and every access / save order.
(R)/(V) the schedules of that machine are executed on real TTFont objects over every corpus
    font (all container flavours, TTC members, compiled TTX fonts) x lazy modes; the recorded
    events (interned blob / content ids) are replayed by TLC through the same actions."""
import io
import logging
import random
import re

from . import common, fonts
from . import rawsfnt as R
from .common import MachineryError

LEVEL = "model_checking"

_VER = re.compile(r'ttLibVersion="[^"]*"')
_ADJ = re.compile(r'<checkSumAdjustment value="[^"]*"/>')
# Named deviations: redundant fields the library recomputes on every save (C04's business), and
# unused extra names of 'post' (not referenced by any glyph), are not table *content*.
_OS2_DERIVED = re.compile(r'<us(First|Last)CharIndex value="[^"]*"/>')
_POST_EXTRA = re.compile(r"<extraNames>.*?</extraNames>", re.S)


def table_xml(font, tag):
    buf = io.StringIO()
    font.saveXML(buf, tables=[tag])
    s = _VER.sub('ttLibVersion="X"', buf.getvalue())
    if tag == "head":
        s = _ADJ.sub("<checkSumAdjustment/>", s)
    elif tag == "OS/2":
        s = _OS2_DERIVED.sub("", s)
    elif tag == "post":
        s = _POST_EXTRA.sub("", s) + "\n".join(font.getGlyphOrder())
    return s


def mask_blob(tag, data):
    if tag == "head" and len(data) >= 12:
        return data[:8] + b"\0\0\0\0" + data[12:]
    return data


def file_blobs(data, idx=0):
    """tag(str) -> raw table bytes of a written file, plus the tags in write (offset) order."""
    c = R.parse(data)
    if c.kind == "woff2":
        from fontTools.ttLib import TTFont

        f = TTFont(io.BytesIO(data))
        tags = [t for t in f.reader.keys()]
        return {t: f.reader[t] for t in tags}, tags
    f = c.fonts[idx]
    order = sorted(f.entries, key=lambda e: (e.offset, e.length))
    return {e.tag.decode("latin-1"): f.tables[e.tag] for e in f.entries}, [e.tag.decode("latin-1") for e in order]


def no_decoder(tag):
    from fontTools.ttLib import getTableClass
    from fontTools.ttLib.tables.DefaultTable import DefaultTable

    try:
        return getTableClass(tag) is DefaultTable
    except Exception:
        return True


class Skip(Exception):
    pass


# ---------------------------------------------------------------- the Edit action: size-boundary edits
def _cff_string_index_size(cffdata):
    """data size of the String INDEX of a compiled CFF table (independent walk of header, Name and Top DICT INDEX)"""
    def index(pos):
        count = int.from_bytes(cffdata[pos:pos + 2], "big")
        if count == 0:
            return pos + 2, 0
        osz = cffdata[pos + 2]
        last = int.from_bytes(cffdata[pos + 3 + count * osz:pos + 3 + (count + 1) * osz], "big")
        return pos + 3 + (count + 1) * osz + last - 1, last - 1

    pos = cffdata[2]
    pos, _ = index(pos)   # Name INDEX
    pos, _ = index(pos)   # Top DICT INDEX
    _, size = index(pos)  # String INDEX
    return size


def edits_for(font):
    """(name, tag, function) edits that change ONE table's content and no field another table derives from it.
    The CFF edits place the String INDEX data size on the offSize boundaries of the CFF INDEX format
    (1 -> 2 byte offsets at 255/256, 2 -> 3 at 65535/65536), where the encoder's size decision sits."""
    out = []
    if "CFF " in font:
        cff = font["CFF "].cff
        top = cff.topDictIndex[0]
        top.Notice = "q" * 50
        try:
            base = _cff_string_index_size(font["CFF "].compile(font))
        except Exception:
            base = None
        if base is not None:
            for target in (254, 255, 256, 257, 65534, 65535, 65536, 65537):
                n = 50 + target - base
                if n >= 1:
                    out.append(("cff-string-index-%d" % target, "CFF ", (lambda f, n=n: setattr(f["CFF "].cff.topDictIndex[0], "Notice", "q" * n))))
    if "name" in font:
        out.append(("name-string", "name", lambda f: f["name"].setName("Verif \u00e9\u20ac edit", 1, 3, 1, 0x409)))
    if "OS/2" in font:
        out.append(("os2-weight", "OS/2", lambda f: setattr(f["OS/2"], "usWeightClass", 1 + f["OS/2"].usWeightClass % 999)))
    return out


def record_life(data0, idx, lazy, sched, rng, label, recalc=False, edit=None):
    """Run one schedule on a real TTFont and return the event trace."""
    from fontTools.ttLib import TTFont

    bi = common.Interner()
    ci = common.Interner()
    events = []
    nodec = set()
    cur = data0
    cur_idx = idx
    gens = 2 if sched in ("all", "rev", "ensure") else 1
    for g in range(gens):
        blobs, _order = file_blobs(cur, cur_idx)
        tags = sorted(blobs)
        for t in tags:
            if no_decoder(t):
                nodec.add(t)
        if g == 0:
            events.append({"a": "Open", "tags": tags, "blobs": [bi(mask_blob(t, blobs[t])) for t in tags]})
        else:
            events.append({"a": "Reopen"})
        # contents of this generation's blobs, from an independent twin object
        try:
            twin = TTFont(io.BytesIO(cur), fontNumber=cur_idx, recalcBBoxes=False, recalcTimestamp=False)
            content = {}
            for t in tags:
                if t in nodec:
                    continue
                twin[t]
            for t in tags:
                if t not in nodec:
                    content[t] = ci(table_xml(twin, t))
        except Exception as e:
            if g == 0:
                raise Skip("a table of the original cannot be decoded (%s)" % type(e).__name__)
            return {"label": label, "sched": sched, "lazy": str(lazy), "events": events + [{"a": "Fail", "why": "decode-after-save:" + type(e).__name__}], "nodec": sorted(nodec)}
        f = TTFont(io.BytesIO(cur), fontNumber=cur_idx, lazy=lazy, recalcBBoxes=recalc, recalcTimestamp=False)
        if sched in ("all", "ensure") or g > 0:
            want = list(tags)
        elif sched == "rev":
            want = list(reversed(tags))
        elif sched == "subset":
            want = [t for t in tags if rng.random() < 0.5]
        else:
            want = []
        if lazy is False:
            want_now = list(tags)  # eager mode decodes everything at open
        else:
            want_now = want
        try:
            for t in want:
                f[t]
            if sched == "ensure" or g > 0:
                f.ensureDecompiled()
        except Exception as e:
            raise Skip("a table of the original cannot be decoded (%s)" % type(e).__name__)
        touched = [t for t in tags if f.isLoaded(t)]
        for t in touched:
            events.append({"a": "Access", "t": t, "c": content.get(t, 0), "raw": t in nodec})
        if edit is not None and g == 0:
            # the Edit action: change one decoded table in place; its new content is what the next generation must decode
            ename, etag, efn = edit
            efn(f)
            events.append({"a": "Edit", "t": etag, "c": ci(table_xml(f, etag)), "edit": ename})
        events.append({"a": "SaveBegin"})
        buf = io.BytesIO()
        try:
            f.save(buf, reorderTables=False)
        except Exception as e:
            events.append({"a": "Fail", "why": "compile:%s" % type(e).__name__})
            return {"label": label, "sched": sched, "lazy": str(lazy), "events": events, "nodec": sorted(nodec), "err": repr(e)[:200]}
        new = buf.getvalue()
        # tables decoded as a side effect of compiling others are Access steps of the saving phase
        for t in tags:
            if t not in touched and f.isLoaded(t):
                events.append({"a": "Access", "t": t, "c": content.get(t, 0), "raw": t in nodec})
        nblobs, order = file_blobs(new, 0)
        for t in order:
            events.append({"a": "Write", "t": t, "b": bi(mask_blob(t, nblobs[t]))})
        events.append({"a": "SaveEnd"})
        cur = new
        cur_idx = 0
    return {"label": label, "sched": sched, "lazy": str(lazy), "events": events, "nodec": sorted(nodec)}


def job(args):
    kind, src, idx, lazy, sched, seed, recalc = args
    logging.disable(logging.CRITICAL)
    rng = random.Random("%s-%s-%s-%s-%d" % (src if kind == "path" else src[0], idx, lazy, sched, seed))
    if kind == "path":
        with open(src, "rb") as fh:
            data = fh.read()
        label = "%s#%d" % (common.rel(src), idx)
    else:
        label, data = src
    try:
        if sched.startswith("edit:"):
            from fontTools.ttLib import TTFont

            probe = TTFont(io.BytesIO(data), fontNumber=idx, recalcTimestamp=False)
            wanted = sched[5:]
            cand = [e for e in edits_for(probe) if e[0] == wanted]
            if not cand:
                raise Skip("edit %s not applicable" % wanted)
            t = record_life(data, idx, lazy, "all", rng, label, recalc, edit=cand[0])
            t["sched"] = sched
            return t
        return record_life(data, idx, lazy, sched, rng, label, recalc)
    except Skip as e:
        return {"skip": str(e), "label": label}
    except Exception as e:  # harness problem: surface it
        return {"skip": "harness-error:%s:%s" % (type(e).__name__, str(e)[:100]), "label": label, "harness": True}


def run(chk):
    thorough = chk.tier == "thorough"
    chk.rule = ("one case = (font, lazy mode, access schedule) life of a real TTFont over up to three generations; distinct by "
                "(font, lazy, schedule); non-trivial = at least one table is decoded and recompiled")
    r = chk.tlc("MC_FontLifecycle", cfg="MC_FontLifecycle2" if thorough else "MC_FontLifecycle", label="life-cycle machine", timeout=1500)
    chk.log("life-cycle machine: %d distinct states" % r.distinct)
    bins = fonts.binaries()
    members = [(p, i) for p in bins for i in range(fonts.num_fonts_in(p))]
    ttx = fonts.whole_font_ttx()
    rng = chk.rng
    if not thorough:
        rng.shuffle(ttx)
        ttx = ttx[:50]
    compiled = fonts.compiled_ttx_fonts(ttx)
    chk.notes["ttx_compiled"] = len(compiled)
    scheds = ["all", "rev", "subset", "none", "ensure"]
    jobs = []
    for p, i in members:
        extra = rng.choice([None, True, False])
        for lazy in (None, True, False):
            ss = scheds if thorough else (["all"] + ([rng.choice(["rev", "ensure"]), rng.choice(["subset", "none"])] if lazy == extra else []))
            for s in ss:
                jobs.append(("path", p, i, lazy, s, chk.seed, False))
    for p, b in compiled:
        for lazy in ((None, True, False) if thorough else (rng.choice([None, True, False]),)):
            for s in (scheds if thorough else ["all", rng.choice(["subset", "ensure"])]):
                jobs.append(("bytes", (common.rel(p), b), 0, lazy, s, chk.seed, False))
    # generated TrueType fonts (hairlines, nested composites, point steps on the WOFF2 triplet-class boundaries) in
    # every container flavour: files the loader accepts that no corpus font resembles
    for k in range(30 if thorough else 8):
        rs = random.Random("c01-synth-%d-%d" % (k, chk.seed))
        sf = fonts.synthetic_glyf_font(rs, nglyphs=rs.randint(4, 12), max_depth=rs.randint(1, 3))
        sf.recalcTimestamp = False
        for fl in (None, "woff", "woff2"):
            sf.flavor = fl
            buf = io.BytesIO()
            sf.save(buf)
            for lazy in ((None, True, False) if thorough else (rs.choice([None, True, False]),)):
                jobs.append(("bytes", ("synthetic#%d.%s" % (k, fl or "sfnt"), buf.getvalue()), 0, lazy, "all", chk.seed, False))
    # a generated font whose GPOS has long record arrays with offsets inside the records (lazily read when lazy=True)
    dev = fonts.device_gpos_font()
    for lazy in (None, True, False):
        for sch in (("all", "rev") if not thorough else scheds):
            jobs.append(("bytes", ("generated-device-GPOS", dev), 0, lazy, sch, chk.seed, False))
    # Edit lives: Open, Access(all), Edit(one table), Save, Reopen, Access(all), Save
    cffm = [(p, i) for p, i in members if p.lower().endswith((".otf", ".otc"))]
    rng.shuffle(cffm)
    must = [(p, i) for p, i in members if p.endswith("TestOTF.otf")]
    enames = ["cff-string-index-%d" % t for t in (254, 255, 256, 257, 65534, 65535, 65536, 65537)] + ["name-string", "os2-weight"]
    for p, i in (must + cffm)[: (40 if thorough else 5)]:
        for en in enames:
            jobs.append(("path", p, i, rng.choice([None, True, False]), "edit:" + en, chk.seed, False))
    glyfm = [(p, i) for p, i in members if p.lower().endswith(".ttf")]
    rng.shuffle(glyfm)
    for p, i in glyfm[: (20 if thorough else 4)]:
        for en in ("name-string", "os2-weight"):
            jobs.append(("path", p, i, rng.choice([None, True, False]), "edit:" + en, chk.seed, False))
    res = common.pmap(job, jobs, chunksize=4)
    traces = []
    nodec = set()
    for t in res:
        if "skip" in t:
            if t.get("harness"):
                raise MachineryError("harness error on %s: %s" % (t["label"], t["skip"]))
            chk.skip(t["skip"])
            continue
        traces.append(t)
        nodec.update(t["nodec"])
    chk.count(len(traces))
    for t in traces:
        if any(e["a"] == "Access" and not e["raw"] for e in t["events"]):
            chk.nontriv((t["label"], t["lazy"], t["sched"]))
    for t in traces[:2]:
        chk.sample({"label": t["label"], "lazy": t["lazy"], "sched": t["sched"], "events": t["events"][:14]})
    chk.log("recorded %d lives (%d skipped)" % (len(traces), sum(chk.skipped.values())))
    fails = [t for t in traces if t["events"][-1]["a"] == "Fail"]
    good = [t for t in traces if t["events"][-1]["a"] != "Fail"]
    for t in fails:
        why = t["events"][-1]["why"]
        chk.reject("save-or-reload-fails:" + why, "%s lazy=%s sched=%s: %s %s" % (t["label"], t["lazy"], t["sched"], why, t.get("err", "")),
                   {"label": t["label"], "lazy": t["lazy"], "sched": t["sched"]})
    rej = chk.judge_steps("Trace_C01", good, meta={"noDecoder": sorted(nodec)}, chunk=1500, timeout=1500)
    for t, clause, pos in rej:
        if clause.startswith(("trace:", "model:")):
            raise MachineryError("trace malformed / model stuck: %s at %d on %s" % (clause, pos, t["label"]))
        ev = t["events"][min(pos, len(t["events"])) - 1]
        tag = ev.get("t", "?")
        chk.reject("%s:%s" % (clause, tag), "%s lazy=%s sched=%s: %s at event %d %s" % (t["label"], t["lazy"], t["sched"], clause, pos, ev),
                   {"label": t["label"], "lazy": t["lazy"], "sched": t["sched"], "pos": pos, "event": ev})
    chk.assumptions += [
        "content of a decoded table = its TTX dump from an independent TTFont opened on the same bytes (interned, so equality is exact)",
        "head.checkSumAdjustment is masked in blob ids (it depends on the whole file); recalcTimestamp=False; recalcBBoxes=False except in the 'ensure+recalc' schedule",
        "fonts with a table the library cannot decode are outside the property's domain (skipped and counted)",
    ]


def replay(chk, rep):
    run(chk)
