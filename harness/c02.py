"""C02 — encoding any valid table content and decoding it returns that content.

(M) MC_TableCodec: TableCodec's decoders invert trivially-correct TLA+ encoders on every content
    over small alphabets; the enumerated contents are exported for (R).
(R)/(V) contents (TLC-enumerated + seeded generators crossing every format decision: cmap 0/4/6/12/13/14,
    hmtx trimming, loca short/long + padding, simple-glyph flags/short vectors/repeat, composites,
    Coverage/ClassDef 1/2, UTF-16 names, packed tuple variations, and whole-table round trips for
    kern/post/fvar/avar/OS2/COLR/SingleSubst/...) are compiled by the REAL encoders; TLC decodes the
    bytes with decoders transcribed from the OpenType spec (Trace_C02) and compares with the content,
    with fontTools' own decompile, and with HarfBuzz's view of the compiled font."""
import array
import io
import json
import logging
import random
import struct

from . import common
from .common import MachineryError

LEVEL = "model_checking"


class StubFont:
    """Minimal glyph-order provider (gid <-> name) for table-level compile/decompile."""

    lazy = False
    recalcBBoxes = True
    recalcTimestamp = False

    def __init__(self, n=65536):
        self.n = n

    def getGlyphID(self, name):
        return int(name[1:])

    def getGlyphName(self, gid):
        return "g%d" % gid

    def getGlyphOrder(self):
        return ["g%d" % i for i in range(self.n)]

    def getReverseGlyphMap(self):
        return {"g%d" % i: i for i in range(self.n)}

    def getGlyphNameMany(self, lst):
        return ["g%d" % i for i in lst]

    def getGlyphIDMany(self, lst):
        return [int(x[1:]) for x in lst]

    def __contains__(self, tag):
        return False


FONT = StubFont()


# ---------------------------------------------------------------- cmap
def cmap_case(fmt, mapping, rng, hb=False):
    from fontTools.ttLib.tables._c_m_a_p import CmapSubtable

    st = CmapSubtable.newSubtable(fmt)
    st.platformID, st.platEncID, st.language = (3, 10, 0) if fmt in (12, 13) else (3, 1, 0) if fmt != 0 else (1, 0, 0)
    st.cmap = {c: "g%d" % g for c, g in mapping.items()}
    try:
        data = st.compile(FONT)
        back = CmapSubtable.newSubtable(fmt)
        back.decompile(data, FONT)
        back.ensureDecompiled() if hasattr(back, "ensureDecompiled") else None
        back.cmap
    except Exception as e:  # every generated map is inside the format's domain
        return {"k": "raised", "what": "cmap:format%d" % fmt, "err": "%s: %s" % (type(e).__name__, e), "n": len(mapping),
                "map": sorted(mapping.items())[:40]}
    # probe set: every mapped code, its neighbours, range ends
    probes = set()
    top = 255 if fmt == 0 else 0x10FFFF if fmt in (12, 13) else 0xFFFF
    for c in mapping:
        probes |= {c - 1, c, c + 1}
    probes |= {0, 1, top, top - 1, 0x7F, 0x80, 0xFF, 0x100}
    if len(probes) > 400:
        keep = set(rng.sample(sorted(probes), 400))
        probes = keep | {0, top}
    probes = sorted(p for p in probes if 0 <= p <= top)
    want = [[c, mapping.get(c, 0)] for c in probes]
    got = [[c, (int(back.cmap[c][1:]) if c in back.cmap else 0)] for c in probes]
    return {"k": "cmap", "fmt": fmt, "b": list(data), "probes": want, "back": got, "hb": [], "n": len(mapping)}


def cmap14_case(uvs, rng):
    """uvs: {vs: [(uv, gid or None)]}"""
    from fontTools.ttLib.tables._c_m_a_p import CmapSubtable

    st = CmapSubtable.newSubtable(14)
    st.platformID, st.platEncID, st.language = 0, 5, 0
    st.cmap = {}
    st.uvsDict = {vs: [(uv, None if g is None else "g%d" % g) for uv, g in lst] for vs, lst in uvs.items()}
    data = st.compile(FONT)
    back = CmapSubtable.newSubtable(14)
    back.decompile(data, FONT)
    bd = {vs: dict(lst) for vs, lst in back.uvsDict.items()}
    probes, got = [], []
    for vs, lst in uvs.items():
        d = dict(lst)
        for uv in sorted(set(d) | {u + 1 for u in d} | {u - 1 for u in d if u > 0}):
            if uv in d:
                probes.append([vs, uv, "default" if d[uv] is None else "glyph", 0 if d[uv] is None else d[uv]])
            else:
                probes.append([vs, uv, "none", 0])
            if vs in bd and uv in bd[vs]:
                g = bd[vs][uv]
                got.append([vs, uv, "default" if g is None else "glyph", 0 if g is None else int(g[1:])])
            else:
                got.append([vs, uv, "none", 0])
    probes.append([0xE01EF, 65, "none", 0]) if 0xE01EF not in uvs else None
    if len(probes) > len(got):
        got.append([0xE01EF, 65, "none", 0])
    return {"k": "cmap14", "b": list(data), "probes": probes, "back": got}


def gen_cmaps(chk, tlc_maps):
    rng = chk.rng
    thorough = chk.tier == "thorough"
    out = []
    for m in tlc_maps:  # TLC-enumerated small maps through every format that can hold them
        fmts = (12, 13)
        if max(m) <= 0xFFFF:  # formats 4/6 hold BMP codes only; a format-6 subtable has a 16-bit length
            fmts = (4, 6, 12, 13) if max(m) - min(m) + 1 <= 32762 else (4, 12, 13)
        for fmt in fmts:
            out.append(cmap_case(fmt, m, rng))
        if all(c < 256 and g < 256 for c, g in m.items()):
            out.append(cmap_case(0, m, rng))
    N = 260 if thorough else 70
    for _ in range(N):
        kind = rng.choice(["dense", "runs", "runmix", "runmix", "sparse", "ident", "bmp-edge", "big", "supp"])
        m = {}
        if kind == "runmix":
            # ONE run of consecutive code points made of alternating stretches: long consecutive-glyph-id stretches
            # (worth an idDelta segment of their own) and short scattered ones (glyphIdArray) - the shape on which
            # format 4's range splitting has to fill every gap between the segments it carves out
            c = rng.choice([0x20, 0x100, 0x4E00, 0xFF00 - 200])
            g = rng.randint(1, 2000)
            for k in range(rng.randint(3, 7)):
                if k % 2 == 0:
                    ln = rng.choice([5, 9, 12, 30])
                    for i in range(ln):
                        m[c + i] = g + i
                    g += ln + rng.randint(1, 50)
                else:
                    ln = rng.randint(1, 6)
                    for i in range(ln):
                        m[c + i] = rng.randint(3000, 9000)
                c += ln
        if kind == "dense":  # consecutive codes -> arbitrary gids (glyphIdArray segments, splitRange thresholds)
            start = rng.choice([0, 32, 0x4E00, 0xFFF0 - 40])
            for i in range(rng.choice([1, 2, 3, 4, 5, 7, 8, 9, 16, 40])):
                m[start + i] = rng.choice([rng.randint(1, 500), 65535, 1])
        elif kind == "runs":  # runs of consecutive gids of varying length with gaps (idDelta segments)
            c, g = rng.randint(0, 300), rng.randint(1, 300)
            for _r in range(rng.randint(1, 12)):
                ln = rng.choice([1, 2, 3, 4, 5, 8, 9, 30])
                for i in range(ln):
                    m[c + i] = (g + i) % 65536 or 1
                c += ln + rng.choice([0, 1, 2, 7, 300])
                g += ln + rng.choice([0, 0, 1, -ln - 5, 60000])
                g %= 65536
        elif kind == "sparse":
            for _i in range(rng.randint(1, 60)):
                m[rng.randint(0, 0xFFFF)] = rng.randint(1, 65535)
        elif kind == "ident":
            for c in range(rng.randint(0, 40), rng.randint(60, 400)):
                m[c] = c
        elif kind == "bmp-edge":
            for c in (0xFFFD, 0xFFFE, 0xFFFF, 0, 1):
                if rng.random() < 0.7:
                    m[c] = rng.choice([1, 2, 65535, 0xFFFE])
        elif kind == "big":
            for c in rng.sample(range(0, 0xFFFF), 3000 if thorough else 900):
                m[c] = rng.randint(1, 65535)
        elif kind == "supp":
            for _i in range(rng.randint(1, 40)):
                base = rng.choice([0x10000, 0x1F600, 0x20000, 0xE0100, 0x10FFF0, 0xFFF0])
                for i in range(rng.randint(1, 6)):
                    m[min(0x10FFFF, base + rng.randint(0, 20) + i)] = rng.randint(1, 65535)
        if not m:
            continue
        fmts = []
        if max(m) <= 0xFFFF:
            fmts += [4, 6] if max(m) - min(m) < 3000 else [4]
        fmts += [12, 13]
        if max(m) < 256 and max(m.values()) < 256:
            fmts.append(0)
        for fmt in fmts:
            out.append(cmap_case(fmt, m, rng))
    # > 64k entries and whole planes (format 12/13)
    for _ in range(2 if thorough else 1):
        m = {c: (c * 7 + 3) % 65535 + 1 for c in range(0x20000, 0x20000 + 66000)}
        out.append(cmap_case(12, m, rng))
        out.append(cmap_case(13, {c: 5 for c in range(0, 70000)}, rng))
    for _ in range(60 if thorough else 20):
        uvs = {}
        for vs in rng.sample([0xFE00, 0xFE0F, 0xE0100, 0xE0101, 0xE01EF, 0x180B], rng.randint(1, 3)):
            lst = {}
            base = rng.choice([0x4E00, 0x2F800, 0x30, 0xFFFE])
            for i in range(rng.randint(1, 12)):
                uv = base + i * rng.choice([1, 1, 2, 300])
                lst[uv] = None if rng.random() < 0.5 else rng.randint(1, 65535)
            uvs[vs] = sorted(lst.items())
        out.append(cmap14_case(uvs, rng))
    return out


# ---------------------------------------------------------------- hmtx / loca / glyf through a real font
def _font_with(glyphs, metrics):
    from fontTools.fontBuilder import FontBuilder

    names = list(glyphs)
    fb = FontBuilder(1000, isTTF=True)
    fb.setupGlyphOrder(names)
    fb.setupCharacterMap({0xE000 + i: n for i, n in enumerate(names) if i})
    fb.setupGlyf(glyphs)
    fb.setupHorizontalMetrics(metrics)
    fb.setupHorizontalHeader(ascent=800, descent=-200)
    fb.setupNameTable({"familyName": "C02", "styleName": "Regular"})
    fb.setupOS2()
    fb.font["OS/2"].xAvgCharWidth = 500  # int16 field; the mean of 65535-wide advances does not fit (not hmtx's business)
    fb.setupPost()
    return fb.font


def gen_hmtx(chk):
    from fontTools.ttLib.tables._g_l_y_f import Glyph
    from fontTools.ttLib import TTFont
    from . import hbobs

    rng = chk.rng
    out = []
    advs = [0, 500, 65535, 600]
    lsbs = [-32768, -1, 0, 32767, 17]
    for _ in range(260 if chk.tier == "thorough" else 90):
        n = rng.randint(1, 9)
        shape = rng.choice(["rand", "tail", "alleq", "lastdiff"])
        a = [rng.choice(advs) for _ in range(n)]
        if shape == "tail":
            k = rng.randint(0, n)
            a = a[:k] + [a[k - 1] if k else 500] * (n - k)
        elif shape == "alleq":
            a = [rng.choice(advs)] * n
        elif shape == "lastdiff" and n > 1:
            a = [500] * (n - 1) + [501]
        names = [".notdef"] + ["g%d" % i for i in range(1, n)]
        metrics = {nm: (a[i], rng.choice(lsbs)) for i, nm in enumerate(names)}
        font = _font_with({nm: Glyph() for nm in names}, metrics)
        data = font["hmtx"].compile(font)
        nm_ = font["hhea"].numberOfHMetrics
        buf = io.BytesIO()
        font.save(buf)
        f2 = TTFont(io.BytesIO(buf.getvalue()))
        back = [list(f2["hmtx"][x]) for x in names]
        hb = hbobs.advances(buf.getvalue(), len(names))
        out.append({"k": "hmtx", "b": list(data), "ng": n, "nm": nm_, "metrics": [list(metrics[x]) for x in names], "back": back, "hb": hb})
    return out


def gen_glyphs(chk):
    from fontTools.ttLib.tables._g_l_y_f import Glyph, GlyphCoordinates, GlyphComponent
    from fontTools.ttLib.tables import ttProgram

    rng = chk.rng
    thorough = chk.tier == "thorough"
    out = []
    deltas = [-256, -255, -1, 0, 1, 255, 256, 300, -300, 16000]

    class GT:  # glyfTable stub
        def getGlyphName(self, gid):
            return "g%d" % gid

        def getGlyphID(self, name):
            return int(name[1:])

    gt = GT()
    cases = []
    for _ in range(1500 if thorough else 420):
        shape = rng.choice(["small", "small", "runs", "long"])
        if shape == "small":
            n = rng.randint(1, 6)
            ds = [(rng.choice(deltas), rng.choice(deltas)) for _ in range(n)]
            on = [rng.randint(0, 1) for _ in range(n)]
        elif shape == "runs":  # run-structured: identical flags repeated to cross the repeat limit
            ds, on = [], []
            for _r in range(rng.randint(1, 3)):
                d = (rng.choice(deltas), rng.choice(deltas))
                o = rng.randint(0, 1)
                k = rng.choice([1, 2, 3, 255, 256, 257, 258])
                ds += [d] * k
                on += [o] * k
        else:
            n = rng.randint(20, 120)
            ds = [(rng.randint(-400, 400), rng.randint(-400, 400)) for _ in range(n)]
            on = [rng.randint(0, 1) for _ in range(n)]
        x = y = 0
        pts = []
        for dx, dy in ds:
            x = max(-32768, min(32767, x + dx))
            y = max(-32768, min(32767, y + dy))
            pts.append((x, y))
        n = len(pts)
        nc = rng.randint(1, min(3, n))
        cuts = sorted(rng.sample(range(n - 1), nc - 1)) if nc > 1 else []
        ends = cuts + [n - 1]
        instr = bytes(rng.getrandbits(8) for _ in range(rng.choice([0, 0, 1, 7])))
        overlap = rng.random() < 0.2
        cases.append((pts, on, ends, instr, overlap))
    for ilen in (32766, 32767, 32768, 40000, 65535):  # instructionLength is a uint16 in the OpenType glyph header
        cases.append(([(0, 0), (10, 0), (0, 10)], [1, 1, 1], [2], bytes(rng.getrandbits(8) for _ in range(ilen)), False))
    for pts, on, ends, instr, overlap in cases:
        for opt in (True, False):
            g = Glyph()
            g.numberOfContours = len(ends)
            g.endPtsOfContours = list(ends)
            g.coordinates = GlyphCoordinates(pts)
            fl = [o | (0x40 if (overlap and i == 0) else 0) for i, o in enumerate(on)]
            g.flags = array.array("B", fl)
            g.program = ttProgram.Program()
            g.program.fromBytecode(instr)
            try:
                data = g.compile(gt, recalcBBoxes=True, optimizeSize=opt)
                g2 = Glyph(data)
                g2.expand(gt)
            except Exception as e:  # all generated glyphs are inside the glyf format's domain
                what = "glyph:instructionLength>32767" if len(instr) > 32767 else "glyph"
                out.append({"k": "raised", "what": what, "err": "%s: %s" % (type(e).__name__, e), "npts": len(pts), "ilen": len(instr)})
                continue
            xs = [p[0] for p in pts]
            ys = [p[1] for p in pts]
            back = {"xs": [c[0] for c in g2.coordinates], "ys": [c[1] for c in g2.coordinates], "on": [f & 1 for f in g2.flags],
                    "ends": list(g2.endPtsOfContours), "instr": list(g2.program.getBytecode())}
            out.append({"k": "glyph", "b": list(data), "nc": len(ends), "ends": list(ends), "xs": xs, "ys": ys, "on": list(on), "instr": list(instr),
                        "overlap": 1 if overlap else 0, "bbox": [min(xs), min(ys), max(xs), max(ys)], "back": back, "opt": opt})
    # composites: every flag combination x offsets x scales
    offs = [-129, -128, 0, 127, 128, 300, -32768, 32767]
    scales = [None, (0.5,), (-1.0,), (1.0, 0.5), (2.0 - 1 / 16384, -2.0), (0.5, 0.25, -0.25, 1.5), (1.0, 0.0, 0.0, 1.0), (0.0, 1.0, -1.0, 0.0)]
    for _ in range(600 if thorough else 200):
        comps = []
        want = []
        for _c in range(rng.randint(1, 4)):
            c = GlyphComponent()
            c.glyphName = "g%d" % rng.choice([0, 1, 255, 256, 65535, rng.randint(0, 65535)])
            flags = 0
            for bit in (0x0004, 0x0200, 0x0400, 0x0800, 0x1000):
                if rng.random() < 0.3:
                    flags |= bit
            c.flags = flags
            xy = rng.random() < 0.75
            if xy:
                c.x, c.y = rng.choice(offs), rng.choice(offs)
                a1, a2 = c.x, c.y
            else:
                c.firstPt, c.secondPt = rng.choice([0, 1, 255, 256, 1000]), rng.choice([0, 255, 256, 65535])
                a1, a2 = c.firstPt, c.secondPt
            sc = rng.choice(scales)
            tr = [16384, 0, 0, 16384]
            if sc is not None:
                if len(sc) == 1:
                    c.transform = [[sc[0], 0], [0, sc[0]]]
                elif len(sc) == 2:
                    c.transform = [[sc[0], 0], [0, sc[1]]]
                else:
                    c.transform = [[sc[0], sc[1]], [sc[2], sc[3]]]
                tr = [round(c.transform[0][0] * 16384), round(c.transform[0][1] * 16384), round(c.transform[1][0] * 16384), round(c.transform[1][1] * 16384)]
            comps.append(c)
            want.append({"gid": int(c.glyphName[1:]), "a1": a1, "a2": a2, "xy": xy, "tr": tr, "round": 1 if flags & 4 else 0,
                         "metrics": 1 if flags & 0x200 else 0, "overlap": 1 if flags & 0x400 else 0,
                         "scaledOff": 1 if flags & 0x800 else 0, "unscaledOff": 1 if flags & 0x1000 else 0})
        g = Glyph()
        g.numberOfContours = -1
        g.components = comps
        g.xMin = g.yMin = g.xMax = g.yMax = 0
        data = g.compile(gt, recalcBBoxes=False)
        g2 = Glyph(data)
        g2.expand(gt)
        back = []
        for c in g2.components:
            xy = not hasattr(c, "firstPt")
            t = [16384, 0, 0, 16384]
            if hasattr(c, "transform"):
                t = [round(c.transform[0][0] * 16384), round(c.transform[0][1] * 16384), round(c.transform[1][0] * 16384), round(c.transform[1][1] * 16384)]
            back.append({"gid": int(c.glyphName[1:]), "a1": c.x if xy else c.firstPt, "a2": c.y if xy else c.secondPt, "xy": xy, "tr": t,
                         "round": 1 if c.flags & 4 else 0, "metrics": 1 if c.flags & 0x200 else 0, "overlap": 1 if c.flags & 0x400 else 0,
                         "scaledOff": 1 if c.flags & 0x800 else 0, "unscaledOff": 1 if c.flags & 0x1000 else 0})
        out.append({"k": "comp", "b": list(data), "comps": want, "back": back})
    return out


def gen_loca(chk):
    from fontTools.ttLib.tables._g_l_y_f import Glyph, GlyphCoordinates
    from fontTools.ttLib.tables import ttProgram
    from . import rawsfnt as R

    rng = chk.rng
    out = []

    def filler(nbytes):
        """a one-contour glyph whose compiled length is about nbytes (instructions pad it)"""
        g = Glyph()
        g.numberOfContours = 1
        g.endPtsOfContours = [2]
        g.coordinates = GlyphCoordinates([(0, 0), (10, 0), (0, 10)])
        g.flags = array.array("B", [1, 1, 1])
        g.program = ttProgram.Program()
        g.program.fromBytecode(bytes(max(0, nbytes - 22)))
        return g

    targets = [0x1FFFC, 0x1FFFE, 0x1FFFF, 0x20000, 0x20001, 0x20004, 100, 3]
    for tgt in targets:
        for pad in (1, 2, 4):
            for small in ([], [1], [2, 3], [5, 0, 7]):
                glyphs = {".notdef": Glyph()}
                for i, ln in enumerate(small):
                    glyphs["s%d" % i] = filler(22 + ln)
                used = sum(((22 + ln + pad - 1) // pad * pad) for ln in small) if pad > 1 else sum(22 + ln for ln in small)
                rest = tgt - used
                nb = 0
                while rest > 30:  # fillers of at most 30000 bytes each (instructionLength is a 16-bit field)
                    step = rest if rest <= 30000 else 30000 if rest - 30000 > 30 or pad > 1 else rest - 40
                    step = step // pad * pad if pad > 1 and rest > 30000 else step
                    glyphs["big%d" % nb] = filler(step)
                    rest -= step
                    nb += 1
                font = _font_with(glyphs, {n: (500, 0) for n in glyphs})
                font["glyf"].padding = pad
                buf = io.BytesIO()
                try:
                    font.save(buf)
                except Exception as e:
                    out.append({"k": "raised", "what": "loca-save", "err": "%s: %s" % (type(e).__name__, e), "tgt": tgt, "pad": pad})
                    continue
                c = R.parse(buf.getvalue())
                t = c.fonts[0].tables
                head = R.parse_head(t[b"head"])
                long_ = head["indexToLocFormat"] == 1
                # expected offsets: recompute from the glyph records themselves
                glyf = t[b"glyf"]
                offs = R.parse_loca(t[b"loca"], head["indexToLocFormat"], len(glyphs))
                lens = []
                names = list(glyphs)
                for i, n in enumerate(names):
                    rec = glyf[offs[i] : offs[i + 1]]
                    g = R.parse_glyph(rec) if rec else {"used": 0}
                    lens.append(g.get("used", 0))
                out.append({"k": "loca", "b": list(t[b"loca"]), "long": long_, "offs": offs, "lens": lens, "pad": pad if pad > 1 else 1,
                            "headFormat": head["indexToLocFormat"], "glyfLen": len(glyf), "tgt": tgt})
    return out


# ---------------------------------------------------------------- Coverage / ClassDef
def gen_otl(chk, tlc_covs):
    from fontTools.ttLib.tables import otTables as ot
    from fontTools.ttLib.tables.otBase import OTTableWriter, OTTableReader

    rng = chk.rng
    out = []
    sets = [list(s) for s in tlc_covs]
    for _ in range(400 if chk.tier == "thorough" else 140):
        kind = rng.choice(["range", "scatter", "mixed", "edge"])
        if kind == "range":
            a = rng.randint(0, 60000)
            s = list(range(a, a + rng.randint(1, 50)))
        elif kind == "scatter":
            s = rng.sample(range(0, 65536), rng.randint(1, 40))
        elif kind == "mixed":
            s = set()
            for _r in range(rng.randint(1, 6)):
                a = rng.randint(0, 65000)
                s |= set(range(a, a + rng.choice([1, 2, 3, 4, 10])))
            s = list(s)
        else:
            s = [0, 1, 65534, 65535][: rng.randint(1, 4)]
        sets.append(sorted(set(s)))
    for s in sets:
        if not s:
            continue
        cov = ot.Coverage()
        cov.glyphs = ["g%d" % g for g in s]
        w = OTTableWriter()
        cov.compile(w, FONT)
        data = w.getAllData()
        cov2 = ot.Coverage()
        cov2.decompile(OTTableReader(data), FONT)
        out.append({"k": "cov", "b": list(data), "glyphs": s, "back": [int(g[1:]) for g in cov2.glyphs]})
        # class definitions over the same glyphs
        cd = ot.ClassDef()
        classes = {g: rng.choice([1, 1, 2, 3, 7]) for g in s if rng.random() < 0.8}
        if not classes:
            continue
        cd.classDefs = {"g%d" % g: c for g, c in classes.items()}
        w = OTTableWriter()
        cd.compile(w, FONT)
        data = w.getAllData()
        cd2 = ot.ClassDef()
        cd2.decompile(OTTableReader(data), FONT)
        pr = sorted(set(classes) | {g + 1 for g in classes if g < 65535} | {g - 1 for g in classes if g > 0})
        out.append({"k": "classdef", "b": list(data), "probes": [[g, classes.get(g, 0)] for g in pr],
                    "back": [[g, cd2.classDefs.get("g%d" % g, 0)] for g in pr]})
    return out


# ---------------------------------------------------------------- names, tuples, whole-table round trips
def gen_misc(chk):
    from fontTools.ttLib import newTable, TTFont
    from fontTools.ttLib.tables._n_a_m_e import NameRecord
    from fontTools.ttLib.tables.TupleVariation import TupleVariation, decompileTupleVariation_

    rng = chk.rng
    out = []
    alpha = [0x41, 0xE9, 0x20AC, 0x1D518, 0x20, 0x10FFFF, 0xFFFD, 0x3042]
    for _ in range(300 if chk.tier == "thorough" else 100):
        s = "".join(chr(rng.choice(alpha)) for _ in range(rng.randint(0, 12)))
        rec = NameRecord()
        rec.nameID, rec.platformID, rec.platEncID, rec.langID = 1, 3, rng.choice([1, 10]), 0x409
        rec.string = s
        b = rec.toBytes()
        nt = newTable("name")
        nt.names = [rec]
        data = nt.compile(None)
        nt2 = newTable("name")
        nt2.decompile(data, None)
        back = nt2.names[0].toUnicode()
        out.append({"k": "name", "b": list(b), "s": [ord(c) for c in s], "back": [ord(c) for c in back]})
    # packed tuple variations (gvar-style, private points)
    axes = ["wght", "wdth"]
    for _ in range(500 if chk.tier == "thorough" else 160):
        npts = rng.choice([1, 2, 5, 40, 130, 300])
        pts = sorted(rng.sample(range(npts), rng.randint(1, npts))) if rng.random() < 0.7 else list(range(npts))
        if _ % 4 == 0:
            # the packed point COUNT switches from one to two bytes at 128: sparse tuples referencing exactly
            # 126..129 (and 255..257) points of a larger glyph
            k = [126, 127, 128, 129, 255, 256, 257][(_ // 4) % 7]
            npts = k + rng.choice([1, 3, 40])
            pts = sorted(rng.sample(range(npts), k))
        coords = [None] * npts
        if rng.random() < 0.5:
            for p in pts:
                d = (rng.choice([0, 0, 1, -1, 127, -128, 128, 300, -32768, 32767]), rng.choice([0, 0, 2, -3, 200]))
                coords[p] = d
        else:  # run-structured deltas: runs of zeros / bytes / words whose lengths cross the 64-per-run limit
            seq = []
            while len(seq) < 2 * len(pts):
                v = rng.choice([0, 0, 5, -100, 300, -32768])
                seq += [v] * rng.choice([1, 2, 63, 64, 65, 128, 129])
            for i, p in enumerate(pts):
                coords[p] = (seq[i], seq[len(pts) + i])
        peaks = [rng.choice([-16384, -8192, 8192, 16384, 4096]), rng.choice([0, 16384, -16384])]
        tv = TupleVariation({a: (min(0, p / 16384), p / 16384, max(0, p / 16384)) for a, p in zip(axes, peaks) if p}, coords)
        if not tv.axes:
            continue
        tupledata, auxdata = tv.compile(axes, sharedCoordIndices={}, pointData=None)
        # tuple header: variationDataSize, tupleIndex, then embedded peak (+ intermediate) coords
        flags = struct.unpack(">H", tupledata[2:4])[0]
        coordb = tupledata[4 : 4 + 2 * len(axes)]
        private = bool(flags & 0x2000)
        back_tv = decompileTupleVariation_(npts, [], None, "gvar", axes, tupledata, auxdata)
        allpts = len(pts) == npts
        if private:
            # auxdata = packed points, then packed x deltas and y deltas
            from fontTools.ttLib.tables.TupleVariation import TupleVariation as TV

            ptsdec, pos = TV.decompilePoints_(npts, auxdata, 0, "gvar")
            pb = auxdata[:pos]
            db = auxdata[pos:]
        else:
            pb, db = b"\0", auxdata
        used = pts
        deltas = [coords[p][0] for p in used] + [coords[p][1] for p in used]
        bpts = [i for i, c in enumerate(back_tv.coordinates) if c is not None]
        bdel = [back_tv.coordinates[i][0] for i in bpts] + [back_tv.coordinates[i][1] for i in bpts]
        want_pts = [] if (pb == b"\0") else used
        peak_list = [p for p in peaks]
        bpeaks = [round(back_tv.axes.get(a, (0, 0, 0))[1] * 16384) for a in axes]
        out.append({"k": "tuple", "pb": list(pb), "db": list(db), "coordb": list(coordb), "points": want_pts, "deltas": deltas, "peaks": peak_list,
                    "back": {"points": [] if pb == b"\0" else bpts, "deltas": bdel, "peaks": bpeaks}, "npts": npts, "allpts": allpts})
    return out


_UNORDERED = {"cmap", "name", "kernsubtable"}  # parents whose children form a set (the encoder sorts them)


def _canon_num(v):
    try:
        return repr(float(int(v, 0)))
    except ValueError:
        pass
    try:
        return repr(float(v))
    except ValueError:
        return v


def _canon_el(el):
    kids = [_canon_el(k) for k in el]
    if el.tag in _UNORDERED:
        kids.sort()
    text = " ".join((el.text or "").split())
    return (el.tag, tuple(sorted((k, _canon_num(v)) for k, v in el.attrib.items())), _canon_num(text) if text else "", tuple(kids))


def _norm_xml(font, tag):
    """canonical content of a decoded table: its TTX dump as a tree, numbers by value (post.italicAngle 0 == 0.0),
    record sets sorted (cmap subtables, name records, kern pairs: the encoders sort them), comments dropped"""
    from xml.etree import ElementTree as ET

    from .c01 import table_xml

    root = ET.fromstring(table_xml(font, tag).split("?>", 1)[-1].split("</ttFont>")[0] + "</ttFont>")
    return _canon_el(root)


def gen_roundtrips(chk):
    """Whole-table compile -> decompile round trips on generated contents for tables without a TLA+
    decoder here (kern, post, OS/2, fvar, avar, COLR v0/v1, SingleSubst/LigatureSubst/PairPos via
    builders): content before = content after, by canonical dump (interned)."""
    from fontTools.fontBuilder import FontBuilder
    from fontTools.ttLib import TTFont, newTable
    from fontTools.ttLib.tables._g_l_y_f import Glyph
    from fontTools.feaLib.builder import addOpenTypeFeaturesFromString

    rng = chk.rng
    out = []
    ci = common.Interner()
    for i in range(60 if chk.tier == "thorough" else 24):
        names = [".notdef"] + ["g%d" % k for k in range(1, rng.randint(4, 12))]
        fb = FontBuilder(1000, isTTF=True)
        fb.setupGlyphOrder(names)
        fb.setupCharacterMap({0x41 + k: n for k, n in enumerate(names[1:])})
        fb.setupGlyf({n: Glyph() for n in names})
        fb.setupHorizontalMetrics({n: (rng.choice([500, 600]), 0) for n in names})
        fb.setupHorizontalHeader(ascent=800, descent=-200)
        fb.setupNameTable({"familyName": "RT é€\U0001D518", "styleName": "Regular"})
        fb.setupOS2(sTypoAscender=rng.randint(-500, 900), usWeightClass=rng.choice([1, 400, 1000]))
        fb.setupPost(keepGlyphNames=True)  # glyph names are how contents are compared; format 3 would rename them
        kinds = []
        try:
            if rng.random() < 0.6:
                fb.setupFvar([("wght", 100, 400, 900, "Weight"), ("wdth", 50.5, 100, 200.25, "Width")][: rng.randint(1, 2)], [])
                kinds.append("fvar")
            if "fvar" in fb.font and rng.random() < 0.6:
                av = fb.font["avar"] = newTable("avar")
                av.majorVersion, av.minorVersion = 1, 0
                av.segments = {a.axisTag: {-1.0: -1.0, 0.0: 0.0, 1.0: 1.0} for a in fb.font["fvar"].axes}
                av.segments["wght"] = {-1.0: -1.0, -0.5: rng.choice([-0.75, -0.25]), 0.0: 0.0, 0.5: rng.choice([0.25, 0.625]), 1.0: 1.0}
                kinds.append("avar")
            if rng.random() < 0.6 and len(names) > 3:
                g = names[1:]
                fea = "feature liga { sub %s %s by %s; } liga;\nfeature ss01 { sub %s by %s; } ss01;\nfeature kern { pos %s %s %d; } kern;\n" % (
                    g[0], g[1], g[2], g[0], g[1], g[0], g[2], rng.randint(-200, 200))
                addOpenTypeFeaturesFromString(fb.font, fea)
                kinds += ["GSUB", "GPOS"]
            if rng.random() < 0.5 and len(names) > 3:
                fb.setupCOLR({names[1]: [(names[2], 0), (names[3], 1)]}) if rng.random() < 0.5 else fb.setupCOLR(
                    {names[1]: {"Format": 1, "Layers": [{"Format": 10, "Glyph": names[2], "Paint": {"Format": 2, "PaletteIndex": 0, "Alpha": 0.5}},
                                                        {"Format": 10, "Glyph": names[3], "Paint": {"Format": 2, "PaletteIndex": 1, "Alpha": 1.0}}]}})
                fb.setupCPAL([[(1, 0, 0, 1), (0, 1, 0, 0.5)]])
                kinds += ["COLR", "CPAL"]
            if rng.random() < 0.5:
                kt = newTable("kern")
                kt.version = 0
                from fontTools.ttLib.tables._k_e_r_n import KernTable_format_0

                st = KernTable_format_0()
                st.coverage, st.format, st.tupleIndex = 1, 0, None
                st.kernTable = {(rng.choice(names), rng.choice(names)): rng.choice([-32768, -1, 1, 32767, 50]) for _ in range(rng.randint(1, 8))}
                kt.kernTables = [st]
                fb.font["kern"] = kt
                kinds.append("kern")
        except Exception as e:
            raise MachineryError("round-trip generator failed: %r" % e)
        font = fb.font
        tags = [t for t in font.keys() if t != "GlyphOrder"]
        before = {}
        for t in tags:
            before[t] = _norm_xml(font, t)
        buf = io.BytesIO()
        font.save(buf)
        f2 = TTFont(io.BytesIO(buf.getvalue()))
        for t in tags:
            if t in ("head", "maxp", "hhea", "loca", "glyf"):
                continue  # derived fields are recomputed at save: C04's business
            after = _norm_xml(f2, t)
            out.append({"k": "rt", "table": t, "c0": ci(before[t]), "c1": ci(after), "font": i})
    return out


def run(chk):
    thorough = chk.tier == "thorough"
    chk.rule = ("one case = one generated table content compiled by the real encoder; distinct by digest of (kind, content); non-trivial = "
                "the encoding needs more than one segment/run/record or sits on a format boundary")
    g = chk.tlc("MC_TableCodec", cfg="MC_TableCodecGen", label="oracle inverse laws + content enumeration", timeout=900)
    tlc_maps, tlc_covs = [], []
    for p in g.prints.get("GEN", []):
        rec = json.loads(p[0])
        if rec["kind"] == "cmap4":
            m = {}
            x = rec["x"]
            items = x.values() if isinstance(x, dict) else x
            for it in items:
                m[it[0]] = it[1]
            if m:
                tlc_maps.append(m)
        else:
            tlc_covs.append(rec["x"])
    chk.notes["tlc_enumerated_contents"] = {"cmap": len(tlc_maps), "coverage": len(tlc_covs)}
    if not thorough:
        chk.rng.shuffle(tlc_maps)
        tlc_maps = tlc_maps[:250]
    logging.getLogger("fontTools").setLevel(logging.ERROR)
    cases = []
    for name, fn in (("cmap", lambda: gen_cmaps(chk, tlc_maps)), ("hmtx", lambda: gen_hmtx(chk)), ("glyph", lambda: gen_glyphs(chk)),
                     ("loca", lambda: gen_loca(chk)), ("otl", lambda: gen_otl(chk, tlc_covs)), ("misc", lambda: gen_misc(chk)),
                     ("roundtrips", lambda: gen_roundtrips(chk))):
        try:
            got = fn()
        except MachineryError:
            raise
        except Exception as e:
            # an exception raised INSIDE fontTools while encoding/decoding a generated (valid) content is the
            # codec refusing that content: one "raised" case for this generator; anything raised by harness code is ours
            import traceback

            tb = traceback.extract_tb(e.__traceback__)
            if not tb or "/fontTools/" not in tb[-1].filename:
                raise
            got = [{"k": "raised", "what": name, "err": "%s: %s" % (type(e).__name__, e), "where": "%s:%d" % (tb[-1].filename.split("/fontTools/")[-1], tb[-1].lineno)}]
        chk.log("generated %d %s cases" % (len(got), name))
        cases += got
    chk.count(len(cases))
    kinds = {}
    for t in cases:
        kinds[t["k"]] = kinds.get(t["k"], 0) + 1
        if len(t.get("b", t.get("db", [0, 0]))) > 8 or t["k"] in ("rt", "loca", "raised"):
            chk.nontriv(common.digest([t["k"], t.get("b"), t.get("c0"), t.get("db"), t.get("table"), t.get("font"), t.get("tgt"), t.get("pad")]))
    chk.notes["cases_by_kind"] = kinds
    for k in kinds:
        ex = next(t for t in cases if t["k"] == k)
        chk.sample({a: (b if not isinstance(b, list) or len(b) <= 40 else b[:40] + ["..."]) for a, b in ex.items()}, limit=12)
    chk.log("judging %d cases %s" % (len(cases), kinds))
    rej = chk.judge("Trace_C02", cases, chunk=1500, timeout=1500, env={"JAVA_TOOL_OPTIONS": "-Xss256m"})  # decoders recurse once per point
    for t, clause in rej:
        c = clause[0]
        desc = {a: (b if not isinstance(b, list) or len(b) <= 30 else b[:30] + ["..."]) for a, b in t.items()}
        chk.reject(c if t["k"] != "cmap" else "%s:format%d" % (c, t["fmt"]), "%s on %s" % (c, json.dumps(desc)[:600]), t)
    chk.assumptions += [
        "table-level encoders are called through their public classes (CmapSubtable, Glyph, GlyphComponent, Coverage, ClassDef, NameRecord, TupleVariation) with a stub glyph-order provider",
        "kern/post/OS2/fvar/avar/COLR/CPAL/GSUB/GPOS contents are checked by compile->decompile content equality only (no independent decoder in TLA+ for them)",
        "HarfBuzz is consulted for advances (hmtx) on the compiled font",
    ]


def replay(chk, rep):
    run(chk)
