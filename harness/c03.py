"""C03 — TTX XML is a lossless representation of a font.

(M) MC_TTXDump: the dump-layout predicate against a reference dumper over the whole option
    lattice (split / splitGlyphs / selections), and the XML white-space laws.
(R)/(V) every configuration of the option lattice on a rotating sample of corpus fonts (all of them
    in the thorough tier): per-table compiled bytes of the original object model vs of the font
    re-imported from its dump, the files written and their include graph, and adversarial strings
    pushed through TTX text and attribute channels — all judged by TLC (Trace_C03)."""
import io
import itertools
import logging
import os
import random
import re
import shutil
import tempfile

from . import common, fonts
from .common import MachineryError

LEVEL = "model_checking"

ALPHA = [ord("a"), 32, ord("&"), ord("<"), ord(">"), ord('"'), ord("'"), 9, 10, 13, 0xE9, 0x20AC, 0x1D518, ord("]")]


def _blobs(data):
    from . import c01

    b, _order = c01.file_blobs(data, 0)
    return {t: c01.mask_blob(t, v) for t, v in b.items()}


def _parse_dump(main, split):
    """Read back the layout of a dump: main entries and included files (text scan)."""
    d = os.path.dirname(main)
    text = open(main, encoding="utf-8").read()
    body = text[text.index("<ttFont") :]
    body = body[body.index(">") + 1 :]
    entries = []
    depth = 0
    for m in re.finditer(r"<(/?)([A-Za-z_][\w.-]*)((?:\s+[\w:.-]+=\"[^\"]*\")*)\s*(/?)>|<!--.*?-->|<!\[CDATA\[.*?\]\]>", body, re.S):
        if m.group(2) is None:
            continue
        close, name, attrs, selfclose = m.group(1), m.group(2), m.group(3), m.group(4)
        if close:
            depth -= 1
            continue
        if depth == 0 and name != "ttFont":
            src = re.search(r'\ssrc="([^"]*)"', attrs or "")
            entries.append((name, src.group(1) if src else ""))
        if not selfclose:
            depth += 1
    return entries


def _top_tables(path):
    text = open(path, encoding="utf-8").read()
    body = text[text.index("<ttFont") :]
    body = body[body.index(">") + 1 :]
    out = []
    depth = 0
    refs = []
    inline = 0
    for m in re.finditer(r"<(/?)([A-Za-z_][\w.-]*)((?:\s+[\w:.-]+=\"[^\"]*\")*)\s*(/?)>|<!--.*?-->|<!\[CDATA\[.*?\]\]>", body, re.S):
        if m.group(2) is None:
            continue
        close, name, attrs, selfclose = m.group(1), m.group(2), m.group(3), m.group(4)
        if close:
            depth -= 1
            continue
        if depth == 0 and name != "ttFont":
            out.append(name)
        if depth == 1 and name == "TTGlyph":
            src = re.search(r'\ssrc="([^"]*)"', attrs or "")
            if src:
                refs.append(src.group(1))
            else:
                inline += 1
        if not selfclose:
            depth += 1
    return out, refs, inline


def job(args):
    kind, src, idx, cfg, seed, work = args
    from fontTools.ttLib import TTFont, xmlToTag

    logging.disable(logging.CRITICAL)
    if kind == "path":
        with open(src, "rb") as fh:
            data = fh.read()
        label = "%s#%d" % (common.rel(src), idx)
    else:
        label, data = src
    rng = random.Random("c03-%s-%s-%d" % (label, sorted(cfg.items()), seed))
    out = []
    d = tempfile.mkdtemp(prefix="ttx-", dir=work)
    try:
        try:
            F = TTFont(io.BytesIO(data), fontNumber=idx, recalcTimestamp=False, recalcBBoxes=False)
            for t in F.keys():
                F[t]
            buf = io.BytesIO()
            F.save(buf)
            b0 = _blobs(buf.getvalue())
        except Exception as e:
            return [{"skipreason": "original cannot be fully loaded and saved (%s; C01's business)" % type(e).__name__}]
        alltags = [t for t in TTFont(io.BytesIO(data), fontNumber=idx).keys()]
        real = [t for t in alltags if t != "GlyphOrder"]
        only, skip = [], []
        if cfg["select"] == "only" and len(real) > 2:
            only = rng.sample(real, rng.randint(1, max(1, len(real) // 2)))
        elif cfg["select"] == "skip" and len(real) > 2:
            skip = rng.sample(real, rng.randint(1, max(1, len(real) // 3)))
        main = os.path.join(d, "dump.ttx")
        kw = dict(splitTables=cfg["split"], splitGlyphs=cfg["splitGlyphs"], disassembleInstructions=cfg["disasm"],
                  bitmapGlyphDataFormat=cfg["bitmap"], newlinestr=cfg["nl"])
        if only:
            kw["tables"] = list(only)
        if skip:
            kw["skipTables"] = list(skip)
        failed = ""
        b1 = {}
        try:
            F2 = TTFont(io.BytesIO(data), fontNumber=idx, recalcTimestamp=False, recalcBBoxes=False)
            F2.saveXML(main, **kw)
        except Exception as e:
            failed = "dump-raised:" + type(e).__name__
        requested = list(only) if only else [t for t in alltags if t not in skip]
        if not failed:
            try:
                if only or skip:
                    # a partial dump is merged into a copy of the original (ttx -m semantics)
                    G = TTFont(io.BytesIO(data), fontNumber=idx, recalcTimestamp=False, recalcBBoxes=False)
                    for t in G.keys():
                        G[t]
                else:
                    G = TTFont(recalcTimestamp=False, recalcBBoxes=False)
                G.importXML(main)
                buf = io.BytesIO()
                G.save(buf)
                b1 = _blobs(buf.getvalue())
            except Exception as e:
                failed = "import-or-compile-raised:" + type(e).__name__
        tags = sorted(b0)
        bi = common.Interner()
        dumped = [(t in requested) for t in tags]
        wsnorm = []
        if not failed:
            # The property compares free-text strings after XML white-space normalisation: where the
            # bytes of a table differ, the dumps of both sides are compared; a *visible* difference
            # that vanishes when white space is collapsed is the licensed one.
            from .c01 import table_xml

            for t in tags:
                if t in requested and t in b1 and b1[t] != b0[t]:
                    try:
                        x0, x1 = table_xml(F, t), table_xml(G, t)
                    except Exception:
                        continue
                    if x0 != x1 and re.sub(r"\s+", " ", x0) == re.sub(r"\s+", " ", x1):
                        b1[t] = b0[t]
                        wsnorm.append(t)
        out.append({"k": "bytes", "label": label, "cfg": cfg, "tags": tags, "dumped": dumped, "failed": failed,
                    "b0": [bi(b0[t]) for t in tags], "b1": [bi(b1[t]) if t in b1 else 0 for t in tags], "only": only, "skip": skip, "wsnorm": wsnorm})
        if not failed:
            # the layout of the dump
            entries = _parse_dump(main, cfg["split"])
            files = []
            glyf_refs = []
            nglyphfiles = 0
            ninline = 0
            for name, srcf in entries:
                if srcf:
                    p = os.path.join(d, srcf)
                    if os.path.exists(p):
                        tops, refs, inl = _top_tables(p)
                        files.append({"name": srcf, "tags": [str(xmlToTag(x)) for x in tops]})
                        if str(xmlToTag(name)) == "glyf":
                            glyf_refs = refs
                            ninline = inl
                            nglyphfiles = sum(1 for r in refs if os.path.exists(os.path.join(d, r)))
                    else:
                        files.append({"name": srcf, "tags": ["<missing>"]})
            numGlyphs = len(F2.getGlyphOrder()) if "glyf" in F2 else 0
            out.append({"k": "dump", "label": label, "cfg": cfg, "all": alltags, "only": only, "skip": skip, "split": cfg["split"],
                        "splitGlyphs": cfg["splitGlyphs"],
                        "d": {"main": [{"tag": str(xmlToTag(n)), "src": s} for n, s in entries], "files": files, "glyfRefs": glyf_refs,
                              "numGlyphFiles": nglyphfiles, "numGlyphs": numGlyphs, "numInlineGlyphs": ninline}})
    finally:
        shutil.rmtree(d, True)
    return out


def job_text(args):
    strings, work = args
    from fontTools.ttLib import TTFont
    from fontTools.fontBuilder import FontBuilder

    logging.disable(logging.CRITICAL)
    out = []
    for codes in strings:
        s = "".join(chr(c) for c in codes)
        # text-node channel: a name record
        fb = FontBuilder(1000, isTTF=True)
        fb.setupGlyphOrder([".notdef", "A"])
        fb.setupCharacterMap({65: "A"})
        fb.setupNameTable({"familyName": "X", "styleName": "Y"})
        f = fb.font
        f["name"].setName(s, 1, 3, 1, 0x409)
        buf = io.StringIO()
        back = None
        try:
            f.saveXML(buf, tables=["GlyphOrder", "name"])
            g = TTFont()
            g.importXML(io.StringIO(buf.getvalue()))
            rec = g["name"].getName(1, 3, 1, 0x409)
            back = rec.toUnicode() if rec is not None else ""
        except Exception as e:
            back = None
            why = type(e).__name__
        out.append({"k": "text", "kind": "text", "channel": "name", "s": list(codes), "back": [ord(c) for c in back] if back is not None else [0xFFFF]})
        # attribute channel: a glyph name in GlyphOrder (only strings that are legal as names)
        if s and not any(c in (9, 10, 13, 32) for c in codes):
            fb = FontBuilder(1000, isTTF=True)
            fb.setupGlyphOrder([".notdef", s])
            buf = io.StringIO()
            try:
                fb.font.saveXML(buf, tables=["GlyphOrder"])
                g = TTFont()
                g.importXML(io.StringIO(buf.getvalue()))
                backn = g.getGlyphOrder()[1]
            except Exception:
                backn = None
            out.append({"k": "text", "kind": "attr", "channel": "glyph-name", "s": list(codes), "back": [ord(c) for c in backn] if backn is not None else [0xFFFF]})
    return out


def configs(thorough, rng):
    lattice = []
    for split, sg, dis, bm, nl, sel in itertools.product([False, True], [False, True], [True, False], ["raw", "row", "bitwise", "extfile"],
                                                         ["\n", "\r\n", "\r"], ["all", "only", "skip"]):
        lattice.append({"split": split, "splitGlyphs": sg, "disasm": dis, "bitmap": bm, "nl": nl, "select": sel})
    return lattice


def run(chk):
    thorough = chk.tier == "thorough"
    rng = chk.rng
    chk.rule = ("bytes case = (font, dump configuration): compiled table bytes before vs after dump+import; dump case = files written; "
                "text case = string through a TTX channel; distinct by (font, configuration) / string; non-trivial = font has >= 5 tables / string "
                "contains a character XML treats specially")
    r = chk.tlc("MC_TTXDump", label="dump layout lattice", timeout=600)
    lattice = configs(thorough, rng)
    chk.notes["option_lattice"] = len(lattice)
    bins = fonts.binaries()
    members = [(p, i) for p in bins for i in range(fonts.num_fonts_in(p))]
    ttx = fonts.whole_font_ttx()
    if not thorough:
        rng.shuffle(ttx)
        ttx = ttx[:40]
    compiled = fonts.compiled_ttx_fonts(ttx)
    srcs = [("path", p, i) for p, i in members] + [("bytes", (common.rel(p), b), 0) for p, b in compiled]
    jobs = []
    base = {"split": False, "splitGlyphs": False, "disasm": True, "bitmap": "raw", "nl": "\n", "select": "all"}
    if thorough:
        for s in srcs:
            for c in [base] + rng.sample(lattice, 12):
                jobs.append((s[0], s[1], s[2], c, chk.seed, chk.work))
    else:
        rng.shuffle(srcs)
        # every font once with the default configuration, the lattice spread over a rotating sample
        for s in srcs:
            jobs.append((s[0], s[1], s[2], base, chk.seed, chk.work))
        for k, c in enumerate(lattice):
            s = srcs[k % len(srcs)]
            jobs.append((s[0], s[1], s[2], c, chk.seed, chk.work))
        # fonts with bitmaps / instructions / glyf get extra configurations that matter to them
        special = [s for s in srcs if s[0] == "path" and any(x in s[1] for x in ("CBDT", "sbix", "EBDT", "bitmap", "TestTTF", "I.ttf", "Nutso", "Lobster"))]
        for s in special:
            for c in rng.sample(lattice, 6):
                jobs.append((s[0], s[1], s[2], c, chk.seed, chk.work))
    res = common.pmap(job, jobs, chunksize=2)
    traces = []
    for rs in res:
        for t in rs:
            if "skipreason" in t:
                chk.skip(t["skipreason"])
            else:
                traces.append(t)
    # text channels
    strings = [[c] for c in ALPHA] + [[a, b] for a in ALPHA for b in ALPHA]
    strings += [list(t) for t in itertools.product(ALPHA, repeat=3)] if thorough else [[rng.choice(ALPHA) for _ in range(3)] for _ in range(600)]
    strings += [[rng.choice(ALPHA) for _ in range(rng.randint(4, 8))] for _ in range(1500 if thorough else 300)]
    strings += [[ord(c) for c in "]]>"], [ord(c) for c in "a]]>b"], [ord(c) for c in "&amp;"], [ord(c) for c in "&#10;"], [ord(c) for c in "<!--x-->"]]
    chunks = [strings[i::14] for i in range(14)]
    for rs in common.pmap(job_text, [(c, chk.work) for c in chunks]):
        traces.extend(rs)
    chk.count(len(traces))
    special = set(map(ord, "&<>\"'")) | {9, 10, 13}
    for t in traces:
        if t["k"] == "bytes" and len(t["tags"]) >= 5:
            chk.nontriv(("bytes", t["label"], str(sorted(t["cfg"].items())), str(t["only"]), str(t["skip"])))
        elif t["k"] == "dump":
            chk.nontriv(("dump", t["label"], str(sorted(t["cfg"].items()))))
        elif t["k"] == "text" and set(t["s"]) & special:
            chk.nontriv(("text", t["kind"], tuple(t["s"])))
    kinds = {}
    for t in traces:
        kinds[t["k"]] = kinds.get(t["k"], 0) + 1
    chk.notes["cases_by_kind"] = kinds
    for k in ("bytes", "dump", "text"):
        ex = next((t for t in traces if t["k"] == k), None)
        if ex:
            chk.sample({a: b for a, b in ex.items() if a not in ("d",)})
    chk.log("judging %s" % kinds)
    rej = chk.judge("Trace_C03", traces, chunk=6000, timeout=1200)
    for t, clause in rej:
        c = clause[0]
        if t["k"] == "text":
            chk.reject("%s:%s" % (c, t["channel"]), "%s via %s: %r -> %r" % (c, t["channel"], t["s"], t["back"]), t)
        else:
            chk.reject(c, "%s on %s cfg=%s only=%s skip=%s" % (c, t["label"], t["cfg"], t.get("only"), t.get("skip")), {"label": t["label"], "cfg": t["cfg"]})
    chk.assumptions += [
        "both sides are fully decoded and compiled (derived fields are recomputed identically); head.checkSumAdjustment masked; recalcTimestamp=False",
        "partial dumps (tables= / skipTables=) are imported into a copy of the original font, as `ttx -m` does",
        "text channels exercised: name-record strings (text node) and glyph names in GlyphOrder (attribute)",
    ]


def replay(chk, rep):
    run(chk)
