"""C03 — TTX XML is a lossless representation of a font.

(M) MC_TTXDump: the dump-layout predicate against a reference dumper over the whole option
    lattice (split / splitGlyphs / selections), and the XML white-space laws.
(R)/(V) every configuration of the option lattice on a rotating sample of corpus fonts (all of them
    in the thorough tier): per-table compiled bytes of the original object model vs of the font
    re-imported from its dump, the files written and their include graph, and adversarial strings
    pushed through TTX text and attribute channels — all judged by TLC (Trace_C03).
    Generated fonts (harness/c03_gen.py) add what the corpus lacks: glyph names that are adversarial for
    per-glyph file naming and XML attributes (dumped with splitGlyphs), TrueType programs with every push
    form / boundary operand / control structure / unknown opcode (dumped with and without disassembly),
    and EBLC/EBDT (CBLC/CBDT) strikes over bitDepth x image format x index format (dumped in all four
    bitmapGlyphDataFormat values)."""
import io
import itertools
import logging
import os
import random
import re
import shutil
import tempfile

from . import c03_gen, common, fonts
from .common import MachineryError

LEVEL = "model_checking"

ALPHA = [ord("a"), 32, ord("&"), ord("<"), ord(">"), ord('"'), ord("'"), 9, 10, 13, 0xE9, 0x20AC, 0x1D518, ord("]")]


def _blobs(data):
    from . import c01

    b, _order = c01.file_blobs(data, 0)
    return {t: c01.mask_blob(t, v) for t, v in b.items()}


def _unesc(v):
    from xml.sax.saxutils import unescape

    return unescape(v, {"&quot;": '"', "&apos;": "'"})


def _parse_dump(main, split):
    """Read back the layout of a dump: main entries and included files (text scan)."""
    d = os.path.dirname(main)
    text = open(main, encoding="utf-8").read()
    body = text[text.index("<ttFont") :]
    body = body[body.index(">") + 1 :]
    entries = []
    depth = 0
    for m in re.finditer(r"<(/?)([A-Za-z_][\w.-]*)((?:\s+[\w:.-]+=\"[^\"]*\")*)\s*(/?)>|<!--.*?-->|<!\[CDATA\[.*?\]\]>", body, re.S):
        if m.group(2) is None:
            continue
        close, name, attrs, selfclose = m.group(1), m.group(2), m.group(3), m.group(4)
        if close:
            depth -= 1
            continue
        if depth == 0 and name != "ttFont":
            src = re.search(r'\ssrc="([^"]*)"', attrs or "")
            entries.append((name, _unesc(src.group(1)) if src else ""))
        if not selfclose:
            depth += 1
    return entries


def _top_tables(path):
    text = open(path, encoding="utf-8").read()
    body = text[text.index("<ttFont") :]
    body = body[body.index(">") + 1 :]
    out = []
    depth = 0
    refs = []
    inline = 0
    for m in re.finditer(r"<(/?)([A-Za-z_][\w.-]*)((?:\s+[\w:.-]+=\"[^\"]*\")*)\s*(/?)>|<!--.*?-->|<!\[CDATA\[.*?\]\]>", body, re.S):
        if m.group(2) is None:
            continue
        close, name, attrs, selfclose = m.group(1), m.group(2), m.group(3), m.group(4)
        if close:
            depth -= 1
            continue
        if depth == 0 and name != "ttFont":
            out.append(name)
        if depth == 1 and name == "TTGlyph":
            src = re.search(r'\ssrc="([^"]*)"', attrs or "")
            if src:
                refs.append(_unesc(src.group(1)))
            else:
                inline += 1
        if not selfclose:
            depth += 1
    return out, refs, inline


def _where(e):
    """module.function of the innermost fontTools frame of an exception (a stable root-cause tag)."""
    import traceback

    for fr in reversed(traceback.extract_tb(e.__traceback__)):
        if "fontTools" in fr.filename.replace("\\", "/"):
            return "%s@%s.%s" % (type(e).__name__, os.path.splitext(os.path.basename(fr.filename))[0], fr.name)
    return type(e).__name__


def _name_qual(F, G):
    """Which name records differ between the original and the re-imported font: decodable text or bytes that do not
    decode in the record's encoding (root-cause tag for a 'name' difference; the verdict itself is on the bytes)."""
    try:
        a = {(n.nameID, n.platformID, n.platEncID, n.langID): n for n in F["name"].names}
        b = {(n.nameID, n.platformID, n.platEncID, n.langID): n for n in G["name"].names}
        kinds = set()
        for k, n in a.items():
            m = b.get(k)
            if m is None or m.toBytes() != n.toBytes():
                try:
                    n.toUnicode()
                    kinds.add("decodable")
                except UnicodeDecodeError:
                    kinds.add("undecodable")
        if set(b) - set(a):
            kinds.add("extra")
        return "+".join(sorted(kinds)) + "-record" if kinds else ""
    except Exception:
        return ""


def _glyph_entries(path, d, gi):
    """The entries of a glyf table file written with splitGlyphs, read with a real XML parser: one per
    TTGlyph element, with the included file's name (code points) and the glyph names found in it."""
    import xml.etree.ElementTree as ET

    root = ET.parse(path).getroot()
    out = []
    for glyf in root.iter("glyf"):
        for el in glyf:
            if el.tag != "TTGlyph":
                continue
            src = el.get("src")
            if src is None:
                out.append({"file": [], "holds": [gi(el.get("name"))]})
                continue
            fp = os.path.join(d, src)
            holds = []
            if os.path.isfile(fp):
                holds = [gi(g.get("name")) for g in ET.parse(fp).getroot().iter("TTGlyph")]
            out.append({"file": [ord(c) for c in src], "holds": holds})
    return out


def job(args):
    kind, src, idx, cfg, seed, work = args
    from fontTools.ttLib import TTFont, xmlToTag

    logging.disable(logging.CRITICAL)
    qual = ""
    if kind == "path":
        with open(src, "rb") as fh:
            data = fh.read()
        label = "%s#%d" % (common.rel(src), idx)
    elif kind == "gen":
        label = src["id"]
        try:
            data = c03_gen.build(src)
        except Exception as e:
            return [{"generr": "%s: %s (%s)" % (label, _where(e), str(e)[:200])}]
        if src["fam"] == "bitmap":
            qual = "bitmap=%s,bitDepth=%d" % (cfg["bitmap"], src["bitDepth"])
    else:
        label, data = src
    rng = random.Random("c03-%s-%s-%d" % (label, sorted(cfg.items()), seed))
    out = []
    d = tempfile.mkdtemp(prefix="ttx-", dir=work)
    try:
        try:
            F = TTFont(io.BytesIO(data), fontNumber=idx, recalcTimestamp=False, recalcBBoxes=False)
            for t in F.keys():
                F[t]
            buf = io.BytesIO()
            F.save(buf)
            b0 = _blobs(buf.getvalue())
        except Exception as e:
            return [{"skipreason": "original cannot be fully loaded and saved (%s; C01's business)" % type(e).__name__}]
        alltags = [t for t in TTFont(io.BytesIO(data), fontNumber=idx).keys()]
        real = [t for t in alltags if t != "GlyphOrder"]
        only, skip = [], []
        if cfg["select"] == "only" and len(real) > 2:
            only = rng.sample(real, rng.randint(1, max(1, len(real) // 2)))
        elif cfg["select"] == "skip" and len(real) > 2:
            skip = rng.sample(real, rng.randint(1, max(1, len(real) // 3)))
        main = os.path.join(d, "dump.ttx")
        kw = dict(splitTables=cfg["split"], splitGlyphs=cfg["splitGlyphs"], disassembleInstructions=cfg["disasm"],
                  bitmapGlyphDataFormat=cfg["bitmap"], newlinestr=cfg["nl"])
        if only:
            kw["tables"] = list(only)
        if skip:
            kw["skipTables"] = list(skip)
        failed = ""
        b1 = {}
        try:
            F2 = TTFont(io.BytesIO(data), fontNumber=idx, recalcTimestamp=False, recalcBBoxes=False)
            F2.saveXML(main, **kw)
        except Exception as e:
            failed = "dump-raised:" + _where(e)
        requested = list(only) if only else [t for t in alltags if t not in skip]
        if not failed:
            try:
                if only or skip:
                    # a partial dump is merged into a copy of the original (ttx -m semantics)
                    G = TTFont(io.BytesIO(data), fontNumber=idx, recalcTimestamp=False, recalcBBoxes=False)
                    for t in G.keys():
                        G[t]
                else:
                    G = TTFont(recalcTimestamp=False, recalcBBoxes=False)
                G.importXML(main)
                buf = io.BytesIO()
                G.save(buf)
                b1 = _blobs(buf.getvalue())
            except Exception as e:
                failed = "import-or-compile-raised:" + _where(e)
        tags = sorted(b0)
        bi = common.Interner()
        dumped = [(t in requested) for t in tags]
        wsnorm = []
        if not failed:
            # The property compares free-text strings after XML white-space normalisation: where the
            # bytes of a table differ, the dumps of both sides are compared; a *visible* difference
            # that vanishes when white space is collapsed is the licensed one.
            from .c01 import table_xml

            for t in tags:
                if t in requested and t in b1 and b1[t] != b0[t]:
                    try:
                        x0, x1 = table_xml(F, t), table_xml(G, t)
                    except Exception:
                        continue
                    if x0 != x1 and re.sub(r"\s+", " ", x0) == re.sub(r"\s+", " ", x1):
                        b1[t] = b0[t]
                        wsnorm.append(t)
        quals = {}
        if qual:
            quals.update({t: qual for t in ("EBDT", "EBLC", "CBDT", "CBLC")})
        if not failed and "name" in requested and "name" in b1 and b1["name"] != b0["name"]:
            quals["name"] = _name_qual(F, G)
        out.append({"k": "bytes", "label": label, "cfg": cfg, "tags": tags, "dumped": dumped, "failed": failed, "quals": quals,
                    "b0": [bi(b0[t]) for t in tags], "b1": [bi(b1[t]) if t in b1 else 0 for t in tags], "only": only, "skip": skip, "wsnorm": wsnorm})
        if not failed.startswith("dump-raised"):
            # the layout of the dump
            entries = _parse_dump(main, cfg["split"])
            files = []
            glyf_refs = []
            nglyphfiles = 0
            ninline = 0
            gi = common.Interner()
            glyph_entries = []
            glyph_order = []
            malformed = False
            for name, srcf in entries:
                if srcf:
                    p = os.path.join(d, srcf)
                    if os.path.exists(p):
                        tops, refs, inl = _top_tables(p)
                        files.append({"name": srcf, "tags": [str(xmlToTag(x)) for x in tops]})
                        if str(xmlToTag(name)) == "glyf":
                            glyf_refs = refs
                            ninline = inl
                            nglyphfiles = sum(1 for r in refs if os.path.exists(os.path.join(d, r)))
                            if cfg["splitGlyphs"]:
                                glyph_order = [gi(n) for n in F2.getGlyphOrder()]
                                try:
                                    glyph_entries = _glyph_entries(p, d, gi)
                                except Exception:  # not well-formed XML (ParseError / encoding)
                                    malformed = True
                    else:
                        files.append({"name": srcf, "tags": ["<missing>"]})
            numGlyphs = len(F2.getGlyphOrder()) if "glyf" in F2 else 0
            out.append({"k": "dump", "label": label, "cfg": cfg, "all": alltags, "only": only, "skip": skip, "split": cfg["split"],
                        "splitGlyphs": cfg["splitGlyphs"],
                        "d": {"main": [{"tag": str(xmlToTag(n)), "src": s} for n, s in entries], "files": files, "glyfRefs": glyf_refs,
                              "numGlyphFiles": nglyphfiles, "numGlyphs": numGlyphs, "numInlineGlyphs": ninline,
                              "glyphOrder": glyph_order, "glyphEntries": glyph_entries, "malformed": malformed}})
    finally:
        shutil.rmtree(d, True)
    return out


def job_text(args):
    strings, work = args
    from fontTools.ttLib import TTFont
    from fontTools.fontBuilder import FontBuilder

    logging.disable(logging.CRITICAL)
    out = []
    for codes in strings:
        s = "".join(chr(c) for c in codes)
        # text-node channel: a name record
        fb = FontBuilder(1000, isTTF=True)
        fb.setupGlyphOrder([".notdef", "A"])
        fb.setupCharacterMap({65: "A"})
        fb.setupNameTable({"familyName": "X", "styleName": "Y"})
        f = fb.font
        f["name"].setName(s, 1, 3, 1, 0x409)
        buf = io.StringIO()
        back = None
        try:
            f.saveXML(buf, tables=["GlyphOrder", "name"])
            g = TTFont()
            g.importXML(io.StringIO(buf.getvalue()))
            rec = g["name"].getName(1, 3, 1, 0x409)
            back = rec.toUnicode() if rec is not None else ""
        except Exception as e:
            back = None
            why = type(e).__name__
        out.append({"k": "text", "kind": "text", "channel": "name", "s": list(codes), "back": [ord(c) for c in back] if back is not None else [0xFFFF]})
        # attribute channel: a glyph name in GlyphOrder (only strings that are legal as names)
        if s and not any(c in (9, 10, 13, 32) for c in codes):
            fb = FontBuilder(1000, isTTF=True)
            fb.setupGlyphOrder([".notdef", s])
            buf = io.StringIO()
            try:
                fb.font.saveXML(buf, tables=["GlyphOrder"])
                g = TTFont()
                g.importXML(io.StringIO(buf.getvalue()))
                backn = g.getGlyphOrder()[1]
            except Exception:
                backn = None
            out.append({"k": "text", "kind": "attr", "channel": "glyph-name", "s": list(codes), "back": [ord(c) for c in backn] if backn is not None else [0xFFFF]})
    return out


def configs(thorough, rng):
    lattice = []
    for split, sg, dis, bm, nl, sel in itertools.product([False, True], [False, True], [True, False], ["raw", "row", "bitwise", "extfile"],
                                                         ["\n", "\r\n", "\r"], ["all", "only", "skip"]):
        lattice.append({"split": split, "splitGlyphs": sg, "disasm": dis, "bitmap": bm, "nl": nl, "select": sel})
    return lattice


PARTS = ("mc", "corpus", "gen", "text")


def run(chk, parts=PARTS):
    thorough = chk.tier == "thorough"
    rng = chk.rng
    grng = random.Random(rng.getrandbits(64))  # the generated fonts' own stream: the same fonts whichever parts run
    chk.rule = ("fonts = corpus binaries, compiled corpus TTX, and generated fonts (adversarial glyph names / TrueType programs / bitmap strikes); "
                "bytes case = (font, dump configuration): compiled table bytes before vs after dump+import; dump case = files written; "
                "text case = string through a TTX channel; distinct by (font, configuration) / string; non-trivial = font has >= 5 tables / string "
                "contains a character XML treats specially")
    if "mc" in parts:
        chk.tlc("MC_TTXDump", cfg="MC_TTXDump_thorough" if thorough else "MC_TTXDump",
                label="dump layout lattice + per-glyph file naming of all glyph-name pairs", timeout=1800)
        rn = chk.tlc("MC_TTXDump", cfg="MC_TTXDump_neg", label="negative: dumper records per-glyph names as written, not lower-cased",
                     timeout=900, expect_ok=False, workers=4)
        if rn.exit == 0 or "RefOK is violated" not in rn.stdout:
            raise MachineryError("negative configuration of MC_TTXDump did not violate RefOK: the include-graph predicate is vacuous")
    lattice = configs(thorough, rng)
    chk.notes["option_lattice"] = len(lattice)
    bins = fonts.binaries()
    members = [(p, i) for p in bins for i in range(fonts.num_fonts_in(p))]
    ttx = fonts.whole_font_ttx()
    if not thorough:
        rng.shuffle(ttx)
        ttx = ttx[:40]
    compiled = fonts.compiled_ttx_fonts(ttx) if "corpus" in parts else []
    srcs = [("path", p, i) for p, i in members] + [("bytes", (common.rel(p), b), 0) for p, b in compiled]
    jobs = []
    base = {"split": False, "splitGlyphs": False, "disasm": True, "bitmap": "raw", "nl": "\n", "select": "all"}
    if "corpus" not in parts:
        pass
    elif thorough:
        for s in srcs:
            for c in [base] + rng.sample(lattice, 12):
                jobs.append((s[0], s[1], s[2], c, chk.seed, chk.work))
    else:
        rng.shuffle(srcs)
        # every font once with the default configuration, the lattice spread over a rotating sample
        for s in srcs:
            jobs.append((s[0], s[1], s[2], base, chk.seed, chk.work))
        for k, c in enumerate(lattice):
            s = srcs[k % len(srcs)]
            jobs.append((s[0], s[1], s[2], c, chk.seed, chk.work))
        # fonts with bitmaps / instructions / glyf get extra configurations that matter to them
        special = [s for s in srcs if s[0] == "path" and any(x in s[1] for x in ("CBDT", "sbix", "EBDT", "bitmap", "TestTTF", "I.ttf", "Nutso", "Lobster"))]
        for s in special:
            for c in rng.sample(lattice, 6):
                jobs.append((s[0], s[1], s[2], c, chk.seed, chk.work))
    # generated fonts: each family with the dump configurations that matter to it
    nls = ["\n", "\r\n", "\r"]
    gspecs = c03_gen.specs(grng, thorough) if "gen" in parts else []
    fam_count = {}
    classes = set()
    for k, sp in enumerate(gspecs):
        fam = sp["fam"]
        fam_count[fam] = fam_count.get(fam, 0) + 1
        if fam == "names":
            cfgs = [dict(base, splitGlyphs=True, nl=nls[k % 3]), dict(base, splitGlyphs=True, split=True, disasm=False, nl=nls[(k + 1) % 3]),
                    dict(base, split=bool(k % 2), select=grng.choice(["all", "only", "skip"]), nl=nls[(k + 2) % 3])]
        elif fam == "prog":
            cfgs = [dict(base, disasm=True, nl=nls[k % 3]), dict(base, disasm=False, split=bool(k % 2), nl=nls[(k + 1) % 3]),
                    dict(base, disasm=True, splitGlyphs=True, nl=nls[(k + 2) % 3])]
            if thorough:
                cfgs.append(dict(base, disasm=False, splitGlyphs=True, nl=nls[k % 3]))
        else:
            cfgs = [dict(base, bitmap=b, split=bool((k + j) % 2), nl=nls[(k + j) % 3]) for j, b in enumerate(["raw", "row", "bitwise", "extfile"])]
            classes |= c03_gen.bitmap_classes(sp)
        for c in cfgs:
            jobs.append(("gen", sp, 0, c, chk.seed, chk.work))
    chk.notes["generated_fonts"] = fam_count
    chk.notes["bitmap_classes_bitDepth_imageFormat_indexFormat"] = len(classes)
    res = common.pmap(job, jobs, chunksize=2)
    traces = []
    for rs in res:
        for t in rs:
            if "skipreason" in t:
                chk.skip(t["skipreason"])
            elif "generr" in t:
                raise MachineryError("a generated font could not be built: " + t["generr"])
            else:
                traces.append(t)
    # text channels
    strings = [[c] for c in ALPHA] + [[a, b] for a in ALPHA for b in ALPHA]
    strings += [list(t) for t in itertools.product(ALPHA, repeat=3)] if thorough else [[rng.choice(ALPHA) for _ in range(3)] for _ in range(600)]
    strings += [[rng.choice(ALPHA) for _ in range(rng.randint(4, 8))] for _ in range(1500 if thorough else 300)]
    strings += [[ord(c) for c in "]]>"], [ord(c) for c in "a]]>b"], [ord(c) for c in "&amp;"], [ord(c) for c in "&#10;"], [ord(c) for c in "<!--x-->"]]
    if "text" not in parts:
        strings = []
    chunks = [strings[i::14] for i in range(14)]
    for rs in common.pmap(job_text, [(c, chk.work) for c in chunks]):
        traces.extend(rs)
    chk.count(len(traces))
    special = set(map(ord, "&<>\"'")) | {9, 10, 13}
    for t in traces:
        if t["k"] == "bytes" and len(t["tags"]) >= 5:
            chk.nontriv(("bytes", t["label"], str(sorted(t["cfg"].items())), str(t["only"]), str(t["skip"])))
        elif t["k"] == "dump":
            chk.nontriv(("dump", t["label"], str(sorted(t["cfg"].items()))))
        elif t["k"] == "text" and set(t["s"]) & special:
            chk.nontriv(("text", t["kind"], tuple(t["s"])))
    kinds = {}
    for t in traces:
        kinds[t["k"]] = kinds.get(t["k"], 0) + 1
    chk.notes["cases_by_kind"] = kinds
    for k in ("bytes", "dump", "text"):
        ex = next((t for t in traces if t["k"] == k), None)
        if ex:
            chk.sample({a: b for a, b in ex.items() if a not in ("d",)})
    chk.log("judging %s" % kinds)
    rej = chk.judge("Trace_C03", traces, chunk=6000, timeout=1200)
    for t, clause in rej:
        c = clause[0]
        if t["k"] == "text":
            chk.reject("%s:%s" % (c, t["channel"]), "%s via %s: %r -> %r" % (c, t["channel"], t["s"], t["back"]), t)
        else:
            key = c
            if t["k"] == "bytes" and t.get("quals", {}).get(c.split(":")[-1]):
                # root-cause tags recorded by the harness: bitmap dump format + bit depth of generated strikes (one depth
                # per font), the kind of name record that differs
                key = "%s:%s" % (c, t["quals"][c.split(":")[-1]])
            chk.reject(key, "%s on %s cfg=%s only=%s skip=%s" % (key, t["label"], t["cfg"], t.get("only"), t.get("skip")), {"label": t["label"], "cfg": t["cfg"]})
    chk.assumptions += [
        "both sides are fully decoded and compiled (derived fields are recomputed identically); head.checkSumAdjustment masked; recalcTimestamp=False",
        "partial dumps (tables= / skipTables=) are imported into a copy of the original font, as `ttx -m` does",
        "text channels exercised: name-record strings (text node) and glyph names in GlyphOrder (attribute)",
        "generated glyph names are Latin-1 without control characters (what 'post' format 2 can carry and XML 1.0 can express)",
        "generated bitmap image data is exactly as long as the metrics demand with zero padding bits: 'row' / 'bitwise' dumps are pixel dumps",
        "file names are compared ignoring case for ASCII and Latin-1 letters (TTXDump!Fold)",
        "generated name records contain no C0 control characters / bytes: XML 1.0 cannot express them (&#0; is not well-formed)",
    ]


def replay(chk, rep):
    """Violations are re-found by re-running the part they came from (same seed => same generated fonts)."""
    r = rep.get("replay") or {}
    label = str(r.get("label", ""))
    if label.startswith("gen:"):
        run(chk, parts=("gen",))
    elif r.get("k") == "text":
        run(chk, parts=("text",))
    else:
        run(chk)
