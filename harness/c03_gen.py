"""Generated fonts for C03 (TTX dump/import is lossless).

Three input families that the corpus does not contain; every font is described by a small JSON-able
*spec* (derived from the check's seeded rng) and built to binary in the worker:

names   glyph names that are adversarial for the per-glyph file naming of a splitGlyphs dump and for
        XML attribute transport: case variants (a / A / A_ / a_), characters illegal in file names
        (* ? : / \\ " < > | + [ ]), reserved DOS names (con, nul, aux, com1 ...), leading dots, very long
        names with a long common prefix (clipped to the same file name), names that sanitise to the
        same string, XML-special characters and Latin-1 letters with case.
prog    TrueType programs in fpgm / prep / simple and composite glyphs: every push form (PUSHB[n],
        PUSHW[n], NPUSHB, NPUSHW; runs of consecutive pushes as the assembler's PUSH[ ] produces)
        with boundary operands, IF/ELSE/EIF, FDEF/IDEF/ENDF structure (balanced and not), every
        other opcode including the undefined ones, truncated pushes and NPUSHB 0.
bitmap  EBLC/EBDT (and CBLC/CBDT) strikes: bitDepth {1,2,4,8} x image formats {1,2,5,6,7,8,9} (17,18,19)
        x index subtable formats {1..5}, widths mostly odd so that rows are not byte aligned.  Image
        data is exactly as long as the metrics demand and padding bits are zero (domain restriction:
        'row' and 'bitwise' dumps are pixel dumps; bits outside the image are not image content).
        The tables are built directly in the object model (no XML involved) and compiled.
"""
import io
import logging

# ---------------------------------------------------------------- names
NAME_POOL = [
    "a", "A", "A_", "a_", "AE", "Ae", "aE", "ae", "a_e", "A_E_", "Zed*", "Zed?", "zed*", "zed?", "Zed_", "x:y", "x/y", "x\\y", "X/Y",
    'q"r', "l<g", "l>g", "p|q", "s+t", "[b]", "[B]", "con", "CON", "Con", "nul", "NUL", "aux", "prn", "com1", "COM1", "lpt1", "clock$",
    "con.alt", "alt.con", "a.con", "A.CON", ".null", "..", ".", "...a", ".A", ".a", "_notdef", "a&b", "a'b", "<", ">", "&amp;", "&lt;", "]]>",
    "a*", "a?", "A*", "a.alt", "A.alt", "A.Alt", "T_H", "T_h", "t_h", "a_000000000000001", "A_000000000000001", "\xe9", "\xc9", "\xc9_", "\xe9_",
    "a b", "%", "#", "a=b", "{a}", "~", "`", "^", "$", "@", "!", "a,b", "a;b", "(a)", "glyph00001", "uni0041", "a-b", "1", "0",
]
ALPHA = list("aAbBzZ_.*?:/\\\"<>|&'+[]-1") + ["\xe9", "\xc9"]


def _mutate_name(rng, n):
    k = rng.randrange(6)
    if not n:
        return "x"
    i = rng.randrange(len(n))
    if k == 0:
        return n[:i] + n[i].swapcase() + n[i + 1 :]
    if k == 1:
        return n[:i] + rng.choice('*?:/\\"<>|+[]') + n[i + 1 :]
    if k == 2:
        return n + "_"
    if k == 3:
        return n.upper()
    if k == 4:
        return n.lower()
    return n[:i] + "_" + n[i + 1 :]


def names_spec(rng, k):
    n = rng.randint(6, 14)
    names = []

    def add(x):
        if x and x not in names and x != ".notdef" and len(x) <= 250:
            names.append(x)

    while len(names) < n:
        r = rng.random()
        if r < 0.4:
            add(rng.choice(NAME_POOL))
        elif r < 0.6 and names:
            add(_mutate_name(rng, rng.choice(names)))
        elif r < 0.85:
            add("".join(rng.choice(ALPHA) for _ in range(rng.randint(1, 5))))
        else:
            # long names with a common prefix: clipped to the same file name
            stem = rng.choice(["long", "Long", "L", "w*"]) * rng.randint(20, 60)
            stem = stem[: rng.choice([120, 200, 240, 249])]
            add(stem + rng.choice(["a", "b", "A", "*"]))
            add(stem + rng.choice(["c", "B", "?", "_"]))
    # a collision needs at least one pair that sanitises alike: make sure one is present
    base = rng.choice(["Zed", "Q", "Ab", "x.Y", "Long" * 61])
    a, b = rng.sample(list('*?:/\\"<>|+[]'), 2)
    add(base + a)
    add(base + b)
    rng.shuffle(names)
    names = [".notdef"] + names
    empty = [i for i in range(1, len(names)) if rng.random() < 0.15]
    return {"fam": "names", "id": "gen:names:%d" % k, "names": names, "empty": empty}


def _box(x0, y0, x1, y1):
    from fontTools.pens.ttGlyphPen import TTGlyphPen

    pen = TTGlyphPen(None)
    pen.moveTo((x0, y0))
    pen.lineTo((x0, y1))
    pen.lineTo((x1, y1))
    pen.lineTo((x1, y0))
    pen.closePath()
    return pen.glyph()


def _base_font(names, glyphs=None, empty=()):
    from fontTools.fontBuilder import FontBuilder
    from fontTools.pens.ttGlyphPen import TTGlyphPen

    fb = FontBuilder(1000, isTTF=True)
    fb.setupGlyphOrder(list(names))
    fb.setupCharacterMap({0xE000 + i: n for i, n in enumerate(names) if i})
    if glyphs is None:
        glyphs = {}
        for i, n in enumerate(names):
            glyphs[n] = TTGlyphPen(None).glyph() if i in empty else _box(10 * i, -7 * i, 300 + 13 * i, 500 + 3 * i)
    fb.setupGlyf(glyphs)
    fb.setupHorizontalMetrics({n: (500 + 10 * i, getattr(glyphs[n], "xMin", 0) if glyphs[n].numberOfContours else 0) for i, n in enumerate(names)})
    fb.setupHorizontalHeader(ascent=800, descent=-200)
    fb.setupNameTable({"familyName": "Verif C03", "styleName": "Regular"})
    fb.setupOS2()
    fb.setupPost()
    # name records of every kind NameRecord.toXML distinguishes: Unicode-compatible encoding, a legacy encoding with
    # non-ASCII text (needs the unicode="True" attribute), and bytes that do not decode (written with write8bit);
    # no control characters: XML 1.0 cannot express them
    from fontTools.ttLib.tables._n_a_m_e import makeName

    name = fb.font["name"]
    name.setName("Caf\u00e9 \u00a9 \u2122 & <b> \"q\"", 5, 1, 0, 0)
    name.setName("Gr\u00fc\u00dfe  \u20ac", 5, 3, 1, 0x407)
    name.names.append(makeName(b"\xff\xfeA\x80\x81", 6, 3, 1, 0x409))  # odd length: not UTF-16
    name.names.append(makeName(b"\x81\x8f&<\x7e\xff", 7, 1, 0, 0))
    return fb.font


def _save(font):
    buf = io.BytesIO()
    font.save(buf)
    return buf.getvalue()


def build_names(spec):
    return _save(_base_font(spec["names"], empty=set(spec["empty"])))


# ---------------------------------------------------------------- programs
BYTES = [0, 1, 2, 127, 128, 254, 255]
WORDS = [-32768, -32767, -256, -255, -129, -128, -1, 0, 1, 255, 256, 257, 32766, 32767, 0x7F00, -0x7F00]
F2DOT14 = [16384, 16384, -32768, -16384, 8192, 32767, 1, -1, 11585, 16383, 16385]  # numerators over 2^14
PUSH_OPS = set([0x40, 0x41]) | set(range(0xB0, 0xC0))
IF, ELSE, EIF, FDEF, ENDF, IDEF = 0x58, 0x1B, 0x59, 0x2C, 0x2D, 0x89
OTHER_OPS = [op for op in range(256) if op not in PUSH_OPS and op not in (IF, ELSE, EIF, FDEF, ENDF, IDEF)]


def _word(v):
    return [(v >> 8) & 0xFF, v & 0xFF]


def _push(rng, out, force=None):
    form = force or rng.choice(["PUSHB", "PUSHW", "NPUSHB", "NPUSHW"])
    if form == "PUSHB":
        n = rng.randint(1, 8)
        out.append(0xB0 + n - 1)
        out.extend(rng.choice(BYTES) if rng.random() < 0.7 else rng.randrange(256) for _ in range(n))
    elif form == "PUSHW":
        n = rng.randint(1, 8)
        out.append(0xB8 + n - 1)
        for _ in range(n):
            out.extend(_word(rng.choice(WORDS) if rng.random() < 0.8 else rng.randint(-32768, 32767)))
    elif form == "NPUSHB":
        n = rng.choice([1, 2, 3, 8, 9, 24, 25, 26, 51, 255]) if rng.random() < 0.5 else rng.randint(1, 12)
        out.extend([0x40, n])
        out.extend(rng.choice(BYTES) if rng.random() < 0.7 else rng.randrange(256) for _ in range(n))
    else:
        n = rng.choice([1, 2, 8, 9, 25, 26, 50, 255]) if rng.random() < 0.5 else rng.randint(1, 12)
        out.extend([0x41, n])
        for _ in range(n):
            out.extend(_word(rng.choice(WORDS) if rng.random() < 0.8 else rng.randint(-32768, 32767)))


def _block(rng, out, depth, budget):
    n = rng.randint(1, budget)
    for _ in range(n):
        r = rng.random()
        if r < 0.35:
            _push(rng, out)
            if rng.random() < 0.4:  # a run of consecutive pushes (words then bytes), as PUSH[ ] assembles
                _push(rng, out, rng.choice(["PUSHW", "NPUSHW"]))
                _push(rng, out, rng.choice(["PUSHB", "NPUSHB"]))
        elif r < 0.5 and depth < 3:
            out.append(IF)
            _block(rng, out, depth + 1, 3)
            if rng.random() < 0.6:
                out.append(ELSE)
                _block(rng, out, depth + 1, 3)
            out.append(EIF)
        elif r < 0.6 and depth < 2:
            _push(rng, out, "PUSHB")
            out.append(rng.choice([FDEF, IDEF]))
            _block(rng, out, depth + 1, 3)
            out.append(ENDF)
        elif r < 0.65:
            out.append(rng.choice([IF, ELSE, EIF, FDEF, ENDF, IDEF]))  # unbalanced structure
        else:
            out.append(rng.choice(OTHER_OPS))


def program(rng):
    out = []
    r = rng.random()
    if r < 0.06:
        return []
    _block(rng, out, 0, 6)
    if r > 0.93:
        # malformed tails: a push whose operands run past the end, or a zero-count push
        tail = rng.choice([[0x40, 0], [0x41, 0], [0x40, 3, 1, 2], [0xB1, 7], [0xB8, 0x80], [0x41, 2, 0x80, 0, 0], [0xB0], [0x40]])
        out.extend(tail)
    return out


BOUNDARY_PROGRAMS = [
    [0xB8] + _word(-32768),
    [0x41, 1] + _word(-32768),
    [0xBF] + sum((_word(v) for v in [-32768, -32767, -256, -1, 0, 255, 256, 32767]), []),
    [0x41, 8] + sum((_word(v) for v in [-32768, -32767, -256, -1, 0, 255, 256, 32767]), []),
    [0xB7, 0, 1, 127, 128, 254, 255, 0, 255],
    [0x40, 8, 0, 1, 127, 128, 254, 255, 0, 255],
    [0x40, 255] + [i for i in range(255)],
    [0x41, 255] + sum((_word(-32768 + 257 * i) for i in range(255)), []),
    [0xB0, 1, IF, 0xB8] + _word(-32768) + [ELSE, 0xB0, 0, EIF],
    [0xB0, 0, FDEF, 0x41, 2] + _word(-32768) + _word(32767) + [0x21, 0x21, ENDF],
    [0xB0, 0x91, IDEF, 0x21, ENDF, 0x91, 0x8F, 0x7B, 0xA3],
]
ASM_PROGRAMS = [
    "PUSH[ ]\n1 2 3 300 -1 -32768 4 5 6 7 8 9 10 11 32767 0 255 256",
    "PUSH[ ] /* 3 values pushed */\n-32768 -32767 -256\nMINDEX[ ]\nPUSH[ ]\n0 0 0 0 0 0 0 0 0 0 0 0\nIF[ ]\nPUSH[ ]\n256 255\nELSE[ ]\nPUSH[ ]\n255\nEIF[ ]",
    "NPUSHW[ ]\n-32768 32767 -1\nPUSHB[ ]\n0 255\nPUSHW[ ]\n-32768\nSVTCA[0]\nMDAP[1]\nMIRP[01101]\nINSTR143[ ]",
]


def prog_spec(rng, k):
    def pick():
        r = rng.random()
        if r < 0.25:
            return rng.choice(BOUNDARY_PROGRAMS)
        return program(rng)

    nglyphs = rng.randint(3, 6)
    spec = {"fam": "prog", "id": "gen:prog:%d" % k, "fpgm": pick(), "prep": pick(), "cvt": [rng.choice(WORDS) for _ in range(rng.randint(0, 6))],
            "glyphs": [pick() if rng.random() < 0.7 else [] for _ in range(nglyphs)], "composite": rng.random() < 0.6,
            # glyf details that live in XML attributes: F2Dot14 transforms at the lattice's edges, component flags, anchored
            # components, the overlap flag of simple glyphs
            "comps": [[rng.choice(["g1", "g2", "g3"]), rng.choice(F2DOT14), rng.choice([0, 0, 1, -8192, 16383]), rng.choice([0, 0, -1, 8192]),
                       rng.choice(F2DOT14), rng.randint(-300, 300), rng.choice([0, 1, -128, 127, 128, -129, 3000, -3000]),
                       rng.choice([0, 0x4, 0x200, 0x400, 0x800, 0x1000, 0x604]), rng.random() < 0.2] for _ in range(rng.randint(1, 3))],
            "overlap": [rng.random() < 0.3 for _ in range(nglyphs)],
            "asm": rng.choice(ASM_PROGRAMS) if rng.random() < 0.3 else ""}
    return spec


def build_prog(spec):
    from fontTools.ttLib import newTable
    from fontTools.ttLib.tables import ttProgram
    from fontTools.pens.ttGlyphPen import TTGlyphPen

    def prog(bc):
        p = ttProgram.Program()
        p.fromBytecode(bytes(bc))
        return p

    names = [".notdef"] + ["g%d" % i for i in range(1, len(spec["glyphs"]) + 1)]
    if spec["composite"]:
        names.append("comp")
    glyphs = {}
    for i, n in enumerate(names):
        if n == "comp":
            pen = TTGlyphPen({k: None for k in names})
            for base, xx, xy, yx, yy, dx, dy, _fl, _anch in spec["comps"]:
                pen.addComponent(base, (xx / 16384, xy / 16384, yx / 16384, yy / 16384, dx, dy))
            g = glyphs[n] = pen.glyph()
            for ci, (comp, (_b, _xx, _xy, _yx, _yy, _dx, _dy, fl, anch)) in enumerate(zip(g.components, spec["comps"])):
                comp.flags |= fl
                if anch and ci:  # point numbers: one of the earlier components' points, one of its own
                    del comp.x, comp.y
                    comp.firstPt, comp.secondPt = 1, 2
        else:
            glyphs[n] = _box(10 * i, -7 * i, 300 + 13 * i, 500 + 3 * i)
    for n, bc, ov in zip(names[1:], spec["glyphs"], spec["overlap"]):
        glyphs[n].program = prog(bc)
        if ov:
            glyphs[n].flags[0] |= 0x40  # flagOverlapSimple
    if spec["composite"]:
        glyphs["comp"].program = prog(spec["prep"] if spec["prep"] else [0xB0, 1, 0x21])
    font = _base_font(names, glyphs)
    for tag in ("fpgm", "prep"):
        if spec[tag] or tag == "prep":
            font[tag] = newTable(tag)
            font[tag].program = prog(spec[tag])
    if spec["asm"]:
        p = ttProgram.Program()
        p.fromAssembly(spec["asm"])
        font["fpgm"] = newTable("fpgm")
        font["fpgm"].program = prog(p.getBytecode())
    if spec["cvt"]:
        import array

        font["cvt "] = newTable("cvt ")
        font["cvt "].values = array.array("h", spec["cvt"])
    return _save(font)


# ---------------------------------------------------------------- bitmaps
WIDTHS = [1, 3, 5, 7, 9, 11, 13, 15, 17, 4, 8, 16, 2, 6]
BYTE_ALIGNED = (1, 6)
BIT_ALIGNED = (2, 5, 7)
SMALL = (1, 2, 8, 17)
BIG = (6, 7, 9, 18)


def _pixels(rng, w, h, bd, byte_aligned):
    """Random image, packed MSB first; rows padded to bytes (byte aligned) or only the whole image
    (bit aligned); padding bits are zero."""

    def pack(bits):
        bits = bits + [0] * (-len(bits) % 8)
        return bytes(int("".join(map(str, bits[i : i + 8])), 2) for i in range(0, len(bits), 8))

    style = rng.randrange(4)
    rows = []
    for _y in range(h):
        bits = []
        for _x in range(w):
            v = (1 << bd) - 1 if style == 0 else rng.randrange(1 << bd) if style < 3 else rng.choice([0, (1 << bd) - 1, 1])
            bits.extend((v >> (bd - 1 - k)) & 1 for k in range(bd))
        rows.append(bits)
    if byte_aligned:
        return b"".join(pack(r) for r in rows)
    return pack(sum(rows, []))


def bitmap_spec(rng, k, color=False, forced=None):
    """forced = (bitDepth, imageFormat, indexFormat) for the first subtable of the first strike."""
    nglyphs = 14
    strikes = []
    # one bit depth per font, so that a failure is attributable to it
    bd = 32 if color else forced[0] if forced else rng.choice([1, 2, 4, 8])
    # component glyphs (formats 8 / 9) only in fonts that are about them, so that the pixel formats are not masked by them
    with_comps = forced[1] in (8, 9) if forced else rng.random() < 0.4
    for si in range(rng.randint(1, 3)):
        subtables = []
        gid = 1
        for sti in range(rng.randint(1, 4)):
            if forced and si == 0 and sti == 0:
                imf, ixf = forced[1], forced[2]
            else:
                imf = rng.choice([17, 18, 19, 17, 18, 1] if color else [1, 2, 5, 6, 7, 8, 9] if with_comps else [1, 2, 5, 6, 7])
                ixf = rng.choice([2, 5] if imf in (5, 19) else [1, 2, 3, 4, 5])
            fixed = ixf in (2, 5)
            n = rng.randint(1, 4)
            if gid + n > nglyphs:
                break
            if ixf in (2,):
                gids = list(range(gid, gid + n))
            else:
                # sparse ids (skip glyphs in formats 1/3, code arrays in 4/5)
                gids = sorted(rng.sample(range(gid, min(nglyphs, gid + n + 2)), min(n, min(nglyphs, gid + n + 2) - gid)))
            gid = gids[-1] + 1
            w0, h0 = rng.choice(WIDTHS), rng.randint(1, 9)
            glyphs = []
            ncomp = rng.randint(1, 3)
            for g in gids:
                w, h = (w0, h0) if fixed else (rng.choice(WIDTHS), rng.randint(1, 9))
                if imf in (8, 9):
                    comps = [[rng.randrange(1, nglyphs), rng.randint(-128, 127), rng.randint(-128, 127)] for _ in range(ncomp if fixed else rng.randint(1, 3))]
                    glyphs.append({"gid": g, "w": w, "h": h, "comps": comps})
                elif imf in (17, 18, 19):
                    png = bytes(rng.randrange(256) for _ in range(rng.randint(1, 40) if not fixed else 17))
                    glyphs.append({"gid": g, "w": w, "h": h, "hex": png.hex()})
                else:
                    depth = bd
                    glyphs.append({"gid": g, "w": w, "h": h, "hex": _pixels(rng, w, h, depth, imf in BYTE_ALIGNED).hex()})
            subtables.append({"indexFormat": ixf, "imageFormat": imf, "glyphs": glyphs, "pad": rng.choice([0, 0, 0, 1, 3]) if fixed else 0,
                              "metrics": [rng.randint(-128, 127) for _ in range(6)]})
        if subtables:
            strikes.append({"bitDepth": bd, "ppem": rng.randint(6, 40), "subtables": subtables, "flags": rng.choice([1, 2])})
    return {"fam": "bitmap", "id": "gen:%s:%d" % ("cbdt" if color else "ebdt", k), "color": color, "bitDepth": bd, "strikes": strikes, "nglyphs": nglyphs}


def _metrics(kind, h, w, m):
    from fontTools.ttLib.tables.BitmapGlyphMetrics import BigGlyphMetrics, SmallGlyphMetrics

    if kind == "small":
        o = SmallGlyphMetrics()
        o.height, o.width, o.BearingX, o.BearingY, o.Advance = h, w, m[0], m[1], m[2] & 0xFF
    else:
        o = BigGlyphMetrics()
        o.height, o.width, o.horiBearingX, o.horiBearingY, o.horiAdvance = h, w, m[0], m[1], m[2] & 0xFF
        o.vertBearingX, o.vertBearingY, o.vertAdvance = m[3], m[4], m[5] & 0xFF
    return o


def _glyph_data_len(imf, g):
    n = {1: 5, 2: 5, 5: 0, 6: 8, 7: 8, 8: 5 + 1 + 2, 9: 8 + 2, 17: 5 + 4, 18: 8 + 4, 19: 4}[imf]
    if imf in (8, 9):
        return n + 4 * len(g["comps"])
    return n + len(g["hex"]) // 2


def build_bitmap(spec):
    """The locator / data table pair is built directly in the object model (as fromXML would leave it)."""
    from fontTools.ttLib import newTable
    from fontTools.ttLib.tables import E_B_L_C_ as LOC, E_B_D_T_ as DAT, C_B_D_T_ as CDAT

    names = [".notdef"] + ["b%d" % i for i in range(1, spec["nglyphs"])]
    font = _base_font(names)
    loc, dat = ("CBLC", "CBDT") if spec["color"] else ("EBLC", "EBDT")
    L, D = newTable(loc), newTable(dat)
    L.version = D.version = 3.0 if spec["color"] else 2.0
    L.strikes, D.strikeData = [], []
    for st in spec["strikes"]:
        strike = LOC.Strike()
        t = strike.bitmapSizeTable
        for d in ("hori", "vert"):
            m = LOC.SbitLineMetrics()
            (m.ascender, m.descender, m.widthMax, m.caretSlopeNumerator, m.caretSlopeDenominator, m.caretOffset, m.minOriginSB, m.minAdvanceSB,
             m.maxBeforeBL, m.minAfterBL, m.pad1, m.pad2) = (7, -2, 17, 1, 0, 0, -1, 0, 7, -2, 0, 0)
            setattr(t, d, m)
        t.colorRef, t.startGlyphIndex, t.endGlyphIndex, t.ppemX, t.ppemY, t.bitDepth, t.flags = 0, 0, 0, st["ppem"], st["ppem"], st["bitDepth"], st["flags"]
        data = {}
        for sub in st["subtables"]:
            imf, ixf = sub["imageFormat"], sub["indexFormat"]
            gl = sub["glyphs"]
            ist = LOC.eblc_sub_table_classes[ixf](None, None)
            ist.indexFormat, ist.imageFormat = ixf, imf
            ist.firstGlyphIndex, ist.lastGlyphIndex = gl[0]["gid"], gl[-1]["gid"]
            ist.names = [names[g["gid"]] for g in gl]
            if ixf in (2, 5):
                ist.imageSize = max(_glyph_data_len(imf, g) for g in gl) + sub["pad"]
                ist.metrics = _metrics("big", gl[0]["h"], gl[0]["w"], sub["metrics"])
            strike.indexSubTables.append(ist)
            cls = CDAT.cbdt_bitmap_classes[imf] if imf in (17, 18, 19) else DAT.ebdt_bitmap_classes[imf]
            for g in gl:
                o = cls(None, None)
                if imf in SMALL:
                    o.metrics = _metrics("small", g["h"], g["w"], sub["metrics"])
                elif imf in BIG:
                    o.metrics = _metrics("big", g["h"], g["w"], sub["metrics"])
                if imf in (8, 9):
                    o.componentArray = []
                    for c in g["comps"]:
                        e = DAT.EbdtComponent()
                        e.name, e.xOffset, e.yOffset = names[c[0]], c[1], c[2]
                        o.componentArray.append(e)
                else:
                    o.imageData = bytes.fromhex(g["hex"])
                data[names[g["gid"]]] = o
        L.strikes.append(strike)
        D.strikeData.append(data)
    font[loc], font[dat] = L, D
    return _save(font)


def bitmap_classes(spec):
    out = set()
    for st in spec["strikes"]:
        for sub in st["subtables"]:
            out.add((st["bitDepth"], sub["imageFormat"], sub["indexFormat"]))
    return out


BUILDERS = {"names": build_names, "prog": build_prog, "bitmap": build_bitmap}


def build(spec):
    logging.disable(logging.CRITICAL)
    return BUILDERS[spec["fam"]](spec)


def specs(rng, thorough):
    """The generated fonts of a run with the dump configurations that matter to each family."""
    out = []
    n_names, n_prog, n_rand_bitmap, n_color = (60, 80, 40, 12) if thorough else (22, 26, 10, 4)
    for k in range(n_names):
        out.append(names_spec(rng, k))
    for k in range(n_prog):
        out.append(prog_spec(rng, k))
    # every (bitDepth, image format, index format) class at least once, then random mixtures
    k = 0
    for bd in (1, 2, 4, 8):
        for imf in (1, 2, 5, 6, 7, 8, 9):
            for ixf in (1, 2, 3, 4, 5):
                if imf == 5 and ixf not in (2, 5):
                    continue
                if imf in (8, 9) and bd != 1 and not thorough:
                    continue  # component glyphs carry no pixels: one bit depth is enough in the quick tier
                out.append(bitmap_spec(rng, k, forced=(bd, imf, ixf)))
                k += 1
    for _ in range(n_rand_bitmap):
        out.append(bitmap_spec(rng, k))
        k += 1
    for j in range(n_color):
        out.append(bitmap_spec(rng, j, color=True))
    return out
