"""C04 — every saved file is a valid container with consistent derived fields.

(M) MC_SfntWriter / MC_SfntWriterTTC: the writer state machine keeps the container
    predicates for every write order / payload / TTC sharing pattern within small constants.
(V) files written by the real library (corpus fonts, compiled TTX fonts, generated fonts) in
    every flavour / reorder / padding / TTC-sharing configuration are read back by the
    independent reader and judged by TLC (Trace_C04) with the same predicates plus the
    derived-field recomputations."""
import io
import struct
import logging
import os
import random

from . import audit, common, fonts
from . import rawsfnt as R
from .common import MachineryError

LEVEL = "model_checking"


def _quiet():
    logging.disable(logging.CRITICAL)


def _save(font, **kw):
    buf = io.BytesIO()
    font.save(buf, **kw)
    return buf.getvalue()


def _record(data, label, scen, derived=False, rng=None):
    rec = audit.container_record(data)
    c = rec.pop("_container")
    rec["what"] = "container"
    rec["label"] = label
    rec["scen"] = scen
    rec["hasDerived"] = False
    rec["derivedError"] = ""
    if derived:
        try:
            d = audit.derived_record(c, rng=rng)
        except (struct.error, IndexError, ValueError, KeyError, R.RawError) as e:
            # the independent reader cannot parse a table of the written file: a verdict for TLC, not a harness crash
            d = None
            rec["derivedError"] = "%s: %s" % (type(e).__name__, str(e)[:80])
        if d is not None and d.get("flavor") == "glyf" and "glyphs" in d:
            d["hasLoca"] = "loca" in d
            d["hasHhea"] = "hhea" in d
            d["hasVhea"] = "vhea" in d
            rec["derived"] = d
            rec["hasDerived"] = True
    return rec, c


def job_passthrough(args):
    path, idx, seed, thorough = args
    from fontTools.ttLib import TTFont

    _quiet()
    rng = random.Random("%s-%d-%d" % (path, idx, seed))
    out = []
    combos = [(fl, ro) for fl in (None, "woff", "woff2") for ro in (True, False, None)]
    if not thorough:
        combos = [(None, True), (None, False)] + rng.sample(combos[2:], 2)
    for fl, ro in combos:
        label = "%s#%d" % (common.rel(path), idx)
        scen = {"op": "passthrough", "flavor": fl or "sfnt", "reorder": str(ro)}
        try:
            f = TTFont(path, fontNumber=idx, lazy=rng.choice([None, True, False]), recalcTimestamp=False)
            f.flavor = fl
            data = _save(f, reorderTables=ro)
        except Exception as e:
            out.append({"skip": "save failed (%s): %s" % (scen["op"], type(e).__name__), "label": label})
            continue
        rec, _c = _record(data, label, scen)
        out.append(rec)
    return out


def _edit_glyf(f, rng):
    """A benign edit that forces every derived field to be recomputed from new data."""
    glyf = f["glyf"]
    hmtx = f["hmtx"]
    names = [n for n in f.getGlyphOrder() if glyf[n].numberOfContours > 0]
    if names:
        n = rng.choice(names)
        g = glyf[n]
        dx, dy = rng.randint(-400, 400), rng.randint(-400, 400)
        k = rng.randrange(len(g.coordinates))
        x, y = g.coordinates[k]
        g.coordinates[k] = (max(-16000, min(16000, x + dx)), max(-16000, min(16000, y + dy)))
        adv, lsb = hmtx[n]
        hmtx[n] = (min(65535, adv + rng.randint(0, 300)), lsb + rng.randint(-50, 50))


def job_recalc(args):
    kind, src, seed, thorough = args
    from fontTools.ttLib import TTFont

    _quiet()
    rng = random.Random("%s-%d" % (src if isinstance(src, str) else kind, seed))
    out = []
    label = common.rel(src) if kind == "path" else src[0]
    pads = [0, 1, 2, 4] if thorough else [0, rng.choice([1, 2, 4])]  # 0 = unpadded glyph records (odd offsets force long loca)
    flavors = [None, "woff", "woff2"] if thorough else [None, rng.choice(["woff", "woff2"])]
    for pad in pads:
        for fl in flavors:
            scen = {"op": "recalc", "flavor": fl or "sfnt", "padding": pad}
            try:
                if kind == "path":
                    f = TTFont(src, recalcBBoxes=True, recalcTimestamp=False)
                else:
                    f = TTFont(io.BytesIO(src[1]), recalcBBoxes=True, recalcTimestamp=False)
                if "glyf" not in f:
                    return out
                f.ensureDecompiled()
                _edit_glyf(f, rng)
                f["glyf"].padding = pad
                f.flavor = fl
                data = _save(f)
            except Exception as e:
                out.append({"skip": "save failed (recalc): %s" % type(e).__name__, "label": label})
                continue
            rec, _c = _record(data, label, scen, derived=True, rng=rng)
            out.append(rec)
    return out


def job_synth(args):
    i, seed, thorough = args
    _quiet()
    rng = random.Random("synth-%d-%d" % (i, seed))
    out = []
    f = fonts.synthetic_glyf_font(rng, nglyphs=rng.randint(3, 14), max_depth=rng.randint(1, 4))
    label = "synthetic#%d" % i
    f.recalcBBoxes = True
    f.recalcTimestamp = False
    # private tables whose zlib stream is one byte shorter than / exactly as long as / one byte longer than the table:
    # the WOFF "store uncompressed unless strictly smaller" decision sits exactly there
    import zlib
    from fontTools.ttLib import newTable

    want = {-1: None, 0: None, 1: None}
    for n in range(6, 40):
        for pat in (bytes([0, 64]), bytes([7]), bytes([1, 2, 3]), bytes([0, 0, 0, 9])):
            payload = (pat * n)[:n]
            d = len(zlib.compress(payload, 6)) - len(payload)
            if d in want and want[d] is None:
                want[d] = payload
    for k, (d, payload) in enumerate(sorted(want.items())):
        if payload is not None:
            t = newTable("zz%02d" % k)
            t.data = payload
            f["zz%02d" % k] = t
    for pad in ([0, 1, 2, 4] if thorough else [0, rng.choice([1, 2, 4])]):
        for fl in (None, "woff", "woff2"):
            try:
                f["glyf"].padding = pad
                f.flavor = fl
                data = _save(f)
            except Exception as e:
                out.append({"skip": "save failed (synthetic): %s" % type(e).__name__, "label": label})
                continue
            rec, _c = _record(data, label, {"op": "synthetic", "flavor": fl or "sfnt", "padding": pad}, derived=True, rng=rng)
            out.append(rec)
    return out


def _mask_head(b, bogus=False):
    b = bytearray(b)
    b[8:12] = b"\0\0\0\0"  # checkSumAdjustment
    b[16] &= ~0x08  # flags bit 11 (lossless-compression marker set by WOFF2)
    # named deviation: head.decompile re-bases timestamps earlier than 1970 as Unix timestamps
    # ("timestamp seems very low"); WOFF2 saving decodes head.  Such timestamps are bogus by the
    # library's documented design, so they are not compared (bogus = before 1970 on either side)
    import struct

    for off in (20, 28):
        (v,) = struct.unpack(">Q", b[off : off + 8])
        if bogus:
            b[off : off + 8] = b"\0" * 8
    return bytes(b)


def job_neutral(args):
    path, idx, seed = args
    from fontTools.ttLib import TTFont
    from . import rawsfnt as R

    _quiet()
    if isinstance(path, tuple):  # ("synthetic", i): a generated font, saved once as plain sfnt to serve as the source file
        rs = random.Random("synth-neutral-%d-%d" % (path[1], seed))
        sf = fonts.synthetic_glyf_font(rs, nglyphs=rs.randint(4, 12), max_depth=rs.randint(1, 3))
        sf.recalcTimestamp = False
        label = "synthetic-neutral#%d" % path[1]
        path = io.BytesIO(_save(sf))
    else:
        label = "%s#%d" % (common.rel(path), idx)
    out = []
    datas = {}
    for fl in (None, "woff", "woff2"):
        try:
            if hasattr(path, "seek"):
                path.seek(0)
            f = TTFont(path, fontNumber=idx, recalcTimestamp=False)
            f.flavor = fl
            datas[fl] = _save(f)
        except Exception as e:
            out.append({"skip": "save failed (neutral): %s" % type(e).__name__, "label": label})
            return out
    intern = common.Interner()

    import struct

    hd = R.parse(datas[None]).fonts[0].tables.get(b"head", b"")
    bogus = len(hd) >= 36 and any((struct.unpack(">Q", hd[o : o + 8])[0] & 0xFFFFFFFF) < 0x7C25B080 for o in (20, 28))

    def content(data, kind):
        c = R.parse(data)
        t = dict(c.fonts[0].tables)
        res = {}
        gl = None
        if kind == "woff2" and getattr(c, "woff2_transformed", None):
            gl, _info = R.woff2_glyf_glyphs(c.woff2_transformed[b"glyf"])
        for tag, d in t.items():
            if tag == b"head":
                d = _mask_head(d, bogus)
            res[tag] = intern(("bytes", d))
        return res, gl, t

    base, _g, bt = content(datas[None], "sfnt")
    for fl in ("woff", "woff2"):
        names = sorted(base)
        try:
            other, gl, ot = content(datas[fl], fl)
        except (struct.error, IndexError, ValueError, KeyError, R.RawError):
            # the independent reader cannot read the flavoured file at all: no table content is preserved
            out.append({"what": "neutral", "label": label, "flavor": fl, "tagsBase": [list(n) for n in names], "tagsOther": [],
                        "idsBase": [base[n] for n in names], "idsOther": [-1 for _ in names], "names": [n.decode("latin-1") for n in names]})
            continue
        if fl == "woff2":
            names = [n for n in names if n != b"DSIG"]
            if gl is not None:
                # compare glyph content: points, flags (on-curve), end points, instructions, components
                head = R.parse_head(bt[b"head"])
                maxp = R.parse_maxp(bt[b"maxp"])
                loca = R.parse_loca(bt[b"loca"], head["indexToLocFormat"], maxp["numGlyphs"])
                bg = R.parse_glyf(bt[b"glyf"], loca)
                cid_b = intern(("glyphs", repr(audit.glyph_content(bg))))
                cid_o = intern(("glyphs", repr(audit.glyph_content(gl))))
                base2 = dict(base)
                other = dict(other)
                base2[b"glyf"], other[b"glyf"] = cid_b, cid_o
                base2[b"loca"] = other[b"loca"] = 0
            else:
                base2 = base
        else:
            base2 = base
        onames = sorted(other)
        out.append({"what": "neutral", "label": label, "flavor": fl,
                    "tagsBase": [list(n) for n in names], "tagsOther": [list(n) for n in onames],
                    "idsBase": [base2[n] for n in names], "idsOther": [other.get(n, -1) for n in names],
                    "names": [n.decode("latin-1") for n in names]})
    return out


def job_ttc(args):
    paths, share, seed = args
    from fontTools.ttLib import TTFont, TTCollection

    _quiet()
    label = "ttc(" + ",".join(os.path.basename(p) for p in paths) + ")"
    try:
        ttc = TTCollection()
        ttc.fonts = [TTFont(p, recalcTimestamp=False) for p in paths]
        buf = io.BytesIO()
        ttc.save(buf, shareTables=share)
        data = buf.getvalue()
    except Exception as e:
        return [{"skip": "ttc save failed: %s" % type(e).__name__, "label": label}]
    rec, _c = _record(data, label, {"op": "ttc", "share": share, "n": len(paths)})
    return [rec]


def run(chk):
    thorough = chk.tier == "thorough"
    chk.rule = ("one case = one file written by the real library under a (font, operation, flavour, reorder, padding, sharing) "
                "configuration, read back by the independent reader; distinct by content digest of the written file; "
                "non-trivial = at least 4 tables")
    r1 = chk.tlc("MC_SfntWriter", cfg="MC_SfntWriter", label="writer machine sfnt/woff", timeout=900)
    r2 = chk.tlc("MC_SfntWriter", cfg="MC_SfntWriterTTC", label="writer machine TTC sharing", timeout=900)
    chk.log("writer machine: %d + %d states" % (r1.distinct, r2.distinct))

    bins = fonts.binaries()
    members = [(p, i) for p in bins for i in range(fonts.num_fonts_in(p))]
    seed = chk.seed
    rng = chk.rng
    # ---- passthrough saves of every corpus binary
    sel = members if thorough else members
    jobs = [(p, i, seed, thorough) for p, i in sel]
    res = common.pmap(job_passthrough, jobs)
    records = [r for rs in res for r in rs]
    # ---- recompute-derived-fields saves (glyf fonts: binaries + compiled TTX + generated)
    ttx = fonts.whole_font_ttx()
    if not thorough:
        rng.shuffle(ttx)
        ttx = ttx[:60]
    compiled = fonts.compiled_ttx_fonts(ttx)
    chk.notes["ttx_compiled"] = len(compiled)
    glyf_bins = [p for p in bins if fonts.num_fonts_in(p) == 1 and p.lower().endswith((".ttf", ".woff", ".woff2"))]
    jobs = [("path", p, seed, thorough) for p in glyf_bins] + [("bytes", (common.rel(p), b), seed, thorough) for p, b in compiled]
    res = common.pmap(job_recalc, jobs)
    records += [r for rs in res for r in rs]
    nsynth = 400 if thorough else 80
    res = common.pmap(job_synth, [(i, seed, thorough) for i in range(nsynth)])
    records += [r for rs in res for r in rs]
    # ---- flavour neutrality
    nsel = members if thorough else rng.sample(members, min(70, len(members)))
    res = common.pmap(job_neutral, [(p, i, seed) for p, i in nsel] + [(("synthetic", k), 0, seed) for k in range(60 if thorough else 24)])
    records += [r for rs in res for r in rs]
    # ---- collections
    singles = [p for p in bins if fonts.num_fonts_in(p) == 1 and p.lower().endswith((".ttf", ".otf"))]
    jobs = []
    for k in range(60 if thorough else 16):
        n = rng.choice([2, 2, 3])
        a = rng.choice(singles)
        grp = [a] + [rng.choice(singles) for _ in range(n - 1)]
        if rng.random() < 0.6:
            grp[-1] = a  # identical member -> every table shareable
        jobs.append((grp, rng.random() < 0.7, seed))
    res = common.pmap(job_ttc, jobs)
    records += [r for rs in res for r in rs]

    traces = []
    for r in records:
        if "skip" in r:
            chk.skip(r["skip"])
            continue
        traces.append(r)
    chk.count(len(traces))
    for t in traces:
        if t["what"] == "container":
            nt = sum(len(f["dir"]) for f in t["fonts"])
            if nt >= 4:
                chk.nontriv(common.digest([t["label"], t["scen"], t["fileLen"], t["fonts"]]))
        else:
            chk.nontriv(common.digest([t["label"], t["flavor"]]))
    kinds = {}
    for t in traces:
        k = t["what"] + ":" + (t.get("kind") or t.get("flavor")) + (":derived" if t.get("hasDerived") else "")
        kinds[k] = kinds.get(k, 0) + 1
    chk.notes["files_by_kind"] = kinds
    for t in traces[:3]:
        s = {k: v for k, v in t.items() if k in ("label", "scen", "kind", "fileLen", "what")}
        s["dir"] = [{"tag": bytes(e["tag"]).decode("latin-1"), **{k: e.get(k) for k in ("off", "len", "cs")}} for e in t["fonts"][0]["dir"][:6]] if t["what"] == "container" else None
        chk.sample(s)
    chk.log("judging %d written files (%s)" % (len(traces), kinds))
    rej = chk.judge("Trace_C04", traces, chunk=400, timeout=1500)
    for t, clause in rej:
        clause = clause[0] if clause else "?"
        chk.reject(clause + "@" + str(t.get("scen", {}).get("op", t.get("flavor"))), "%s on %s %s" % (clause, t["label"], t.get("scen", t.get("flavor"))),
                   {"label": t["label"], "scen": t.get("scen"), "clause": clause})
    chk.assumptions += [
        "word sums over table payloads are computed by the independent reader (harness/rawsfnt.py); TLC checks every relation between them and the stored fields",
        "derived glyf fields are judged on saves where the library recomputes them (tables decompiled, recalcBBoxes=True); composite boxes only when all components are untransformed XY offsets",
        "CFF-flavoured fonts are judged on the container clauses only",
    ]


def replay(chk, rep):
    run(chk)
