"""C05 -- glyph outlines and advances reported are the font's true ones.

(M) MC_GlyfSem: the reference evaluator's own laws on small universes (implied on-curve points,
    IUP of a fully specified delta set is the identity, loc = default gives the default outline,
    clamping outside the axis range, a composite of an identity-transformed component equals the
    component, flattening is associative over nesting, named deviations differ from the spec).
(R) model fonts (harness/c05_models.py) realised with FontBuilder: every component-flag
    combination, nesting, point sets, corner/intermediate regions, avar, HVAR, CFF2 blends; drawn
    through TTFont.getGlyphSet(location=...) at EVERY location of the quarter lattice (per axis:
    min, default, max, quarter points, avar knots, out-of-range), plus seeded random F2Dot14
    locations.
(V) corpus: every glyph (quick: a seeded sample per font) of every TrueType / CFF / CFF2 font
    (binaries and compiled whole-font TTX) at the default location and, for variable fonts, at axis
    extremes, tent peaks, quarter points between default and each peak, avar knots and
    out-of-range locations.
Judge: Trace_C05 -- TLC evaluates the reference (GlyfSem / IUP / VarSem / VarStoreSem / T2Sem) on
the RAW table data delivered by the independent readers (rawsfnt, c05_raw) and compares it with
fontTools' recorded pen calls and width; HarfBuzz's draw_glyph / h_advance at the same location
only triage.  Python drives the real code, records, and converts floats to the 1/1024 grid."""
import io
import json
import logging
import os
import random
import re
import struct
import time
from fractions import Fraction as Fr

from . import common
from .common import MachineryError

LEVEL = "model_checking"
K = 1024
TLC_WORKERS = 12
JAVA_ENV = {"JAVA_TOOL_OPTIONS": "-Xss64m -XX:ParallelGCThreads=6"}
MAXI = 2**31 - 1

MOVE, LINE, CURVE, QCURVE, QBLOB, CLOSE, END, COMP = 1, 2, 3, 4, 5, 6, 7, 8
FT_OPS = {"moveTo": MOVE, "lineTo": LINE, "curveTo": CURVE, "qCurveTo": QCURVE, "closePath": CLOSE, "endPath": END}

KEY_OF = {
    "ft:raised:point-matched": "glyf:point-matched-component-raises",
    "ft:outline:dev:scaled": "glyf:scaled-component-offset-ignored",
    "ft:outline:dev:cshift": "glyf:composite-lsb-shift-missing",
}


class Skip(Exception):
    pass


def qv(v):
    r = int(round(v * K))
    if abs(r) > MAXI:
        raise Skip("observed coordinate beyond 31 bits on the 1/%d grid" % K)
    return r


def flat(pts):
    out = []
    for x, y in pts:
        out += [qv(x), qv(y)]
    return out


def enc_ft_calls(value):
    calls = []
    for op, args in value:
        if op == "qCurveTo" and args and args[-1] is None:
            calls.append([QBLOB] + flat(args[:-1]))
        elif op in ("closePath", "endPath"):
            calls.append([FT_OPS[op]])
        elif op == "addComponent":
            calls.append([COMP, 0, 0, 0, 0, 0, 0, 0])
        else:
            calls.append([FT_OPS[op]] + flat(args))
    return calls


def enc_hb_calls(ops):
    calls = []
    for op, c in ops:
        if op == "M":
            calls.append([MOVE, qv(c[0]), qv(c[1])])
        elif op == "L":
            calls.append([LINE, qv(c[0]), qv(c[1])])
        elif op == "Q":
            calls.append([QCURVE] + [qv(v) for v in c])
        elif op == "C":
            calls.append([CURVE] + [qv(v) for v in c])
        elif op == "Z":
            calls.append([CLOSE])
    # HarfBuzz closes every contour; tolerate a missing final Z
    if calls and calls[-1][0] != CLOSE:
        calls.append([CLOSE])
    return calls


def fr_pair(f):
    f = Fr(f)
    if abs(f.numerator) > MAXI or f.denominator > MAXI:
        raise Skip("location beyond 31 bits")
    return [f.numerator, f.denominator]


# --------------------------------------------------------------------------------------
# raw font data -> the records of GlyfSem
class RawFont:
    """everything the judge needs, read from the bytes WITHOUT fontTools"""

    def __init__(self, data, index=0):
        from . import rawsfnt, c05_raw

        c = rawsfnt.parse(data)
        self.rf = rf = c.fonts[index]
        T = rf.tables
        self.tables = T
        self.head = rawsfnt.parse_head(T[b"head"])
        self.glyphDataFormat = struct.unpack(">h", T[b"head"][52:54])[0]
        self.maxp = rawsfnt.parse_maxp(T[b"maxp"])
        self.numGlyphs = self.maxp["numGlyphs"]
        hhea = rawsfnt.parse_hhea(T[b"hhea"])
        self.hmtx, _ = rawsfnt.parse_hmtx(T[b"hmtx"], hhea["numberOfMetrics"], self.numGlyphs)
        self.glyphs = None
        if b"glyf" in T and b"loca" in T:
            loca = rawsfnt.parse_loca(T[b"loca"], self.head["indexToLocFormat"], self.numGlyphs)
            self.glyf_len = [loca[i + 1] - loca[i] for i in range(self.numGlyphs)]
            self.glyphs = rawsfnt.parse_glyf(T[b"glyf"], loca[: self.numGlyphs + 1])
        self.axes = c05_raw.parse_fvar(T[b"fvar"]) if b"fvar" in T else []
        self.avar = None
        self.avar_major = 0
        if b"avar" in T and self.axes:
            av = c05_raw.parse_avar(T[b"avar"])
            self.avar_major = av["major"]
            self.avar = av["segments"]
        self.gvar = c05_raw.Gvar(T[b"gvar"]) if (b"gvar" in T and self.axes) else None
        self.hvar = c05_raw.parse_hvar(T[b"HVAR"]) if (b"HVAR" in T and self.axes) else None

    # -- per-font constant parts of the F record
    def font_part(self):
        hv = {"has": 0, "store": {"regions": [], "data": []}, "nomap": 1, "map": []}
        if self.hvar is not None:
            hv = {"has": 1, "store": {"regions": self.hvar["store"]["regions"], "data": self.hvar["store"]["data"]},
                  "nomap": 1 if self.hvar["advmap"] is None else 0, "map": self.hvar["advmap"] or []}
        return {"axes": [[a["min"], a["def"], a["max"]] for a in self.axes],
                "avar": self.avar if self.avar is not None else [], "hvar": hv}

    def npoints(self, gid):
        g = self.glyphs[gid]
        return (len(g["comps"]) if g["nc"] < 0 else len(g["pts"])) + 4

    def closure(self, gid):
        order, seen = [], set()

        def visit(i, depth):
            if i in seen:
                return
            if depth > 12:
                raise Skip("component nesting deeper than 12")
            if i >= self.numGlyphs:
                raise Skip("component glyph id beyond numGlyphs")
            seen.add(i)
            order.append(i)
            for c in self.glyphs[i]["comps"]:
                visit(c["gid"], depth + 1)

        visit(gid, 0)
        return order

    def glyph_record(self, gid, local):
        g = self.glyphs[gid]
        if g["nc"] > 0:
            return {"k": "s", "gid": gid, "xMin": g["bbox"][0], "pts": [[x, y, on] for x, y, on in g["pts"]],
                    "ends": list(g["endPts"])}
        if g["nc"] < 0:
            comps = []
            for c in g["comps"]:
                fl = c["rawflags"]
                tr = c["tr"] or []
                if fl & 0x0008:
                    tr = [tr[0]]
                elif fl & 0x0040:
                    tr = [tr[0], tr[3]]
                elif fl & 0x0080:
                    tr = list(tr)
                else:
                    tr = []
                comps.append({"g": local[c["gid"]], "fl": fl, "a1": c["a1"], "a2": c["a2"], "tr": tr})
            return {"k": "c", "gid": gid, "xMin": g["bbox"][0], "comps": comps}
        if self.glyf_len[gid] != 0:
            raise Skip("glyph with numberOfContours = 0 but a header")
        return {"k": "e", "gid": gid}

    def glyf_F(self, gid):
        order = self.closure(gid)
        local = {g: i + 1 for i, g in enumerate(order)}
        F = self.font_part()
        F["glyphs"] = [self.glyph_record(g, local) for g in order]
        F["hmtx"] = [list(self.hmtx[g]) for g in order]
        gv = []
        for g in order:
            tvs = []
            if self.gvar is not None:
                for tv in self.gvar.glyph(g, self.npoints(g)):
                    tvs.append({"peak": tv["peak"], "im": tv["im"], "all": 1 if tv["pn"] is None else 0,
                                "pn": tv["pn"] or [], "dx": tv["dx"], "dy": tv["dy"]})
            gv.append(tvs)
        F["gvar"] = gv
        return F

    def cff_F(self, gid):
        F = self.font_part()
        F["glyphs"] = [{"k": "e", "gid": gid}]
        F["hmtx"] = [list(self.hmtx[gid])]
        F["gvar"] = [[]]
        return F


# --------------------------------------------------------------------------------------
# locations (input generation only: any user-space location is a legal input; TLC normalises)
def inv_pwl(pairs, y):
    """a user of the avar map wants x with map(x) = y; pairs: [(from, to)] increasing.  Input
    generation only."""
    if not pairs:
        return y
    for (a, va), (b, vb) in zip(pairs, pairs[1:]):
        if va <= y <= vb:
            if vb == va:
                return a
            return a + (b - a) * (y - va) / (vb - va)
    return y


def denorm(axis, n):
    """normalised coordinate (before avar) -> user-space value, exactly"""
    mn, df, mx = axis
    if n >= 0:
        return df + n * (mx - df)
    return df + n * (df - mn)


class LocationPlan:
    def __init__(self, raw):
        self.axes = [(Fr(a["min"], 65536), Fr(a["def"], 65536), Fr(a["max"], 65536)) for a in raw.axes]
        self.tags = [a["tag"] for a in raw.axes]
        self.avar = None
        if raw.avar is not None:
            self.avar = [[(Fr(a, 16384), Fr(b, 16384)) for a, b in seg] for seg in raw.avar]

    def user_of_final(self, norm):
        """user-space location whose normalised (post-avar) coordinates are `norm`"""
        out = []
        for i, n in enumerate(norm):
            pre = inv_pwl(self.avar[i], n) if self.avar else n
            out.append(denorm(self.axes[i], pre))
        return out

    def default(self):
        return [a[1] for a in self.axes]

    def lattice(self, peaks, rng, tier, full=False):
        """[(kind, [user value per axis])].  peaks: normalised peak vectors (Fractions) of the regions seen."""
        na = len(self.axes)
        locs = []
        dflt = self.default()
        locs.append(("default-explicit", list(dflt)))
        zero = [Fr(0)] * na
        for i in range(na):
            for n, kind in ((Fr(1), "axis-max"), (Fr(-1), "axis-min")):
                v = list(zero)
                v[i] = n
                locs.append((kind, self.user_of_final(v)))
            mn, df, mx = self.axes[i]
            for val, kind in ((mx + (mx - mn) + 1, "out-of-range-high"), (mn - (mx - mn) - 7, "out-of-range-low")):
                u = list(dflt)
                u[i] = val
                locs.append((kind, u))
            if self.avar and self.avar[i]:
                for a, _b in self.avar[i]:
                    u = list(dflt)
                    u[i] = denorm(self.axes[i], a)
                    locs.append(("avar-knot", u))
                # between two knots, where the result stays on the 2.14 grid if the knots allow it
                for (a, _va), (b, _vb) in zip(self.avar[i], self.avar[i][1:]):
                    u = list(dflt)
                    u[i] = denorm(self.axes[i], (a + b) / 2)
                    locs.append(("avar-between-knots", u))
        if na > 1:
            locs.append(("corner-max", self.user_of_final([Fr(1)] * na)))
            locs.append(("corner-min", self.user_of_final([Fr(-1)] * na)))
        seen = set()
        for pk in peaks:
            if tuple(pk) in seen:
                continue
            seen.add(tuple(pk))
            locs.append(("peak", self.user_of_final(pk)))
            for k in (1, 2, 3):
                locs.append(("quarter-to-peak", self.user_of_final([p * k / 4 for p in pk])))
        if full:
            # every point of the quarter lattice (model fonts)
            import itertools

            grid = [Fr(k, 4) for k in range(-4, 5)]
            for v in itertools.product(grid, repeat=na):
                # quarter lattice of the coordinates BEFORE avar: avar maps of dyadic knots keep them dyadic
                locs.append(("lattice", [denorm(self.axes[i], x) for i, x in enumerate(v)]))
        # seeded random locations whose normalised coordinates are exact F2Dot14 numbers
        nrand = 3 if tier == "quick" else 6
        for _ in range(nrand):
            v = [Fr(rng.randint(-64, 64), 64) if rng.random() < 0.7 else Fr(rng.randint(-16384, 16384), 16384) for _i in range(na)]
            if na > 2:   # many axes: move only a few
                keep = set(rng.sample(range(na), 2))
                v = [x if i in keep else Fr(0) for i, x in enumerate(v)]
            locs.append(("random-f2dot14", [denorm(self.axes[i], x) for i, x in enumerate(v)]))
        # dedupe
        out, have = [], set()
        for kind, u in locs:
            key = tuple(u)
            if key in have:
                continue
            have.add(key)
            out.append((kind, u))
        return out


# --------------------------------------------------------------------------------------
# observers
class Observers:
    def __init__(self, data, index=0):
        from fontTools.ttLib import TTFont
        from . import hb as HB

        self.font = TTFont(io.BytesIO(data), fontNumber=index) if data[:4] == b"ttcf" else TTFont(io.BytesIO(data))
        self.data = data
        self.index = index
        self.order = self.font.getGlyphOrder()
        self.HB = HB
        self._gs = {}
        self._hb = {}
        self.hb_ok = True

    def glyphset(self, lockey, loc):
        if lockey not in self._gs:
            self._gs[lockey] = self.font.getGlyphSet(location=loc)
        return self._gs[lockey]

    def shaper(self, lockey, loc):
        if lockey not in self._hb:
            try:
                self._hb[lockey] = self.HB.Shaper(self.data, variations=loc or None, index=self.index)
            except Exception:
                self._hb[lockey] = None
        return self._hb[lockey]

    def ft(self, gid, lockey, loc):
        from fontTools.pens.recordingPen import DecomposingRecordingPen

        name = self.order[gid]
        try:
            gs = self.glyphset(lockey, loc)
            g = gs[name]
            w0 = g.width
            pen = DecomposingRecordingPen(gs)
            g.draw(pen)
            w = g.width
            wq = qv(w)
            return {"raised": "", "calls": enc_ft_calls(pen.value), "w": [wq, K], "w_before_differs": 1 if w0 != w else 0}
        except Skip:
            raise
        except Exception as e:
            return {"raised": type(e).__name__, "calls": [], "w": [0, 1], "msg": str(e)[:120]}

    def hb(self, gid, lockey, loc):
        sh = self.shaper(lockey, loc)
        if sh is None:
            return {"has": 0, "calls": [], "w": [0, 1]}
        try:
            return {"has": 1, "calls": enc_hb_calls(sh.draw_glyph(gid)), "w": [sh.h_advance(gid), 1]}
        except Skip:
            raise
        except Exception:
            return {"has": 0, "calls": [], "w": [0, 1]}


def loc_dict(tags, u):
    return {t: float(v) for t, v in zip(tags, u)}


# --------------------------------------------------------------------------------------
# traces of one font
def peaks_of(raw, gids):
    """normalised peak vectors of the regions that touch these glyphs (gvar tuples, HVAR regions)"""
    out = []
    if raw.gvar is not None and raw.glyphs is not None:
        for g in gids:
            for tv in raw.gvar.glyph(g, raw.npoints(g)):
                out.append(tuple(Fr(p, 16384) for p in tv["peak"]))
                if tv["im"]:
                    out.append(tuple(Fr(p, 16384) for p in tv["im"][0]))
                    out.append(tuple(Fr(p, 16384) for p in tv["im"][1]))
    if raw.hvar is not None:
        for reg in raw.hvar["store"]["regions"]:
            out.append(tuple(Fr(a[1], 16384) for a in reg))
    return out


def cff_side(font, name, cache):
    """[fmt, prog tokens...] of one charstring via C12's marshalling; returns (cs, D, rgn) or raises Skip"""
    from . import c12

    if "sides" not in cache:
        cache["sides"] = dict(c12.glyph_sides(font))
        tag = c12.cff_tag(font)
        td = font[tag].cff.topDictIndex[0]
        cache["store"] = getattr(td, "VarStore", None)
    sd = cache["sides"].get(name)
    if sd is None:
        raise Skip("charstring missing")
    if not isinstance(sd, dict):
        raise Skip("charstring: " + sd)
    try:
        k = max([c12.prog_bits(sd["p"])] + [c12.prog_bits(q) for q in list(sd["ls"].values()) + list(sd["gs"].values())])
        if k > 16:
            raise Skip("operand finer than 16.16")
        s = c12.exec_sum(sd["p"], sd["ls"], sd["gs"], sd["nls"], sd["ngs"])
        if s * (1 << k) >= c12.OPBASE:
            raise Skip("coordinates exceed 30 bits at the required scale")
        cs = [sd["fmt"], c12.to_tokens(sd["p"], k),
              [[i, c12.to_tokens(q, k)] for i, q in sorted(sd["ls"].items())], sd["nls"],
              [[i, c12.to_tokens(q, k)] for i, q in sorted(sd["gs"].items())], sd["ngs"], list(sd["rg"]), sd["vsi"]]
    except c12.Skip as e:
        raise Skip("charstring: " + str(e))
    rgn = []
    store = cache["store"]
    if sd["fmt"] == "cff2" and store is not None:
        vsi = sd["vsi"]
        # the vsindex operator may sit in the program or in a subroutine it calls (marshalling: which
        # VarData's regions to send; T2Sem itself interprets the operator)
        seen = set()
        for q in [sd["p"]] + list(sd["ls"].values()) + list(sd["gs"].values()):
            for i, tok in enumerate(q):
                if tok == "vsindex":
                    if i == 0 or not isinstance(q[i - 1], int):
                        raise Skip("computed vsindex")
                    seen.add(q[i - 1])
        if len(seen) > 1:
            raise Skip("several vsindex values reachable from one charstring")
        if seen:
            vsi = seen.pop()
        ovs = store.otVarStore
        if vsi >= len(ovs.VarData):
            raise Skip("vsindex beyond the variation store")
        for ri in ovs.VarData[vsi].VarRegionIndex:
            reg = ovs.VarRegionList.Region[ri]
            rgn.append([[int(round(a.StartCoord * 16384)), int(round(a.PeakCoord * 16384)), int(round(a.EndCoord * 16384))]
                        for a in reg.VarRegionAxis])
    return cs, 1 << k, rgn


def font_traces(job):
    """job: dict(label, data, index, tier, seed, cap, full_lattice, kind) -> (traces, skips, notes)"""
    logging.disable(logging.CRITICAL)
    label, data, index = job["label"], job["data"], job.get("index", 0)
    rng = random.Random("c05-%s-%s" % (job["seed"], label))
    skips, notes = {}, {"glyphs": 0, "cases": 0, "w_before_differs": 0}

    def skip(r, n=1):
        skips[r] = skips.get(r, 0) + n

    try:
        raw = RawFont(data, index)
    except Exception as e:
        skip("font not readable by the independent reader (%s)" % type(e).__name__)
        return [], skips, notes
    try:
        obs = Observers(data, index)
    except Exception as e:
        skip("font not loadable by fontTools (%s)" % type(e).__name__)
        return [], skips, notes
    font = obs.font
    is_glyf = raw.glyphs is not None and "glyf" in font and not ("CFF " in font or "CFF2" in font)
    is_cff = ("CFF " in font or "CFF2" in font)
    if not (is_glyf or is_cff):
        skip("font without glyf / CFF outlines")
        return [], skips, notes
    if "VARC" in font:
        skip("font with VARC (variable composites are outside the modelled domain)", raw.numGlyphs)
        return [], skips, notes
    if is_glyf and raw.glyphDataFormat != 0:
        skip("glyf glyphDataFormat != 0 (cubic outlines are outside the OpenType text)", raw.numGlyphs)
        return [], skips, notes
    n = min(raw.numGlyphs, len(obs.order))
    gids = list(range(n))
    cap = job.get("cap") if (raw.axes or is_glyf) else job.get("cap_static", job.get("cap"))
    if cap is not None and n > cap:
        gids = sorted([0] + rng.sample(range(1, n), cap - 1))
        skip("glyph not in this tier's sample of a big font", n - len(gids))
    variable = bool(raw.axes) and "fvar" in font
    var_ok = variable
    if variable and raw.avar_major >= 2:
        skip("avar version 2: variation locations outside the modelled domain (default location judged)")
        var_ok = False
    plan = LocationPlan(raw) if variable else None
    tags = plan.tags if variable else []
    cff_cache = {}
    # locations are per font for CFF2 / HVAR-only, per glyph (its own tent peaks) for gvar
    traces = []
    for gid in gids:
        name = obs.order[gid]
        try:
            if is_glyf:
                if raw.glyphs[gid]["nc"] > 0 and any(f & 0x80 for f in getattr(font["glyf"][name], "flags", b"")):
                    raise Skip("cubic off-curve flags")
                F = raw.glyf_F(gid)
                t = {"kind": "glyf", "F": F, "gi": 1, "K": K}
                pk_gids = [g["gid"] for g in F["glyphs"]]
            else:
                cs, D, rgn = cff_side(font, name, cff_cache)
                t = {"kind": "cff", "F": raw.cff_F(gid), "gi": 1, "K": K, "cs": cs, "D": D, "rgn": rgn}
                pk_gids = []
        except Skip as e:
            skip("glyph outside the modelled domain: %s" % e)
            continue
        except Exception as e:
            skip("glyph not readable by the independent reader (%s)" % type(e).__name__)
            continue
        locs = [("no-location", None)]
        if var_ok:
            peaks = peaks_of(raw, pk_gids) if is_glyf else []
            if not is_glyf:
                peaks = [tuple(Fr(a[1], 16384) for a in r) for r in t["rgn"]]
                if raw.hvar is not None:
                    peaks += [tuple(Fr(a[1], 16384) for a in reg) for reg in raw.hvar["store"]["regions"]]
            locs += plan.lattice(peaks, rng, job["tier"], full=job.get("full_lattice", False))
            maxloc = job.get("maxloc")
            if maxloc and len(locs) > maxloc:
                head = [l for l in locs if l[0] in ("no-location", "default-explicit")]
                rest = [l for l in locs if l[0] not in ("no-location", "default-explicit")]
                # one location of every kind first, then a seeded sample of the rest
                first, seen_kinds = [], set()
                order = list(rest)
                rng.shuffle(order)
                for l in order:
                    if l[0] not in seen_kinds:
                        seen_kinds.add(l[0])
                        first.append(l)
                others = [l for l in order if l not in first]
                locs = (head + first + others)[:max(maxloc, len(head))]
        cases = []
        for kind, u in locs:
            try:
                if u is None:
                    lockey, loc, jl = None, None, []
                else:
                    jl = [fr_pair(v) for v in u]
                    loc = loc_dict(tags, u)
                    lockey = tuple(u)
                ft = obs.ft(gid, lockey, loc)
                hbr = obs.hb(gid, lockey, loc)
            except Skip as e:
                skip("case outside the modelled domain: %s" % e)
                continue
            notes["w_before_differs"] += ft.pop("w_before_differs", 0)
            cases.append({"loc": jl, "ft": ft, "hb": hbr, "lk": kind})
        if not cases:
            continue
        t["cases"] = cases
        t["meta"] = {"font": label, "glyph": name, "gid": gid, "index": index, "seed": job["seed"]}
        traces.append(t)
        notes["glyphs"] += 1
        notes["cases"] += len(cases)
    return traces, skips, notes


# --------------------------------------------------------------------------------------
# judging
NO_HB = {"has": 0, "calls": [], "w": [0, 1]}
HB_EVERY = 3   # HarfBuzz's observation is sent to TLC for every 3rd case (anomaly statistics, corroboration
               # of the reference) and, in a second pass, for every case fontTools fails (triage)


def slim(t, hb_all=False, only=None):
    cases = []
    for i, c in enumerate(t["cases"]):
        if only is not None and i not in only:
            continue
        send = hb_all or (i % HB_EVERY == 0)
        cases.append({"loc": c["loc"], "ft": {"raised": c["ft"]["raised"], "calls": c["ft"]["calls"], "w": c["ft"]["w"]},
                      "hb": c["hb"] if send else NO_HB})
    out = {"kind": t["kind"], "F": t["F"], "gi": t["gi"], "K": t["K"], "cases": cases}
    if t["kind"] == "cff":
        out.update({"cs": t["cs"], "D": t["D"], "rgn": t["rgn"]})
    return out


def tlc_retry(chk, module, **kw):
    last = None
    for attempt in (1, 2):
        r = chk.tlc(module, expect_ok=False, **kw)
        if r.ok:
            return r
        lines = [l for l in r.stdout.splitlines() if not l.startswith("<<")]
        bad = [i for i, l in enumerate(lines) if "rror" in l or "xception" in l]
        last = "\n".join(lines[i] for j in bad[:6] for i in range(j, min(j + 4, len(lines))))
        chk.log("TLC run of %s failed (attempt %d, exit %s): %s" % (module, attempt, r.exit, last[:900]))
    raise MachineryError("TLC failed twice on %s: %s" % (module, (last or "")[:1500]))


def trace_weight(t):
    w = 0
    for c in t["cases"]:
        w += 20 + len(c["ft"]["calls"]) + len(c["hb"]["calls"])
    return w


def judge_all(chk, traces, what, stats, hb_all=False):
    """send traces to TLC in chunks of bounded weight; account verdicts"""
    if not traces:
        return
    t0 = time.time()
    chunks, cur, wcur = [], [], 0
    for t in traces:
        w = trace_weight(t)
        if cur and (wcur + w > 60000 or len(cur) >= 1500):
            chunks.append(cur)
            cur, wcur = [], 0
        cur.append(t)
        wcur += w
    if cur:
        chunks.append(cur)
    for part in chunks:
        r = tlc_retry(chk, "Trace_C05", traces=[slim(t, hb_all=hb_all) for t in part], timeout=1700, env=JAVA_ENV,
                      workers=TLC_WORKERS, label="Trace_C05:" + what)
        if r.distinct != 2 * len(part):
            raise MachineryError("Trace_C05 judged %d states for %d traces" % (r.distinct, len(part)))
        got = {}
        for payload in r.rej:
            got.setdefault(payload[0], []).append(payload[1])
        verdicts = []
        for tid, t in enumerate(part, 1):
            per_case = {}
            for cl in got.get(tid, []):
                m = re.match(r"^(\d+):(.*)$", cl)
                if not m:
                    raise MachineryError("unparsable verdict %r" % cl)
                per_case.setdefault(int(m.group(1)), []).append(m.group(2))
            verdicts.append(per_case)
        # second pass (triage): cases fontTools fails for an unnamed reason are re-judged WITH HarfBuzz's observation
        again = []
        for t, per_case in zip(part, verdicts):
            idx = [ci - 1 for ci, cls in per_case.items()
                   if ci > 0 and any(x in ("ft:outline", "ft:advance") for x in cls) and (ci - 1) % HB_EVERY != 0
                   and t["cases"][ci - 1]["hb"]["has"] == 1]
            if idx:
                again.append((t, per_case, sorted(idx)))
        if again and not hb_all:
            r2 = tlc_retry(chk, "Trace_C05", traces=[slim(t, hb_all=True, only=set(idx)) for t, _pc, idx in again], timeout=1700,
                           env=JAVA_ENV, workers=TLC_WORKERS, label="Trace_C05:" + what + ":triage")
            got2 = {}
            for payload in r2.rej:
                got2.setdefault(payload[0], []).append(payload[1])
            for k, (t, per_case, idx) in enumerate(again, 1):
                fresh = {}
                for cl in got2.get(k, []):
                    m = re.match(r"^(\d+):(.*)$", cl)
                    fresh.setdefault(int(m.group(1)), []).append(m.group(2))
                for pos, ci0 in enumerate(idx, 1):
                    per_case[ci0 + 1] = fresh.get(pos, [])
        for tid, (t, per_case) in enumerate(zip(part, verdicts), 1):
            if 0 in per_case:
                for cl in per_case[0]:
                    if cl.startswith("skip:"):
                        chk.skip("glyph outside the modelled domain (%s)" % cl[5:], len(t["cases"]))
                        stats["skip"] += len(t["cases"])
                    else:
                        raise MachineryError("malformed trace (%s): %s" % (cl, json.dumps(t["meta"])))
                continue
            trace_ok = True
            for ci, c in enumerate(t["cases"], 1):
                cls = per_case.get(ci, [])
                stats["cases"] += 1
                bad = [x for x in cls if x.startswith("ft:")]
                orc = [x for x in cls if x.startswith("oracle:")]
                hbs = [x for x in cls if x.startswith("hb:")]
                sk = [x for x in cls if x.startswith("skip:")]
                mal = [x for x in cls if x.startswith("malformed")]
                if mal:
                    raise MachineryError("malformed case (%s): %s" % (mal, json.dumps(t["meta"])))
                if sk:
                    chk.skip("case outside the modelled domain (%s)" % sk[0][5:])
                    stats["skip"] += 1
                    trace_ok = False
                    continue
                for x in hbs:
                    stats["hb_anomaly"][x] = stats["hb_anomaly"].get(x, 0) + 1
                    if len(stats["hb_samples"]) < 8:
                        stats["hb_samples"].append({"clause": x, "meta": t["meta"], "loc": c["loc"], "lk": c["lk"]})
                if orc:
                    stats["oracle"].append({"clauses": orc, "meta": t["meta"], "loc": c["loc"], "lk": c["lk"]})
                    trace_ok = False
                if bad:
                    trace_ok = False
                    for x in bad:
                        key = KEY_OF.get(x)
                        if key is None and x == "ft:outline:dev:cshift+scaled":
                            keys = [KEY_OF["ft:outline:dev:cshift"], KEY_OF["ft:outline:dev:scaled"]]
                        elif key is None:
                            keys = ["%s:%s" % (t["kind"], x[3:])]
                        else:
                            keys = [key]
                        for key in keys:
                            chk.reject(key, "%s: %s at %s location %s of %s" % (what, x, c["lk"], c["loc"], json.dumps(t["meta"])),
                                       {"meta": t["meta"], "clause": x, "loc": c["loc"], "lk": c["lk"],
                                        "trace": slim(t, hb_all=True, only={ci - 1})})
                else:
                    if not orc:
                        stats["ok"] += 1
                        stats["by_kind"][c["lk"]] = stats["by_kind"].get(c["lk"], 0) + 1
            if trace_ok:
                chk.traces_validated += 1
    chk.log("%s: %d traces judged in %.1fs" % (what, len(traces), time.time() - t0))


# --------------------------------------------------------------------------------------
def corpus_jobs(chk):
    from . import fonts

    jobs = []
    quick = chk.tier == "quick"
    for p in fonts.binaries():
        if not p.lower().endswith((".ttf", ".otf", ".ttc", ".otc")):
            continue
        with open(p, "rb") as f:
            data = f.read()
        try:
            n = fonts.num_fonts_in(p)
        except Exception:
            n = 1
        for idx in range(n):
            jobs.append({"label": common.rel(p) + ("#%d" % idx if n > 1 else ""), "data": data, "index": idx})
    for p, data in fonts.compiled_ttx_fonts():
        jobs.append({"label": common.rel(p), "data": data, "index": 0})
    for j in jobs:
        j.update({"tier": chk.tier, "seed": chk.seed, "cap": 24 if quick else None, "cap_static": 6 if quick else None,
                  "maxloc": 14 if quick else 40})
    return jobs


def model_jobs(chk):
    from . import c05_models as M

    quick = chk.tier == "quick"
    jobs = []
    rng = chk.rng
    nfonts = 5 if quick else 16
    for i in range(nfonts):
        sub = random.Random("c05-model-%d-%d" % (chk.seed, i))
        if i == 0:
            m = M.build_glyf_model(sub, "model:static-%d" % i, naxes_choice=None, lsb_mismatch=True, ncomp=40)
        else:
            m = M.build_glyf_model(sub, "model:var-%d" % i, naxes_choice=(i - 1) % len(M.AXES_CHOICES),
                                   with_avar=(i % 2 == 0), with_hvar=(i % 3 == 0), lsb_mismatch=(i % 4 != 3))
        jobs.append({"label": m.label, "data": m.data, "index": 0, "tier": chk.tier, "seed": chk.seed,
                     "cap": 22 if quick else None, "full_lattice": True, "maxloc": 16 if quick else 60})
    for i in range(2 if quick else 8):
        sub = random.Random("c05-model-cff2-%d-%d" % (chk.seed, i))
        m = M.build_cff2_model(sub, "model:cff2-%d" % i)
        jobs.append({"label": m.label, "data": m.data, "index": 0, "tier": chk.tier, "seed": chk.seed,
                     "cap": None, "full_lattice": True, "maxloc": 16 if quick else 60})
    return jobs


def gen_jobs(chk):
    """(R) fonts described by TLC: reachable states of MC_GlyfSem's generation universes, realised with
    FontBuilder; the bytes read back by the independent readers must describe the same font"""
    from . import c05_realize as RZ

    r = chk.tlc("MC_GlyfSem", cfg="MC_GlyfSem_gen", label="MC_GlyfSem_gen", timeout=1500, env=JAVA_ENV, workers=4)
    gens = list({payload[0]: json.loads(payload[0]) for payload in r.prints.get("GEN", [])}.values())
    if len(gens) < 1000:
        raise MachineryError("MC_GlyfSem_gen exported only %d font descriptions" % len(gens))
    chk.notes["tlc_generated_fonts"] = len(gens)
    by = {}
    for g in gens:
        by.setdefault(g["u"][0], []).append(g)
    quick = chk.tier == "quick"
    want = {"cp": 24 if quick else 200, "pm": 6 if quick else 80, "gv": 16 if quick else 150}
    rng = random.Random("c05-gen-%d" % chk.seed)
    jobs = []
    for kind in ("cp", "pm", "gv"):
        pool = sorted(by.get(kind, []), key=lambda g: json.dumps(g["u"]))
        pick = pool if len(pool) <= want[kind] else rng.sample(pool, want[kind])
        for g in pick:
            data = RZ.realize(g["F"])
            back = RawFont(data).glyf_F(len(g["F"]["glyphs"]) - 1)
            why = RZ.same_description(g["F"], back)
            if why:
                raise MachineryError("realised font does not read back as described (%s): %s" % (why, json.dumps(g["u"])))
            jobs.append({"label": "tlc:" + "-".join(map(str, [x if not isinstance(x, list) else "".join(map(str, x)) for x in g["u"]])),
                         "data": data, "index": 0, "tier": chk.tier, "seed": chk.seed, "cap": None, "full_lattice": True,
                         "maxloc": 8 if quick else 20})
    return jobs


def run_jobs(chk, jobs, what, stats):
    t0 = time.time()
    res = common.pmap(font_traces, jobs, procs=12)
    traces = []
    for (trs, skips, notes), job in zip(res, jobs):
        traces += trs
        for r, n in skips.items():
            chk.skip(r, n)
        stats["w_before_differs"] += notes.get("w_before_differs", 0)
    # units of at most 6 cases, so that TLC's workers stay evenly loaded
    units = []
    for t in traces:
        if len(t["cases"]) <= 8:
            units.append(t)
        else:
            for k in range(0, len(t["cases"]), 6):
                units.append(dict(t, cases=t["cases"][k:k + 6]))
    traces = units
    ncases = sum(len(t["cases"]) for t in traces)
    chk.count(ncases)
    chk.log("%s: %d fonts -> %d glyph traces, %d cases recorded in %.1fs" % (what, len(jobs), len(traces), ncases, time.time() - t0))
    for t in traces:
        for c in t["cases"]:
            if c["loc"] and t["kind"] == "glyf" and (t["F"]["gvar"][0] or t["F"]["glyphs"][0]["k"] == "c"):
                chk.nontriv((t["meta"]["font"], t["meta"]["gid"], json.dumps(c["loc"])))
            elif c["loc"] and t["kind"] == "cff" and t["rgn"]:
                chk.nontriv((t["meta"]["font"], t["meta"]["gid"], json.dumps(c["loc"])))
            elif not c["loc"] and len(c["ft"]["calls"]) > 0:
                chk.nontriv((t["meta"]["font"], t["meta"]["gid"], "default"))
    for t in traces[:: max(1, len(traces) // 3)][:3]:
        chk.sample({"meta": t["meta"], "kind": t["kind"], "ncases": len(t["cases"]),
                    "case": {k: (v if k != "ft" and k != "hb" else {"calls": v["calls"][:4], "w": v["w"]}) for k, v in t["cases"][-1].items()}})
    judge_all(chk, traces, what, stats)


def run(chk):
    common.bind_repo()
    chk.rule = ("one case = (font, glyph, location): fontTools' decomposed pen calls + width (and HarfBuzz's) judged by TLC "
                "against the GlyfSem/T2Sem reference evaluated on raw table data; distinct by (font, glyph, location); "
                "non-trivial = a non-empty outline at the default location, or a variation location of a glyph that has "
                "gvar tuples / blend regions or is a composite")
    stats = {"cases": 0, "ok": 0, "skip": 0, "hb_anomaly": {}, "hb_samples": [], "oracle": [], "by_kind": {},
             "w_before_differs": 0}
    # (M)
    for cfg in (["MC_GlyfSem"] if chk.tier == "quick" else ["MC_GlyfSem", "MC_GlyfSem_thorough"]):
        r = chk.tlc("MC_GlyfSem", cfg=cfg, label=cfg, timeout=1500, env=JAVA_ENV)
        cov = sorted({p[0] for p in r.prints.get("COV", [])})
        chk.notes.setdefault("mc_cases_fired", {})[cfg] = cov
        chk.log("%s: %d distinct states, laws fired: %s" % (cfg, r.distinct, ", ".join(map(str, cov))))
        need = {"implied-midpoint", "all-off-contour", "inferred-delta", "intermediate-region", "clamped", "point-matching",
                "scaled-offset", "use-my-metrics", "nested", "hvar-map-last-entry", "avar-mapped"}
        if not need <= set(cov):
            raise MachineryError("%s is vacuous: cases never exercised: %s" % (cfg, sorted(need - set(cov))))
    # (R)
    run_jobs(chk, gen_jobs(chk), "TLC-generated fonts", stats)
    run_jobs(chk, model_jobs(chk), "model fonts", stats)
    # (V)
    run_jobs(chk, corpus_jobs(chk), "corpus", stats)
    chk.notes["cases_judged"] = stats["cases"]
    chk.notes["cases_accepted"] = stats["ok"]
    chk.notes["accepted_by_location_kind"] = stats["by_kind"]
    chk.notes["harfbuzz_observer_anomalies"] = stats["hb_anomaly"]
    chk.notes["harfbuzz_anomaly_samples"] = stats["hb_samples"]
    chk.notes["width_read_before_draw_differs"] = stats["w_before_differs"]
    if stats["oracle"]:
        raise MachineryError("reference disagrees with BOTH fontTools and HarfBuzz (suspected oracle bug): %s"
                             % json.dumps(stats["oracle"][:3]))
    chk.exhaustive = False
    chk.assumptions += [
        "raw table data come from the independent readers (rawsfnt, c05_raw); charstring tokens, subroutines and CFF2 regions from the decoded CFF tables (decoders pinned by C02/C12)",
        "the TLA+ reference evaluates variable data only at locations whose normalised coordinates are exact F2Dot14 numbers (extremes, peaks, quarter points, avar knots, seeded random k/64 and k/16384); 31-bit overflow is skipped and counted",
        "named conventions accepted: LsbRounded (glyph placed with otRound of the varied side bearing), AdvanceRounded (integer advances, ties either way)",
        "USE_MY_METRICS: fonts whose composite metrics differ from the flagged component's are outside the domain (skipped and counted)",
        "ROUND_XY_TO_GRID is a device-grid instruction: no effect on the unhinted outline in font units",
        "out of domain: VARC, avar 2 (variation locations), cubic glyf outlines, seac, flex1 under blend, both SCALED and UNSCALED offset flags",
        "HarfBuzz is triage only: HB != reference = fontTools is logged as an observer anomaly; reference != fontTools = HarfBuzz stops the check as a suspected oracle bug",
    ]


def replay(chk, rep):
    common.bind_repo()
    r = rep["replay"]
    meta = r["meta"]
    chk.log("replaying %s (recorded clause %s)" % (json.dumps(meta), r.get("clause")))
    stats = {"cases": 0, "ok": 0, "skip": 0, "hb_anomaly": {}, "hb_samples": [], "oracle": [], "by_kind": {},
             "w_before_differs": 0}
    # re-observe with the current tree when the font can be found again, else re-judge the recording
    t = r["trace"]
    t = dict(t, meta=meta)
    for c in t["cases"]:
        c.setdefault("lk", r.get("lk", "replay"))
    label = meta["font"]
    data = None
    p = os.path.join(os.path.dirname(common.TESTS), label.split("#")[0])
    if os.path.exists(p):
        if p.endswith(".ttx"):
            from . import fonts

            data = fonts.compile_ttx(p)
        else:
            with open(p, "rb") as f:
                data = f.read()
    if data is None and label.startswith("model:"):
        # model fonts are a pure function of (seed, label): rebuild with the CURRENT tree
        class _C:
            tier, seed, rng = "quick", meta.get("seed", 0), None
        for tier in ("quick", "thorough"):
            _C.tier = tier
            for j in model_jobs(_C):
                if j["label"] == label:
                    data = j["data"]
            if data is not None:
                break
    if data is not None:
        obs = Observers(data, meta.get("index", 0))
        raw = RawFont(data, meta.get("index", 0))
        tags = [a["tag"] for a in raw.axes]
        for c in t["cases"]:
            if c["loc"]:
                u = [Fr(a, b) for a, b in c["loc"]]
                c["ft"] = obs.ft(meta["gid"], tuple(u), loc_dict(tags, u))
            else:
                c["ft"] = obs.ft(meta["gid"], None, None)
            c["ft"].pop("w_before_differs", None)
        chk.log("re-observed with the current tree")
    else:
        chk.log("font not on disk (model font): re-judging the recorded observation")
    chk.count(len(t["cases"]))
    judge_all(chk, [t], "replay", stats, hb_all=True)
