"""Model fonts for C05 (R): small TrueType / CFF2 fonts realised with fontTools' FontBuilder from a
seeded description -- simple glyphs with every on/off-curve pattern the 'glyf' text talks about,
composites with every component-flag combination (XY offsets / point matching, scale / x-y scale /
2x2, SCALED_ / UNSCALED_COMPONENT_OFFSET, USE_MY_METRICS (metrics kept consistent: see GlyfSem
opts.umm), ROUND_XY_TO_GRID), nested up to depth 3, fvar with the default at either end or
inside, gvar tuples on the quarter lattice with corner / intermediate regions and all / subset /
phantom-only point sets, optional avar, optional HVAR (with and without an index map), CFF2 programs
from C12's operator grammar with blends.  The generator only DESCRIBES inputs; what they mean is
decided by specs/GlyfSem.tla on the bytes as read back by the independent readers."""
import io
import itertools
from fractions import Fraction as Fr

ARGS_ARE_XY = 0x0002
ROUND_XY = 0x0004
USE_MY_METRICS = 0x0200
SCALED = 0x0800
UNSCALED = 0x1000

SCALES = [0.5, -1.0, 1.5, 0.75, 1.25, -0.5]
XYSCALES = [(0.5, 1.0), (1.0, -1.0), (1.5, 0.5), (-0.75, 1.25)]
M2X2 = [[[0.5, 0.25], [-0.25, 0.5]], [[0.0, 1.0], [-1.0, 0.0]], [[1.0, 0.5], [0.0, 1.0]], [[-1.0, 0.0], [0.25, 0.75]]]

AXES_CHOICES = [
    [("wght", 100, 400, 900)],
    [("wght", 100, 400, 900), ("wdth", 50, 100, 200)],
    [("opsz", 0, 0, 1000), ("wght", 200, 900, 900)],
    [("wght", 300, 400, 500)],
]
# per-axis tents on the quarter lattice: (start, peak, end); None = the axis does not take part
TENTS = [(0, 1, 1), (-1, -1, 0), (0, 0.5, 1), (0, 0.25, 0.5), (0.25, 0.5, 1), (0.5, 1, 1), (0, 0.5, 0.5),
         (-1, -0.5, 0), (-1, -0.5, -0.25), (-0.5, -0.25, 0), (0, 0.75, 1), (0.25, 0.75, 1)]


def _program():
    from fontTools.ttLib.tables import ttProgram

    p = ttProgram.Program()
    p.fromBytecode(b"")
    return p


def simple_glyph(contours):
    """contours: [[(x, y, on), ...], ...] -> Glyph with exactly these points and flags"""
    from fontTools.ttLib.tables._g_l_y_f import Glyph, GlyphCoordinates

    g = Glyph()
    g.numberOfContours = len(contours)
    pts, flags, ends = [], [], []
    for c in contours:
        for x, y, on in c:
            pts.append((x, y))
            flags.append(1 if on else 0)
        ends.append(len(pts) - 1)
    g.coordinates = GlyphCoordinates(pts)
    g.flags = bytearray(flags)
    g.endPtsOfContours = ends
    g.program = _program()
    return g


def composite_glyph(comps):
    from fontTools.ttLib.tables._g_l_y_f import Glyph, GlyphComponent

    g = Glyph()
    g.numberOfContours = -1
    g.components = []
    for s in comps:
        c = GlyphComponent()
        c.glyphName = s["g"]
        c.flags = s["flags"]
        if "pt" in s:
            c.firstPt, c.secondPt = s["pt"]
        else:
            c.x, c.y = s["xy"]
        if s.get("tr") is not None:
            c.transform = s["tr"]
        g.components.append(c)
    return g


def rand_contour(rng, kind):
    n = rng.randint(3, 7)
    P = lambda: (rng.randint(-60, 420), rng.randint(-120, 520))
    if kind in ("gridpoly", "gridmixed"):
        # points on a few shared verticals / horizontals (stems): neighbours with equal coordinates
        xs = [rng.randint(-40, 120), rng.randint(150, 260), rng.randint(300, 420)]
        ys = [rng.randint(-100, 40), rng.randint(120, 300), rng.randint(380, 520)]
        m = rng.randint(5, 9)
        pts = [(rng.choice(xs), rng.choice(ys)) for _ in range(m)]
        if kind == "gridpoly":
            return [p + (1,) for p in pts]
        out = [p + (1 if rng.random() < 0.6 else 0,) for p in pts]
        if not any(o[2] for o in out):
            out[0] = out[0][:2] + (1,)
        return out
    if kind == "poly":
        return [P() + (1,) for _ in range(n)]
    if kind == "alloff":
        return [P() + (0,) for _ in range(rng.randint(2, 5))]
    if kind == "offstart":
        pts = [P() + (0,), P() + (0,)] + [P() + (rng.random() < 0.5,) for _ in range(n - 2)]
        if not any(p[2] for p in pts):
            pts[-1] = pts[-1][:2] + (1,)
        return [(x, y, int(o)) for x, y, o in pts]
    if kind == "dupend":
        pts = [P() + (1,) for _ in range(n)]
        return pts + [pts[0]]
    if kind == "single":
        return [P() + (rng.choice([0, 1]),)]
    if kind == "two":
        return [P() + (1,), P() + (rng.choice([0, 1]),)]
    # mixed: runs of off-curve points between on-curve points, also across the seam
    pts = []
    for _ in range(n):
        pts.append(P() + (1 if rng.random() < 0.45 else 0,))
    if not any(p[2] for p in pts):
        pts[rng.randrange(n)] = pts[0][:2] + (1,)
    return pts


SIMPLE_KINDS = [["gridpoly"], ["mixed"], ["alloff"], ["offstart"], ["gridmixed", "alloff"], ["single", "poly"], ["dupend"],
                ["mixed", "gridmixed", "poly"], ["two", "mixed"], ["gridpoly", "offstart"]]


def flag_combos():
    """(placement, transform kind, offset flag, umm, roundxy): every combination once"""
    out = []
    for place in ("xy", "pt"):
        for tk in ("none", "scale", "xyscale", "2x2"):
            for of in (0, SCALED, UNSCALED):
                for umm in (0, USE_MY_METRICS):
                    for rnd in (0, ROUND_XY):
                        out.append((place, tk, of, umm, rnd))
    return out


def pick_transform(rng, tk):
    if tk == "scale":
        s = rng.choice(SCALES)
        return [[s, 0], [0, s]]
    if tk == "xyscale":
        a, b = rng.choice(XYSCALES)
        return [[a, 0], [0, b]]
    if tk == "2x2":
        return [list(map(list, m)) for m in [rng.choice(M2X2)]][0]
    return None


def rand_region(rng, tags):
    while True:
        reg = {}
        for t in tags:
            if rng.random() < (0.75 if len(tags) == 1 else 0.55):
                reg[t] = rng.choice(TENTS)
        if reg:
            return reg


def rand_deltas(rng, n, mode, big=False):
    """n = number of points incl. the 4 phantom points; -> list of (dx, dy) | None"""
    m = 40 if big else 12
    D = lambda: (rng.randint(-m, m), rng.randint(-m, m))
    body = n - 4
    if mode == "all":
        d = [D() for _ in range(n)]
    elif mode == "phantom":
        d = [None] * body + [D(), D(), (0, 0), (0, 0)]
    elif mode == "sparse":
        d = [D() if rng.random() < 0.35 else None for _ in range(body)] + [rng.choice([None, D()]) for _ in range(4)]
    else:  # "most"
        d = [D() if rng.random() < 0.8 else None for _ in range(body)] + [D(), D(), None, None]
    # phantom points move horizontally only in sane fonts; keep y deltas but make x matter
    if all(x is None for x in d):
        d[rng.randrange(n)] = D()
    return d


class ModelFont:
    """description + the realised bytes"""

    def __init__(self):
        self.data = None
        self.label = ""
        self.names = []
        self.tags = []
        self.axes = []
        self.variable = False
        self.kind = "glyf"


def build_glyf_model(rng, label, naxes_choice=None, with_avar=None, with_hvar=None, lsb_mismatch=None, combos=None,
                     nsimple=10, ncomp=24, consistent_umm=True):
    from fontTools.fontBuilder import FontBuilder
    from fontTools.ttLib import newTable
    from fontTools.ttLib.tables.TupleVariation import TupleVariation
    from fontTools.ttLib.tables import otTables as ot
    from fontTools.varLib import builder as vb

    axes = AXES_CHOICES[naxes_choice] if naxes_choice is not None else None
    variable = axes is not None
    tags = [a[0] for a in axes] if variable else []
    if with_avar is None:
        with_avar = variable and rng.random() < 0.5
    if with_hvar is None:
        with_hvar = variable and rng.random() < 0.4
    if lsb_mismatch is None:
        lsb_mismatch = rng.random() < 0.6
    combos = list(combos if combos is not None else flag_combos())

    names = [".notdef", "space"]
    glyphs = {}
    from fontTools.ttLib.tables._g_l_y_f import Glyph

    glyphs[".notdef"] = Glyph()
    glyphs["space"] = Glyph()
    npts = {".notdef": 0, "space": 0}     # flattened number of points
    depth = {".notdef": 0, "space": 0}
    simple = []
    for i in range(nsimple):
        n = "s%d" % i
        kinds = SIMPLE_KINDS[i % len(SIMPLE_KINDS)]
        cs = [rand_contour(rng, k) for k in kinds]
        glyphs[n] = simple_glyph(cs)
        npts[n] = sum(len(c) for c in cs)
        depth[n] = 0
        names.append(n)
        simple.append(n)
    comp_specs = {}
    ci = 0
    combo_iter = itertools.cycle(combos)
    for i in range(ncomp):
        n = "c%d" % i
        k = rng.choice([1, 2, 2, 3])
        specs = []
        total = 0
        d = 0
        umm_used = False
        for j in range(k):
            place, tk, of, umm, rnd = next(combo_iter)
            # base glyph: a simple glyph, or (one time in three) an earlier composite of depth <= 2
            cands = [c for c in comp_specs if depth[c] <= 2 and npts[c] > 0]
            base = rng.choice(cands) if (cands and rng.random() < 0.33) else rng.choice(simple)
            if place == "pt" and (total == 0 or npts[base] == 0):
                # nothing placed yet to match against: make it an XY component instead
                place = "xy"
            s = {"g": base, "flags": of | rnd}
            if umm and not umm_used:
                s["flags"] |= USE_MY_METRICS
                umm_used = True
            tr = pick_transform(rng, tk)
            if tr is not None:
                s["tr"] = tr
            if place == "xy":
                s["flags"] |= ARGS_ARE_XY
                s["xy"] = (rng.randint(-120, 200), rng.randint(-150, 180))
                if rng.random() < 0.15:
                    s["xy"] = (rng.randint(-900, 900), rng.randint(-300, 300))   # word-sized arguments
            else:
                s["pt"] = (rng.randrange(total), rng.randrange(npts[base]))
            specs.append(s)
            total += npts[base]
            d = max(d, 1 + depth[base])
        comp_specs[n] = specs
        glyphs[n] = composite_glyph(specs)
        npts[n] = total
        depth[n] = d
        names.append(n)

    fb = FontBuilder(1000, isTTF=True)
    fb.setupGlyphOrder(names)
    fb.setupCharacterMap({})
    fb.setupGlyf(glyphs)
    # metrics
    metrics = {}
    for n in names:
        g = glyphs[n]
        xmin = getattr(g, "xMin", 0) if g.numberOfContours else 0
        lsb = xmin + (rng.choice([0, 0, -7, 13, 25]) if lsb_mismatch else 0)
        metrics[n] = (rng.choice([120, 500, 600, 640, 777, 1000]), lsb)

    # gvar
    variations = {}
    ph_deltas = {}      # glyph -> {region key: (d_pp1, d_pp2)} for USE_MY_METRICS consistency

    def regkey(reg):
        return tuple(sorted(reg.items()))

    if variable:
        for n in names:
            g = glyphs[n]
            body = npts[n] if not g.isComposite() else len(g.components)
            total = body + 4
            tvs = []
            if rng.random() < 0.9:
                for _t in range(rng.choice([1, 1, 2, 3])):
                    reg = rand_region(rng, tags)
                    if body == 0:
                        mode = "phantom"
                    else:
                        mode = rng.choice(["all", "sparse", "most", "phantom", "sparse"])
                    d = rand_deltas(rng, total, mode, big=rng.random() < 0.2)
                    tvs.append((reg, d))
            variations[n] = tvs
    # USE_MY_METRICS: make the composite's own metrics the flagged component's (domain of the check)
    if consistent_umm:
        for n in names:
            g = glyphs[n]
            if not g.isComposite():
                continue
            flagged = [c for c in g.components if c.flags & USE_MY_METRICS]
            if not flagged:
                continue
            base = flagged[-1].glyphName
            bg = glyphs[base]
            badv, blsb = metrics[base]
            bx = getattr(bg, "xMin", 0) if bg.numberOfContours else 0
            metrics[n] = (badv, g.xMin - (bx - blsb))
            if variable:
                # same phantom motion as the base: copy its (region, pp1, pp2) deltas; own tuples keep
                # their offset deltas but must not move pp1 / pp2
                mine = []
                for reg, d in variations.get(n, []):
                    d = list(d)
                    d[-4] = (0, 0)
                    d[-3] = (0, 0)
                    mine.append((reg, d))
                for reg, d in variations.get(base, []):
                    p1, p2 = d[-4], d[-3]
                    if p1 is None and p2 is None:
                        continue
                    nd = [None] * len(g.components) + [p1 or (0, 0), p2 or (0, 0), None, None]
                    mine.append((reg, nd))
                variations[n] = mine
    fb.setupHorizontalMetrics(metrics)
    fb.setupHorizontalHeader(ascent=800, descent=-200)
    fb.setupNameTable({"familyName": "C05Model", "styleName": "Regular"})
    fb.setupOS2()
    fb.setupPost()
    if variable:
        fb.setupFvar([(t, mn, df, mx, t) for t, mn, df, mx in axes], [])
        gv = {}
        for n, tvs in variations.items():
            gv[n] = [TupleVariation({t: tuple(float(v) for v in tent) for t, tent in reg.items()}, list(d)) for reg, d in tvs]
        fb.setupGvar(gv)
        if with_avar:
            avar = newTable("avar")
            segs = {}
            for t in tags:
                m = {-1.0: -1.0, 0.0: 0.0, 1.0: 1.0}
                if rng.random() < 0.8:
                    m.update(rng.choice([{0.5: 0.25}, {0.25: 0.5, 0.75: 0.875}, {-0.5: -0.75, 0.5: 0.75}, {-0.5: -0.25}]))
                segs[t] = m
            avar.segments = segs
            fb.font["avar"] = avar
        if with_hvar:
            supports = []
            for _r in range(rng.randint(1, 4)):
                reg = rand_region(rng, tags)
                supports.append({t: tuple(float(v) for v in tent) for t, tent in reg.items()})
            rl = vb.buildVarRegionList(supports, tags)
            use_map = rng.random() < 0.5
            if use_map:
                nrows = rng.randint(2, 6)
                rows = [[rng.randint(-60, 60) for _ in supports] for _ in range(nrows)]
                vd = vb.buildVarData(list(range(len(supports))), rows, optimize=False)
                store = vb.buildVarStore(rl, [vd])
                # short map: glyphs beyond its end take the last entry
                upto = rng.randint(max(1, len(names) // 2), len(names))
                mapping = [rng.randrange(nrows) for _ in range(upto)]
                amap = vb.buildDeltaSetIndexMap(mapping)
            else:
                rows = [[rng.randint(-60, 60) for _ in supports] for _ in names]
                vd = vb.buildVarData(list(range(len(supports))), rows, optimize=False)
                store = vb.buildVarStore(rl, [vd])
                amap = None
            hv = newTable("HVAR")
            hv.table = ot.HVAR()
            hv.table.Version = 0x00010000
            hv.table.VarStore = store
            hv.table.AdvWidthMap = amap
            hv.table.LsbMap = hv.table.RsbMap = None
            fb.font["HVAR"] = hv
    buf = io.BytesIO()
    fb.font.save(buf)
    m = ModelFont()
    m.data = buf.getvalue()
    m.label = label
    m.names = names
    m.tags = tags
    m.axes = axes or []
    m.variable = variable
    return m


def build_cff2_model(rng, label, nglyphs=14):
    """a variable CFF2 font: programs from C12's grammar (all operator forms, blends over 1..3 regions)"""
    from fontTools.fontBuilder import FontBuilder
    from fontTools.misc.psCharStrings import T2CharString
    from fontTools.ttLib import newTable
    from fontTools.ttLib.tables import otTables as ot
    from fontTools.varLib import builder as vb
    from . import c12

    axes = AXES_CHOICES[rng.choice([0, 1, 2])]
    tags = [a[0] for a in axes]
    nreg = rng.randint(1, 3)
    regions = []
    for _ in range(nreg):
        reg = rand_region(rng, tags)
        regions.append({t: tuple(float(v) for v in tent) for t, tent in reg.items()})
    names = [".notdef"] + ["g%d" % i for i in range(1, nglyphs)]
    fb = FontBuilder(1000, isTTF=False)
    fb.setupGlyphOrder(names)
    fb.setupCharacterMap({})
    fb.setupNameTable({"familyName": "C05ModelCFF2", "styleName": "Regular"})
    fb.setupFvar([(t, mn, df, mx, t) for t, mn, df, mx in axes], [])
    cs = {}
    for n in names:
        for _try in range(20):
            p = c12.rand_program(rng, "cff2", rg=(nreg,), allow_flex=True)
            if "flex1" not in p and len(p) < 400:
                break
        cs[n] = T2CharString(program=list(p))
    fb.setupCFF2(cs, regions=regions)
    metrics = {n: (rng.choice([500, 600, 777]), 0) for n in names}
    fb.setupHorizontalMetrics(metrics)
    fb.setupHorizontalHeader(ascent=800, descent=-200)
    fb.setupOS2()
    fb.setupPost()
    if rng.random() < 0.7:
        supports = [dict(r) for r in regions]
        rl = vb.buildVarRegionList(supports, tags)
        rows = [[rng.randint(-60, 60) for _ in supports] for _ in names]
        vd = vb.buildVarData(list(range(len(supports))), rows, optimize=False)
        hv = newTable("HVAR")
        hv.table = ot.HVAR()
        hv.table.Version = 0x00010000
        hv.table.VarStore = vb.buildVarStore(rl, [vd])
        hv.table.AdvWidthMap = hv.table.LsbMap = hv.table.RsbMap = None
        fb.font["HVAR"] = hv
    fb.font.recalcBBoxes = False
    buf = io.BytesIO()
    fb.font.save(buf)
    m = ModelFont()
    m.data = buf.getvalue()
    m.label = label
    m.names = names
    m.tags = tags
    m.axes = axes
    m.variable = True
    m.kind = "cff2"
    return m
