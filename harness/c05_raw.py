"""Independent readers for the variation tables C05's judge needs (fvar, avar, gvar, HVAR /
item variation store / delta-set index map), written from the OpenType texts; only `struct`,
never fontTools.  They complement harness/rawsfnt.py (container, head, maxp, hhea, hmtx, loca,
glyf).  Everything is returned as plain integers in the units of the file (Fixed 16.16 and
F2Dot14 values as their integer numerators): the *meaning* of the fields (implied tent
start/end, "all points", last-entry-repeats of index maps, ...) is left to specs/GlyfSem.tla."""
import struct

from .rawsfnt import RawError


def _s16(v):
    return v - 65536 if v >= 32768 else v


def parse_fvar(d):
    major, minor, axesOff, _res, axisCount, axisSize, instCount, instSize = struct.unpack(">HHHHHHHH", d[:16])
    axes = []
    for i in range(axisCount):
        o = axesOff + i * axisSize
        tag, mn, df, mx, flags, nameID = struct.unpack(">4slllHH", d[o : o + 20])
        axes.append({"tag": tag.decode("latin-1"), "min": mn, "def": df, "max": mx, "flags": flags})
    return axes


def parse_avar(d):
    major, minor, _res, axisCount = struct.unpack(">HHHH", d[:8])
    pos = 8
    segs = []
    for _ in range(axisCount):
        (n,) = struct.unpack(">H", d[pos : pos + 2])
        pos += 2
        pairs = []
        for _k in range(n):
            a, b = struct.unpack(">hh", d[pos : pos + 4])
            pos += 4
            pairs.append([a, b])
        segs.append(pairs)
    return {"major": major, "minor": minor, "segments": segs, "end": pos}


# ---------------------------------------------------------------- packed point numbers / deltas
def packed_points(d, pos):
    """-> (None for "all points" | list of point numbers, new pos)"""
    n = d[pos]
    pos += 1
    if n & 0x80:
        n = ((n & 0x7F) << 8) | d[pos]
        pos += 1
    if n == 0:
        return None, pos
    out = []
    cur = 0
    while len(out) < n:
        ctl = d[pos]
        pos += 1
        run = (ctl & 0x7F) + 1
        if ctl & 0x80:
            vals = struct.unpack(">%dH" % run, d[pos : pos + 2 * run])
            pos += 2 * run
        else:
            vals = d[pos : pos + run]
            if len(vals) != run:
                raise RawError("packed points overrun")
            pos += run
        for v in vals:
            cur += v
            out.append(cur)
    if len(out) != n:
        raise RawError("packed point run exceeds the declared count")
    return out, pos


def packed_deltas(d, pos, n):
    out = []
    while len(out) < n:
        ctl = d[pos]
        pos += 1
        run = (ctl & 0x3F) + 1
        if ctl & 0x80 and ctl & 0x40:
            vals = struct.unpack(">%dl" % run, d[pos : pos + 4 * run])
            pos += 4 * run
        elif ctl & 0x80:
            vals = [0] * run
        elif ctl & 0x40:
            vals = struct.unpack(">%dh" % run, d[pos : pos + 2 * run])
            pos += 2 * run
        else:
            vals = struct.unpack(">%db" % run, d[pos : pos + run])
            pos += run
        out.extend(vals)
    if len(out) != n:
        raise RawError("packed delta run exceeds the declared count")
    return out, pos


# ---------------------------------------------------------------- gvar
class Gvar:
    def __init__(self, d):
        (self.major, self.minor, self.axisCount, nShared, sharedOff, self.glyphCount, self.flags,
         self.arrayOff) = struct.unpack(">HHHHLHHL", d[:20])
        self.d = d
        n = self.glyphCount + 1
        if self.flags & 1:
            self.offsets = list(struct.unpack(">%dL" % n, d[20 : 20 + 4 * n]))
        else:
            self.offsets = [2 * v for v in struct.unpack(">%dH" % n, d[20 : 20 + 2 * n])]
        self.shared = []
        for i in range(nShared):
            o = sharedOff + 2 * self.axisCount * i
            self.shared.append(list(struct.unpack(">%dh" % self.axisCount, d[o : o + 2 * self.axisCount])))

    def glyph(self, gid, npoints):
        """Tuple variations of glyph `gid` which has `npoints` points INCLUDING the four phantom
        points.  -> list of {"peak": [F2Dot14 ints], "im": [] | [starts, ends], "pn": None | [point
        numbers], "dx": [...], "dy": [...]} (deltas parallel to pn, or to all points)."""
        if gid >= self.glyphCount:
            return []
        a, b = self.arrayOff + self.offsets[gid], self.arrayOff + self.offsets[gid + 1]
        g = self.d[a:b]
        if len(g) < 4:
            return []
        cnt, dataOff = struct.unpack(">HH", g[:4])
        shared_pts_flag = cnt & 0x8000
        cnt &= 0x0FFF
        pos = 4
        heads = []
        ac = self.axisCount
        for _ in range(cnt):
            size, idx = struct.unpack(">HH", g[pos : pos + 4])
            pos += 4
            if idx & 0x8000:
                peak = list(struct.unpack(">%dh" % ac, g[pos : pos + 2 * ac]))
                pos += 2 * ac
            else:
                k = idx & 0x0FFF
                if k >= len(self.shared):
                    raise RawError("shared tuple index out of range")
                peak = list(self.shared[k])
            im = []
            if idx & 0x4000:
                st = list(struct.unpack(">%dh" % ac, g[pos : pos + 2 * ac]))
                pos += 2 * ac
                en = list(struct.unpack(">%dh" % ac, g[pos : pos + 2 * ac]))
                pos += 2 * ac
                im = [st, en]
            heads.append((size, bool(idx & 0x2000), peak, im))
        dpos = dataOff
        shared_pts = None
        if shared_pts_flag:
            shared_pts, dpos = packed_points(g, dpos)
        out = []
        for size, private, peak, im in heads:
            p = dpos
            if private:
                pn, p = packed_points(g, p)
            else:
                pn = shared_pts
            n = npoints if pn is None else len(pn)
            dx, p = packed_deltas(g, p, n)
            dy, p = packed_deltas(g, p, n)
            if p > dpos + size:
                raise RawError("tuple variation data overruns its declared size")
            dpos += size
            out.append({"peak": peak, "im": im, "pn": pn, "dx": list(dx), "dy": list(dy)})
        return out


# ---------------------------------------------------------------- item variation store / HVAR
def parse_ivs(d, off):
    fmt, regOff, ndata = struct.unpack(">HLH", d[off : off + 8])
    if fmt != 1:
        raise RawError("item variation store format %d" % fmt)
    dataOffs = struct.unpack(">%dL" % ndata, d[off + 8 : off + 8 + 4 * ndata])
    ro = off + regOff
    axisCount, regionCount = struct.unpack(">HH", d[ro : ro + 4])
    regions = []
    p = ro + 4
    for _ in range(regionCount):
        reg = []
        for _a in range(axisCount):
            reg.append(list(struct.unpack(">hhh", d[p : p + 6])))
            p += 6
        regions.append(reg)
    data = []
    for o in dataOffs:
        if o == 0:
            data.append({"ri": [], "items": []})
            continue
        q = off + o
        itemCount, wordCount, ric = struct.unpack(">HHH", d[q : q + 6])
        longw = bool(wordCount & 0x8000)
        wordCount &= 0x7FFF
        ri = list(struct.unpack(">%dH" % ric, d[q + 6 : q + 6 + 2 * ric]))
        q += 6 + 2 * ric
        big, small = (">l", ">h") if longw else (">h", ">b")
        bs, ss = struct.calcsize(big), struct.calcsize(small)
        items = []
        for _i in range(itemCount):
            row = []
            for k in range(ric):
                if k < wordCount:
                    row.append(struct.unpack(big, d[q : q + bs])[0])
                    q += bs
                else:
                    row.append(struct.unpack(small, d[q : q + ss])[0])
                    q += ss
            items.append(row)
        data.append({"ri": ri, "items": items})
    return {"axisCount": axisCount, "regions": regions, "data": data}


def parse_dsim(d, off):
    fmt, entryFormat = struct.unpack(">BB", d[off : off + 2])
    if fmt == 0:
        (count,) = struct.unpack(">H", d[off + 2 : off + 4])
        p = off + 4
    elif fmt == 1:
        (count,) = struct.unpack(">L", d[off + 2 : off + 6])
        p = off + 6
    else:
        raise RawError("DeltaSetIndexMap format %d" % fmt)
    size = ((entryFormat & 0x30) >> 4) + 1
    inner_bits = (entryFormat & 0x0F) + 1
    out = []
    for _ in range(count):
        v = int.from_bytes(d[p : p + size], "big")
        p += size
        out.append([v >> inner_bits, v & ((1 << inner_bits) - 1)])
    return out


def parse_hvar(d):
    major, minor, storeOff, advOff, lsbOff, rsbOff = struct.unpack(">HHLLLL", d[:20])
    return {"store": parse_ivs(d, storeOff), "advmap": parse_dsim(d, advOff) if advOff else None}
