"""Realise a font description F emitted by TLC (MC_GlyfSem_gen: the record format of specs/GlyfSem.tla)
as a real TrueType font with fontTools' FontBuilder, and compare what the independent readers get back
from the bytes with the description (project(realize(F)) = F; a mismatch is a machinery failure, not a
verdict).  Glyph bounds and metrics are written exactly as described (no recalculation)."""
import io

ARGS_ARE_XY = 0x0002
SEM_FLAGS = 0x0004 | 0x0200 | 0x0800 | 0x1000   # ROUND_XY_TO_GRID, USE_MY_METRICS, (UN)SCALED_COMPONENT_OFFSET


def _program():
    from fontTools.ttLib.tables import ttProgram

    p = ttProgram.Program()
    p.fromBytecode(b"")
    return p


def realize(F):
    from fontTools.fontBuilder import FontBuilder
    from fontTools.ttLib.tables._g_l_y_f import Glyph, GlyphComponent, GlyphCoordinates
    from fontTools.ttLib.tables.TupleVariation import TupleVariation

    n = len(F["glyphs"])
    names = ["g%d" % i for i in range(n)]
    for i, g in enumerate(F["glyphs"]):
        if g["gid"] != i:
            raise ValueError("description must list glyphs in glyph-id order")
    glyphs = {}
    for nm, g in zip(names, F["glyphs"]):
        G = Glyph()
        if g["k"] == "s":
            G.numberOfContours = len(g["ends"])
            G.coordinates = GlyphCoordinates([(x, y) for x, y, _on in g["pts"]])
            G.flags = bytearray([on for _x, _y, on in g["pts"]])
            G.endPtsOfContours = list(g["ends"])
            G.program = _program()
            xs = [p[0] for p in g["pts"]]
            ys = [p[1] for p in g["pts"]]
            G.xMin, G.yMin, G.xMax, G.yMax = g["xMin"], min(ys), max(max(xs), g["xMin"]), max(ys)
        elif g["k"] == "c":
            G.numberOfContours = -1
            G.components = []
            for c in g["comps"]:
                C = GlyphComponent()
                C.glyphName = names[c["g"] - 1]
                C.flags = c["fl"] & SEM_FLAGS
                if c["fl"] & ARGS_ARE_XY:
                    C.x, C.y = c["a1"], c["a2"]
                else:
                    C.firstPt, C.secondPt = c["a1"], c["a2"]
                tr = c["tr"]
                if len(tr) == 1:
                    C.transform = [[tr[0] / 16384, 0], [0, tr[0] / 16384]]
                elif len(tr) == 2:
                    C.transform = [[tr[0] / 16384, 0], [0, tr[1] / 16384]]
                elif len(tr) == 4:
                    C.transform = [[tr[0] / 16384, tr[1] / 16384], [tr[2] / 16384, tr[3] / 16384]]
                G.components.append(C)
            G.xMin, G.yMin, G.xMax, G.yMax = g["xMin"], 0, g["xMin"] + 10, 10
        glyphs[nm] = G
    fb = FontBuilder(1000, isTTF=True)
    fb.setupGlyphOrder(names)
    fb.setupCharacterMap({})
    fb.setupGlyf(glyphs, calcGlyphBounds=False)
    fb.setupHorizontalMetrics({nm: tuple(F["hmtx"][i]) for i, nm in enumerate(names)})
    fb.setupHorizontalHeader(ascent=800, descent=-200)
    fb.setupNameTable({"familyName": "C05Gen", "styleName": "Regular"})
    fb.setupOS2()
    fb.setupPost()
    if F["axes"]:
        tags = ["ax%02d" % i for i in range(len(F["axes"]))]
        fb.setupFvar([(t, a[0] / 65536, a[1] / 65536, a[2] / 65536, t) for t, a in zip(tags, F["axes"])], [])
        gv = {}
        for nm, g, tvs in zip(names, F["glyphs"], F["gvar"]):
            npts = (len(g["pts"]) if g["k"] == "s" else len(g["comps"]) if g["k"] == "c" else 0) + 4
            out = []
            for tv in tvs:
                axes = {}
                for i, t in enumerate(tags):
                    pk = tv["peak"][i] / 16384
                    if tv["im"]:
                        axes[t] = (tv["im"][0][i] / 16384, pk, tv["im"][1][i] / 16384)
                    elif pk != 0:
                        axes[t] = (min(pk, 0.0), pk, max(pk, 0.0))
                if tv["all"]:
                    coords = [(dx, dy) for dx, dy in zip(tv["dx"], tv["dy"])]
                else:
                    coords = [None] * npts
                    for k, pn in enumerate(tv["pn"]):
                        coords[pn] = (tv["dx"][k], tv["dy"][k])
                out.append(TupleVariation(axes, coords))
            gv[nm] = out
        fb.setupGvar(gv)
    fb.font.recalcBBoxes = False
    buf = io.BytesIO()
    fb.font.save(buf)
    return buf.getvalue()


def _delta_vector(tv, n):
    if tv["all"]:
        return [(dx, dy) for dx, dy in zip(tv["dx"], tv["dy"])]
    v = [None] * n
    for k, pn in enumerate(tv["pn"]):
        if pn < n:
            v[pn] = (tv["dx"][k], tv["dy"][k])
    return v


def same_description(F, G):
    """F: emitted by TLC; G: RawFont.glyf_F(last glyph) read back from the bytes (same glyph numbering
    because the last glyph's component closure is the whole font).  Compared up to encoding choices
    fontTools may make (argument word size, 'all points' vs an explicit list of all points)."""
    if len(F["glyphs"]) != len(G["glyphs"]):
        return "glyph count"
    # closure order of G is depth-first from the last glyph: map by gid
    by_gid = {g["gid"]: i for i, g in enumerate(G["glyphs"])}
    for i, g in enumerate(F["glyphs"]):
        j = by_gid.get(g["gid"])
        if j is None:
            return "glyph %d missing" % g["gid"]
        h = G["glyphs"][j]
        if g["k"] != h["k"]:
            return "kind of glyph %d" % i
        if F["hmtx"][i] != G["hmtx"][j]:
            return "hmtx of glyph %d" % i
        if g["k"] == "s" and (g["pts"] != h["pts"] or g["ends"] != h["ends"] or g["xMin"] != h["xMin"]):
            return "points of glyph %d" % i
        if g["k"] == "c":
            if g["xMin"] != h["xMin"] or len(g["comps"]) != len(h["comps"]):
                return "header of composite %d" % i
            for c, d in zip(g["comps"], h["comps"]):
                if (F["glyphs"][c["g"] - 1]["gid"] != G["glyphs"][d["g"] - 1]["gid"] or c["a1"] != d["a1"] or c["a2"] != d["a2"]
                        or (c["fl"] & (SEM_FLAGS | ARGS_ARE_XY | 0x8 | 0x40 | 0x80)) != (d["fl"] & (SEM_FLAGS | ARGS_ARE_XY | 0x8 | 0x40 | 0x80))
                        or list(c["tr"]) != list(d["tr"])):
                    return "component of glyph %d: %r vs %r" % (i, c, d)
        n = (len(g["pts"]) if g["k"] == "s" else len(g["comps"]) if g["k"] == "c" else 0) + 4
        a, b = F["gvar"][i], G["gvar"][j]
        if len(a) != len(b):
            return "tuple count of glyph %d" % i
        for x, y in zip(a, b):
            if x["peak"] != y["peak"] or _delta_vector(x, n) != _delta_vector(y, n):
                return "tuple of glyph %d" % i
            xi = x["im"] or [[min(p, 0) for p in x["peak"]], [max(p, 0) for p in x["peak"]]]
            yi = y["im"] or [[min(p, 0) for p in y["peak"]], [max(p, 0) for p in y["peak"]]]
            if [list(v) for v in xi] != [list(v) for v in yi]:
                return "tent of glyph %d" % i
    if [list(a) for a in F["axes"]] != [list(a) for a in G["axes"]]:
        return "axes"
    return ""
