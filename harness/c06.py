"""C06 — serialising layout tables never changes how text is shaped.

(M) MC_OTLPack: the offset-graph packer (OTLGraph / OTLPack: Intern, Gather, Place, Emit) on every ordered
    writer tree up to N nodes (sizes in units, 16-bit limit = 7 units, shared Coverage / twin leaves, at most
    one Extension, DontShare and sortCoverageLast node, both the getAllData and the HarfBuzz-fallback mode):
    InternSound, EveryNodePlaced, TopologicalOrder, EdgesResolve, NoSilentWrap.
    MC_OTLRepack: the resolution loop of BaseTTXConverter.compile (OTLRepack over OTLResolve) on small lookup
    lists from a menu of subtable prototypes, GSUB and GPOS, repacker off and on: DenotationPreserved (OTLSem),
    Progress (every resolution lowers a well-founded measure), ReturnImpliesValid, RaiseOnlyWhenStuck, NoCrash,
    termination within a bound + no deadlock.  MC_OTLRepack_stuck (no exclusion of the stuck shape) is expected
    to show the Progress counterexample that (V) reproduces on the real code.
(R) every graph exported by MC_OTLPack (a seeded sample in the quick tier) is rebuilt with the real
    OTTableWriter (1 unit = 8192 bytes), packed by the real getAllData in both modes and read back from the
    bytes; every (lookup list, overflow record) state exported by MC_OTLRepack is realised as real otTables
    objects and pushed through the real tryResolveOverflow.  Trace_C06 (kinds "pack", "split") decides.
(V) corpus binaries / TTX fonts / feaLib builds of corpus .fea files and generated tables that overflow at every
    level x USE_HARFBUZZ_REPACKER in {False, None, True} x GPOS compaction levels: compile, decompile, project
    in-memory and decompiled tables, HarfBuzz on the bytes (Trace_C06 kind "e2e"), and the recorded resolution
    loop of every compile validated step by step against OTLRepack (Trace_C06_Loop).
Python drives and records only; every verdict is TLC's."""
import json
import os
import threading
import time

from . import common
from .common import MachineryError

LEVEL = "model_checking"
JVM_ENV = {"JAVA_TOOL_OPTIONS": "-Xss64m"}
MODE_WORD = {"F": "off", "N": "auto", "T": "required"}
SCALE = float(os.environ.get("C06_SCALE", "1") or 1)      # smoke-test knob; registered commands leave it at 1
PARTS = set((os.environ.get("C06_PARTS") or "mc,pack,split,e2e").split(","))   # development knob; registered commands leave it unset
MC_CACHE = os.environ.get("C06_MC_CACHE")    # development knob (mutant runs): reuse the graphs / states exported by an earlier MC run
                                             # (the models do not depend on the tree under test); registered commands leave it unset

_START = threading.Lock()


def tlc_staggered(chk, *a, **kw):
    """Check.tlc numbers its scratch files (trace file, metadir) from a counter in its first statements; calls from
    several threads are therefore started one after the other: the next one may start when TLC's metadir of this one
    exists (or the call has ended)."""
    import glob

    _START.acquire()
    before = set(glob.glob(os.path.join(chk.work, "m*")))
    done = threading.Event()

    def release():
        t0 = time.time()
        while not done.is_set() and time.time() - t0 < 120 and not (set(glob.glob(os.path.join(chk.work, "m*"))) - before):
            time.sleep(0.2)
        _START.release()

    threading.Thread(target=release, daemon=True).start()
    kw.setdefault("env", JVM_ENV)
    try:
        return chk.tlc(*a, **kw)
    finally:
        done.set()


def gen_payloads(r):
    out, seen = [], set()
    for p in r.prints.get("GEN", []):
        if p[0] not in seen:
            seen.add(p[0])
            out.append(json.loads(p[0]))
    return out


# ---------------------------------------------------------------------------
# (M)
# ---------------------------------------------------------------------------
def run_models(chk, results):
    thorough = chk.tier == "thorough"

    def pack():
        r = tlc_staggered(chk, "MC_OTLPack", cfg="MC_OTLPack_thorough" if thorough else "MC_OTLPack", workers=6, timeout=3000,
                          label="MC_OTLPack (packer invariants + GEN)")
        results["pack"] = r

    def repack(name):
        def f():
            cfg = "MC_OTLRepack_%s%s" % (name, "_thorough" if thorough else "")
            results["repack_" + name] = tlc_staggered(chk, "MC_OTLRepack", cfg=cfg, workers=3, timeout=3000, heap="3g",
                                                      label="MC_OTLRepack %s (loop properties + GEN)" % name)
        return f

    def stuck():
        results["stuck"] = tlc_staggered(chk, "MC_OTLRepack", cfg="MC_OTLRepack_stuck", workers=2, timeout=1500, heap="2g", expect_ok=False,
                                         label="MC_OTLRepack_stuck (expected Progress counterexample)")

    def live():
        results["live"] = tlc_staggered(chk, "MC_OTLRepack", cfg="MC_OTLRepack_live", workers=2, timeout=1500, heap="2g",
                                        label="MC_OTLRepack_live (Terminates under weak fairness)")

    names = ("gsub_off", "gpos_off", "gsub_on", "gpos_on") if thorough else ("gsub_off", "gpos_off")
    jobs = [pack] + [repack(n) for n in names] + [stuck] + ([live] if thorough else [])
    errs = []

    def guard(fn):
        def g():
            try:
                fn()
            except BaseException as e:  # re-raised in the main thread
                errs.append(e)
        return g

    threads = [threading.Thread(target=guard(j)) for j in jobs]
    for t in threads:
        t.start()
    return threads, errs


def model_notes(chk, results):
    r = results["pack"]
    stat = {}
    chk.notes["mc_pack"] = {"distinct_states": r.distinct, "graphs_exported": len(r.prints.get("GEN", [])), "depth": r.depth, "wall_s": round(r.wall, 1)}
    sites, ends = {}, {}
    total = 0
    for k, v in results.items():
        if not k.startswith("repack_"):
            continue
        total += v.distinct
        for p in v.prints.get("SITE", []):
            key = "%s -> %s" % (p[0], p[1])
            sites[key] = sites.get(key, 0) + 1
        for p in v.prints.get("END", []):
            key = "%s in %s%s" % (p[0], p[1], " after hb.repack failed" if p[2] else "")
            ends[key] = ends.get(key, 0) + 1
    chk.notes["mc_repack"] = {"distinct_states": total, "overflow_site -> resolution (distinct states)": sites, "outcomes": ends}
    need = ["Coverage -> split", "Sequence -> split", "PairSet -> split", "ClassDef1 -> split", "BaseArray.BaseAnchor -> split",
            "LookupList->Lookup -> promote", "Lookup->SubTable -> promote", "Coverage -> dontshare"]
    missing = [n for n in need if n not in sites]
    if missing:
        raise MachineryError("MC_OTLRepack is vacuous for: %r" % missing)
    if not any(k.startswith("raise") for k in ends) or not any(k.startswith("return") for k in ends):
        raise MachineryError("MC_OTLRepack never reached both Return and Raise: %r" % ends)
    s = results["stuck"]
    found = "Action property Progress is violated" in s.stdout
    chk.notes["mc_stuck_shape"] = {"progress_counterexample_found": found,
                                   "meaning": "a ligature-like subtable with ONE item too big for 16-bit offsets: split moves everything and leaves an empty subtable"}
    if not found and not s.ok:
        raise MachineryError("MC_OTLRepack_stuck failed for another reason:\n" + "\n".join(s.stdout.splitlines()[-30:]))
    if "live" in results:
        chk.notes["mc_live"] = {"distinct_states": results["live"].distinct, "property": "Terminates == <>(pc = \"done\") under WF, no violation"}
    return found


# ---------------------------------------------------------------------------
# (R) packer
# ---------------------------------------------------------------------------
def _pack_job(arg):
    from . import c06_pack as cp

    g, label = arg
    out = []
    for mode in ("ft", "hbfb"):
        o = cp.observe(g, mode)
        o.update({"k": "pack", "g": g, "mode": mode, "noscan": label.endswith("noscan"), "label": label})
        out.append(o)
    return out


def part_rng(chk, part):
    """one seeded generator per part, so that a part draws the same sample whatever else runs"""
    import random

    return random.Random("C06-%s-%d" % (part, chk.seed))


def run_pack_replay(chk, graphs):
    from . import c06_pack as cp

    thorough = chk.tier == "thorough"
    rng = part_rng(chk, "pack")
    small = [g for g in graphs if len(g) <= 3]
    big = [g for g in graphs if len(g) > 3]
    n = len(big) if thorough else min(len(big), int(2400 * SCALE))
    rng.shuffle(big)
    chosen = small + big[:n]
    jobs = [(cp.to_bytes_graph(g), "tlc") for g in chosen] + [(g, label) for label, g in cp.handmade_graphs()]
    res = common.pmap(_pack_job, jobs, procs=12, chunksize=64)
    traces = [t for ts in res for t in ts]
    kinds = {}
    for t in traces:
        kinds[t["res"]] = kinds.get(t["res"], 0) + 1
        if t["res"] == "overflow" or any(len({k[0] for k in n["kids"]}) for n in t["g"]):
            chk.nontriv("pack:" + common.digest([t["g"], t["mode"]]))
    chk.count(len(traces))
    chk.notes["pack_replay"] = {"graphs_exported": len(graphs), "graphs_rebuilt_with_real_writer": len(jobs), "modes": ["ft", "hbfb"], "real_outcomes": kinds}
    chk.sample({"pack": {"graph": traces[-1]["g"], "mode": traces[-1]["mode"], "real": {k: traces[-1][k] for k in ("res", "scan", "len")}}})
    return traces


# ---------------------------------------------------------------------------
# (R) resolutions
# ---------------------------------------------------------------------------
def run_split_replay(chk, states):
    from . import c06_split

    uniq, seen = [], set()
    for s in states:
        k = common.digest([s["tag"], s["lk"], s["rec"]])
        if k not in seen:
            seen.add(k)
            uniq.append(s)
    if chk.tier != "thorough" and len(uniq) > 240:
        part_rng(chk, "split").shuffle(uniq)
        uniq = uniq[:240]
    traces = common.pmap(c06_split.replay_state, uniq, procs=8, chunksize=16)
    kinds = {}
    for t in traces:
        k = "%s %s" % (t["tag"], "crash " + t["crash"] if t["crash"] else ("ok" if t["ok"] else "not resolved"))
        kinds[k] = kinds.get(k, 0) + 1
        if t["ok"]:
            chk.nontriv("split:" + common.digest([t["tag"], t["lk"], t["rec"]]))
    chk.count(len(traces))
    chk.notes["split_replay"] = {"states_exported": len(states), "distinct_states_replayed_into_tryResolveOverflow": len(traces), "real_results": kinds}
    if traces:
        t = traces[0]
        chk.sample({"split": {"tag": t["tag"], "lookups": t["lk"], "record": t["rec"], "real_ok": t["ok"], "summary_after": t["sumafter"]}})
    return traces


# ---------------------------------------------------------------------------
# (V) cases
# ---------------------------------------------------------------------------
def has_layout(path, num=-1):
    from fontTools.ttLib import TTFont

    try:
        f = TTFont(path, fontNumber=num, lazy=True)
        return "GSUB" in f or "GPOS" in f
    except Exception:
        return False


def fea_case(path):
    """glyph order for a stand-alone build of a corpus .fea file (as in harness/c11.py)"""
    from . import c11
    from fontTools.feaLib.error import FeatureLibError

    base = c11.test_glyph_order()
    try:
        try:
            ff = c11.parse(None, base, filename=path)
        except FeatureLibError:
            ff = c11.parse(None, (), filename=path)
        extra = [g for g in c11.glyph_names_in(ff) if g not in set(base)]
    except Exception:
        return None
    return {"kind": "fea", "path": path, "order": base + extra, "label": "fea:" + common.rel(path)}


def corpus_cases(chk):
    from . import fonts

    thorough = chk.tier == "thorough"
    cases = []
    for p in fonts.binaries():
        n = fonts.num_fonts_in(p)
        for num in (range(n) if n > 1 else [-1]):
            if has_layout(p, num):
                cases.append({"kind": "bin", "path": p, "num": num, "label": "bin:%s%s" % (common.rel(p), "#%d" % num if num >= 0 else "")})
    ttx = []
    for p in fonts.whole_font_ttx():
        try:
            with open(p, "rb") as f:
                head = f.read()
        except OSError:
            continue
        if b"<GSUB>" in head or b"<GPOS>" in head:
            ttx.append({"kind": "ttx", "path": p, "label": "ttx:" + common.rel(p)})
    feas = [c for c in common.pmap(fea_case, common.corpus_files(".fea"), procs=8, chunksize=8) if c]
    if not thorough:
        rng = part_rng(chk, "corpus")
        rng.shuffle(ttx)
        ttx = ttx[: int(12 * SCALE)]
        rng.shuffle(cases)
        cases = cases[: int(60 * SCALE)]
        rng.shuffle(feas)
        feas = feas[: int(40 * SCALE)]
    levels = list(range(1, 10)) if thorough else [1, 5, 9]
    for c in cases + ttx + feas:
        c["runs"] = [("F", 0), ("N", 0), ("T", 0)]
        c["levels"] = levels
        c["budget"] = 120
    return sorted(cases + ttx + feas, key=lambda c: c["label"])


def tidy_loop(tr):
    """recorder events -> the event granularity of Trace_C06_Loop (pure reformatting)"""
    out = []
    evs = tr["events"]
    i = 0
    norec = {"L": -1, "S": -1, "name": "", "idx": -1}
    while i < len(evs):
        e = evs[i]
        if e["a"] == "Attempt":
            att = {"a": "Attempt", "p": e["p"], "hbfail": False, "res": "none", "rec": norec}
            i += 1
            while i < len(evs) and evs[i]["a"] in ("HBFail", "PackOK", "Overflow"):
                x = evs[i]
                if x["a"] == "HBFail":
                    att["hbfail"] = True
                elif x["a"] == "PackOK":
                    att["res"] = "ok"
                else:
                    att["res"] = "overflow"
                    att["rec"] = {k: x[k] for k in ("L", "S", "name", "idx")}
                i += 1
            if att["res"] == "none":      # the attempt ended with another exception / the alarm: the final event tells
                continue
            out.append(att)
            continue
        if e["a"] == "Resolve":
            out.append({"a": "Resolve", "ok": e["ok"], "crash": e["crash"], "after": e["after"]})
        elif e["a"] in ("Cut", "Return", "Raise", "Timeout"):
            out.append({"a": e["a"]})
        elif e["a"] == "Crash":
            out.append({"a": "Crash", "exc": e.get("exc", "")})
        i += 1
    return {"tag": tr["tag"], "mode": tr["mode"], "hb": tr["hb"], "init": tr["init"], "events": out, "label": tr["label"], "lvl": tr["lvl"]}


def run_cases(chk, cases):
    from . import c06_e2e

    # generated cases are the slowest: first, so that the pool drains evenly
    order = sorted(range(len(cases)), key=lambda i: (0 if cases[i]["kind"] == "gen" else 1, -cases[i].get("budget", 0)))
    res = common.pmap(c06_e2e.run_case, [(cases[i], chk.seed) for i in order], procs=12, chunksize=1)
    back = [None] * len(cases)
    for i, r in zip(order, res):
        back[i] = r
    return back


def judge_parallel(chk, module, traces, label, wrap=None, parts=3, per=400, timeout=2400):
    """batch validation with `parts` concurrent TLC processes of at most `per` traces each (JSON parsing is
    single-threaded in TLC); more traces than that are judged batch after batch"""
    from concurrent.futures import ThreadPoolExecutor

    rej, extra, results = {}, {}, []
    if not traces:
        return rej, extra, results
    batch = parts * per
    nb = (len(traces) + batch - 1) // batch
    for b in range(nb):
        sub = traces[b * batch: (b + 1) * batch]
        nparts = max(1, min(parts, (len(sub) + per - 1) // per))
        chunks = [sub[i::nparts] for i in range(nparts)]

        def one(i):
            part = chunks[i]
            payload = wrap(part) if wrap else part
            return tlc_staggered(chk, module, traces=payload, workers=max(2, 12 // nparts), timeout=timeout, heap="5g",
                                 label="%s batch %d/%d part %d/%d" % (label, b + 1, nb, i + 1, nparts))

        with ThreadPoolExecutor(nparts) as ex:
            res = list(ex.map(one, range(nparts)))
        for part, r in zip(chunks, res):
            for p in r.rej:
                rej.setdefault(id(part[p[0] - 1]), (part[p[0] - 1], p[1:]))
            for tag in ("ACC", "SKP", "HBS"):
                for p in r.prints.get(tag, []):
                    extra.setdefault(tag, {})[id(part[p[0] - 1])] = p[1:]
            if module == "Trace_C06" and r.distinct < 2 * len(part):
                raise MachineryError("%s judged %d states for %d traces" % (module, r.distinct, len(part)))
        results += res
    return rej, extra, results


def strip_e2e(t):
    runs = []
    for r in t["runs"]:
        runs.append({"modes": r["modes"], "err": r["err"], "sameM": bool(r["sameM"]), "P": r["P"] if r["P"] else [], "hb": r["hb"],
                     "decompiled": not r["err"].startswith("decompile:")})
        if r["err"].startswith("decompile:"):
            runs[-1]["err"] = ""
    return {"k": "e2e", "M": t["M"], "runs": runs, "probes": t["probes"], "seqs": t["seqs"], "cfgs": t["cfgs"], "orig": t["orig"],
            "packable": "no" if t["packable"] is False else "unknown"}


# ---------------------------------------------------------------------------
def report_simple(chk, rejected, kind):
    for _k, (t, clause) in sorted(rejected.items(), key=lambda kv: json.dumps(kv[1][1])):
        c = clause[0]
        if c.startswith("machinery:"):
            raise MachineryError("%s: %s on %s" % (kind, c, json.dumps(t.get("lk") or t.get("g"))[:600]))
        if kind == "pack":
            what = "offset graph %s packed in mode %s: real outcome %s, emitted %r" % (json.dumps(t["g"]), t["mode"], t["res"], t["scan"][:10])
            chk.reject(c if c.startswith("pack:") else "pack:" + c, what, {"kind": "pack", "g": t["g"], "mode": t["mode"], "label": t.get("label", "")})
        else:
            what = "%s lookup list %s with overflow record %s: tryResolveOverflow returned %s; summary after: %s" % (
                t["tag"], json.dumps(t["lk"]), json.dumps(t["rec"]), t["ok"], json.dumps(t["sumafter"]))
            chk.reject("split:" + c, what, {"kind": "split", "state": {k: t[k] for k in ("tag", "lk", "rec", "sem")}, "rank": t.get("rank")})


def preload():
    """import everything the forked workers need (the check runs without byte-code caches) and build the base fonts"""
    import fontTools.ttLib, fontTools.fontBuilder, fontTools.feaLib.builder, fontTools.feaLib.parser, fontTools.otlLib.builder  # noqa
    import fontTools.otlLib.optimize.gpos, fontTools.ttLib.tables.otTables, fontTools.ttLib.tables.otConverters, fontTools.subset  # noqa
    from fontTools.ttLib import TTFont
    from . import hb, otl_project, c11, c06_e2e, c06_gen, c06_pack, c06_split, fonts  # noqa
    import io

    for tag in ("GSUB", "GPOS", "GDEF", "head", "hhea", "maxp", "OS/2", "hmtx", "cmap", "name", "post", "glyf", "loca", "CFF ", "fvar", "gvar", "HVAR"):
        fontTools.ttLib.getTableClass(tag)
    if "e2e" in PARTS:
        for n in sorted({c["nglyphs"] for c in c06_gen.cases("thorough") if c.get("full", True)}):
            c06_e2e.base_font_bytes(c06_gen.glyph_order(n))


def run(chk):
    from . import c06_gen

    chk.rule = ("cases: (a) one offset graph x packing mode rebuilt with the real OTTableWriter [non-trivial: the graph has children, i.e. "
                "offsets to resolve]; (b) one (lookup list, overflow record) state pushed through the real tryResolveOverflow "
                "[non-trivial: a resolution applied]; (c) one font x (repacker mode, compaction level) compiled, decompiled, projected "
                "and shaped [non-trivial: GSUB/GPOS present with at least one probe sequence that shaping changes, or an overflow "
                "resolution / HarfBuzz-side split happened]; graphs and states are the reachable states of the TLC builder machines, "
                "fonts are the corpus and the generated overflowing tables")
    thorough = chk.tier == "thorough"
    preload()
    results = {}
    threads, errs = run_models(chk, results) if "mc" in PARTS else ([], [])

    # ---- (V) cases run while TLC model-checks -------------------------------------------------
    t0 = time.time()
    gens = c06_gen.cases(chk.tier) if "e2e" in PARTS else []
    cases = (corpus_cases(chk) + gens) if "e2e" in PARTS else []
    chk.log("%d cases (%d generated) ..." % (len(cases), len(gens)))
    outs = run_cases(chk, cases)
    chk.log("cases done in %.0fs" % (time.time() - t0))

    for t in threads:
        t.join()
    if errs:
        raise errs[0]
    if "mc" in PARTS:
        stuck_found = model_notes(chk, results)
        chk.log("models: packer %d states, loop %d states; stuck-shape counterexample found: %s"
                % (results["pack"].distinct, chk.notes["mc_repack"]["distinct_states"], stuck_found))

    # ---- (R) ------------------------------------------------------------------------------------
    graphs = gen_payloads(results["pack"]) if "mc" in PARTS else []
    states = []
    for k, v in results.items():
        if k.startswith("repack_"):
            states += gen_payloads(v)
    if MC_CACHE:
        fn = os.path.join(MC_CACHE, "exports-%s.json" % chk.tier)
        if "mc" in PARTS:
            with open(fn, "w") as f:
                json.dump({"graphs": graphs, "states": states}, f)
        elif "pack" in PARTS or "split" in PARTS:
            with open(fn) as f:
                d = json.load(f)
            graphs, states = d["graphs"], d["states"]
    from concurrent.futures import ThreadPoolExecutor

    pack_traces = run_pack_replay(chk, graphs) if "pack" in PARTS else []
    split_traces = run_split_replay(chk, states) if "split" in PARTS else []
    pool = ThreadPoolExecutor(4)       # the four judgements are independent: they run side by side
    f_pack = pool.submit(judge_parallel, chk, "Trace_C06", pack_traces, "Trace_C06 pack", None, 2 if thorough else 1, 5000)
    f_split = pool.submit(judge_parallel, chk, "Trace_C06", split_traces, "Trace_C06 split", None, 2 if thorough else 1, 300)

    # ---- (V) judge ----------------------------------------------------------------------------------
    e2e, loops, owner = [], [], {}
    stats = {"cases": len(cases), "fonts_with_results": 0, "runs": 0, "distinct_results": 0, "results_that_differ_structurally_from_memory": 0,
             "compiles_that_raised": 0, "loop_traces": 0, "loop_traces_with_overflow": 0,
             "harfbuzz_internal_restructuring": 0}   # results of the HarfBuzz modes whose tables differ structurally from memory
    for case, r in zip(cases, outs):
        if r["skip"]:
            chk.skip(r["skip"])
            continue
        t = r["e2e"]
        if t is not None:
            st = strip_e2e(t)
            owner[id(st)] = (case, t)
            e2e.append(st)
            stats["fonts_with_results"] += 1
            nruns = sum(len(x["modes"]) for x in t["runs"])
            stats["runs"] += nruns
            stats["distinct_results"] += len(t["runs"])
            stats["results_that_differ_structurally_from_memory"] += sum(1 for x in t["runs"] if not x["sameM"] and not x["err"])
            stats["compiles_that_raised"] += sum(1 for x in t["runs"] if x["err"])
            stats["harfbuzz_internal_restructuring"] += sum(1 for x in t["runs"] if not x["sameM"] and not x["err"] and any(m in ("N", "T") for m, _l in x["modes"]))
            for x in t["runs"]:
                if x["err"]:
                    d = stats.setdefault("errors_raised (case: exception per mode)", {})
                    d.setdefault(case["label"], []).append("%s: %s" % ("/".join(m + str(l) for m, l in x["modes"]), x["err"]))
            chk.count(nruns)
            changed = any(any(x for c in run["hb"] for x in c) for run in t["runs"])
            if changed or any(not x["sameM"] for x in t["runs"]):
                chk.nontriv("e2e:" + case["label"])
            if t["uns"]:
                chk.skip("projection leaves out constructs outside OTLSem (compared on the rest): " + t["uns"][0].split(": ", 1)[-1][:60])
        for tr in r["loops"]:
            tl = tidy_loop(tr)
            owner[id(tl)] = (case, tr)
            loops.append(tl)
            stats["loop_traces"] += 1
            if any(e["a"] == "Resolve" for e in tl["events"]):
                stats["loop_traces_with_overflow"] += 1
                chk.nontriv("loop:%s:%s:%s:%d" % (case["label"], tl["tag"], tl["mode"], tl["lvl"]))
    chk.count(len(loops))
    chk.notes["end_to_end"] = stats
    chk.log("judging %d fonts (%d runs) and %d loop traces" % (len(e2e), stats["runs"], len(loops)))

    f_e2e = pool.submit(judge_parallel, chk, "Trace_C06", e2e, "Trace_C06 e2e", None, 4 if thorough else 3, 60)
    f_loop = pool.submit(judge_parallel, chk, "Trace_C06_Loop", loops, "Trace_C06_Loop", lambda part: {"meta": {}, "traces": part}, 1, 100000)
    rej, _x, _r = f_pack.result()
    report_simple(chk, rej, "pack")
    chk.traces_validated += len(pack_traces) - len(rej)
    rej, _x, _r = f_split.result()
    report_simple(chk, rej, "split")
    chk.traces_validated += len(split_traces) - len(rej)
    rej, extra, _r = f_e2e.result()
    hbs = extra.get("HBS", {})
    tot = [0, 0, 0]
    for v in hbs.values():
        for i in range(3):
            tot[i] += v[0][i]
    chk.notes["harfbuzz_vs_otlsem_on_in_memory_tables"] = {"probes_agreeing": tot[0], "probes_where_OTLSem_of_both_memory_and_bytes_differs_from_HarfBuzz (shaper convention, not judged)": tot[1],
                                                            "probes_not_compared (not plain OpenType for HarfBuzz / outside probe universe)": tot[2]}
    chk.traces_validated += len(e2e) - len(rej)
    e2e_rej = []
    for k, (st, clause) in rej.items():
        case, t = owner[id(st)]
        e2e_rej.append((case, t, clause[0]))
    rej, extra, _r = f_loop.result()
    pool.shutdown()
    acc, skp = extra.get("ACC", {}), extra.get("SKP", {})
    for tl in loops:
        if id(tl) in skp:
            chk.skip(skp[id(tl)][0])
            chk.notes.setdefault("inconclusive_compiles (budget exceeded, no non-progressing step seen)", []).append(
                "%s %s repacker-%s" % (tl["label"], tl["tag"], MODE_WORD[tl["mode"]]))
        elif id(tl) in acc:
            chk.traces_validated += 1
        elif id(tl) not in rej:
            raise MachineryError("Trace_C06_Loop: a trace was neither accepted nor rejected (%s)" % tl["label"])
    for tl in loops[:400]:
        if any(e["a"] == "Resolve" for e in tl["events"]) and id(tl) in acc:
            chk.sample({"loop": {"label": tl["label"], "mode": tl["mode"],
                                 "events": [e["a"] + (":" + e.get("p", "") + ":" + e.get("res", "") if e["a"] == "Attempt" else "") for e in tl["events"]]}})
            break
    # ---- verdicts: everything else first, the termination clause (candidate defect of DESIGN 7.6) last ---------
    for case, t, clause in sorted(e2e_rej, key=lambda x: x[0]["label"]):
        key = "%s@%s" % (clause, case["label"]) if case["kind"] != "gen" else "%s@%s" % (clause, case["label"])
        if clause.startswith("machinery:"):
            raise MachineryError("%s on %s" % (clause, case["label"]))
        what = "%s: %s; results: %s" % (case["label"], clause, [(x["modes"], x["err"] or "returned") for x in t["runs"]])
        chk.reject(key, what, {"kind": "e2e", "case": _case_for_replay(case)})
    later = []
    for k, (tl, clause) in rej.items():
        case, tr = owner[id(tl)]
        c = clause[0]
        if c.startswith("Terminates:"):
            later.append((case, tl, c, clause))
            continue
        key = "%s@%s:%s:repacker-%s" % (c, case["label"], tl["tag"], MODE_WORD[tl["mode"]])
        what = "%s %s compile (repacker %s): %s at event %s of %s" % (case["label"], tl["tag"], MODE_WORD[tl["mode"]], c, clause[1:],
                                                                   [e["a"] for e in tl["events"]][:40])
        chk.reject(key, what, {"kind": "loop", "case": _case_for_replay(case), "tag": tl["tag"], "mode": tl["mode"]})
    for case, tl, c, clause in later:
        key = "Terminates:%s:repacker-%s" % (case.get("label_key") or case["label"], MODE_WORD[tl["mode"]])
        nsub = sum(len(l["st"]) for l in (owner[id(tl)][1].get("final") or []))
        what = ("%s: %s.compile() with USE_HARFBUZZ_REPACKER=%s did not return (stopped after %d resolutions / budget of %d CPU-s): %s (event %s); "
                "the lookup list had grown to %d subtables when the run was stopped; events: %s"
                % (case["label"], tl["tag"], {"F": False, "N": None, "T": True}[tl["mode"]], 22, case.get("budget", 60), c, clause[1:], nsub,
                   [e["a"] + (":" + json.dumps(e["rec"]) if e.get("res") == "overflow" else "") for e in tl["events"]][:16]))
        chk.reject(key, what, {"kind": "loop", "case": _case_for_replay(case), "tag": tl["tag"], "mode": tl["mode"],
                               "reproducer": REPRODUCER if case.get("shape") == "gsub-ligature-one-set" else None})
    chk.exhaustive = False
    chk.notes["exhaustive_parts"] = {"MC_OTLPack": "all ordered writer trees with <= N nodes (cfg), every Seal choice, both modes",
                                     "MC_OTLRepack": "all lookup lists of the configured shapes over the prototype menu"}
    chk.assumptions += [
        "HarfBuzz (uharfbuzz) only observes; its results must be identical on every serialisation of the same in-memory tables (and on the "
        "original file of a corpus binary) and are compared with OTLSem applied to the in-memory projection; where OTLSem applied to BOTH the "
        "in-memory and the decompiled tables disagrees with HarfBuzz identically the probe is counted as a shaper convention outside OTLSem",
        "hb.repack itself is a black box (HBAtLeastFT: it succeeds whenever the pure-Python packer does); what it returns is judged through "
        "decompilation, Denote equality and shaping",
        "big tables are compared on a probe universe: all glyphs of fonts with <= 320 glyphs, otherwise the glyphs of sampled rules including "
        "the rules next to every subtable boundary of every result; rules leaving the universe are dropped on both sides alike",
        "a compile that exceeds its wall-clock budget is a termination violation only if the recorded loop contains a resolution that does not "
        "lower OTLResolve!Measure; otherwise it is skipped as inconclusive",
        "OTLResolve transcribes fix*/split* of this tree: a change of their arithmetic in /repo has to be mirrored in the specification",
        "an exception other than OTLOffsetOverflowError escaping compile counts as 'an error is raised' when the specification predicts it "
        "(UnboundLocalError / KeyError / TypeError paths of split* and fix* on records outside their cases)",
    ]


REPRODUCER = """from fontTools.ttLib import TTFont, newTable
from fontTools.ttLib.tables import otTables as ot
from fontTools.otlLib import builder
import itertools
names = ['.notdef'] + ['g%05d' % i for i in range(1, 12000)]
font = TTFont(); font.setGlyphOrder(names)
comps = names[10:40]; ligs = {}
for k, (a, b, c) in enumerate(itertools.islice(itertools.product(comps, comps, comps), 9000)):
    ligs[('g00001', a, b, c)] = names[100 + k]          # 9000 four-glyph ligatures in ONE LigatureSet (> 64 kB)
ligs[('g00002', 'g00003')] = 'g00004'
gsub = newTable('GSUB'); t = gsub.table = ot.GSUB(); t.Version = 0x00010000
t.ScriptList = ot.ScriptList(); t.ScriptList.ScriptRecord = []
t.FeatureList = ot.FeatureList(); t.FeatureList.FeatureRecord = []
t.LookupList = ot.LookupList(); t.LookupList.Lookup = [builder.buildLookup([builder.buildLigatureSubstSubtable(ligs)])]
font['GSUB'] = gsub
font.cfg['fontTools.ttLib.tables.otBase:USE_HARFBUZZ_REPACKER'] = False
gsub.compile(font)      # never returns: splitLigatureSubst(newLen = 1 // 2 = 0) moves the only LigatureSet and leaves an empty subtable, forever
"""


def _case_for_replay(case):
    return {k: v for k, v in case.items() if k != "order"}


def replay(chk, rep):
    from . import c06_pack, c06_split, c06_e2e

    r = rep["replay"]
    kind = r.get("kind")
    chk.log("replaying %s case against the current tree" % kind)
    if kind == "pack":
        traces = _pack_job((r["g"], r.get("label", "")))
        traces = [t for t in traces if t["mode"] == r["mode"]]
        rej, _x, _r = judge_parallel(chk, "Trace_C06", traces, "Trace_C06 pack replay")
        report_simple(chk, rej, "pack")
    elif kind == "split":
        st = dict(r["state"])
        st["rank"] = r.get("rank") or [2, 3, 1] + list(range(4, 13))
        traces = [c06_split.replay_state(st)]
        rej, _x, _r = judge_parallel(chk, "Trace_C06", traces, "Trace_C06 split replay")
        report_simple(chk, rej, "split")
    else:
        case = dict(r["case"])
        if case["kind"] == "fea":
            case = dict(fea_case(case["path"]), **{k: v for k, v in case.items() if k not in ("order",)})
        out = c06_e2e.run_case((case, chk.seed))
        if out["skip"]:
            chk.skip(out["skip"])
            return
        if out["e2e"] is not None:
            st = strip_e2e(out["e2e"])
            rej, _x, _r = judge_parallel(chk, "Trace_C06", [st], "Trace_C06 e2e replay")
            for _k, (_t, clause) in rej.items():
                chk.reject("%s@%s" % (clause[0], case["label"]), "%s: %s" % (case["label"], clause[0]), r)
        loops = [tidy_loop(tr) for tr in out["loops"]]
        rej, extra, _r = judge_parallel(chk, "Trace_C06_Loop", loops, "Trace_C06_Loop replay", wrap=lambda part: {"meta": {}, "traces": part})
        for _k, (tl, clause) in rej.items():
            c = clause[0]
            if c.startswith("Terminates:"):
                key = "Terminates:%s:repacker-%s" % (case.get("label_key") or case["label"], MODE_WORD[tl["mode"]])
            else:
                key = "%s@%s:%s:repacker-%s" % (c, case["label"], tl["tag"], MODE_WORD[tl["mode"]])
            chk.reject(key, "%s %s (repacker %s): %s" % (case["label"], tl["tag"], MODE_WORD[tl["mode"]], c), r)
