"""C06 (V): end-to-end cases and the recorder of the overflow-resolution loop.

A *case* describes how to obtain a font with IN-MEMORY layout tables (a corpus binary, a corpus TTX,
a feaLib build of a corpus .fea, a generated big table).  `run_case` (executed in a forked worker
under a wall-clock alarm) does, for every (repacker mode, GPOS compaction level) of the case:

    build the font afresh -> save it with font.cfg[USE_HARFBUZZ_REPACKER] = mode, recording the
    resolution loop of every GSUB/GPOS compile through run-time wrappers (no change in /repo)
    -> reopen the bytes with a fresh TTFont.

Then it picks a probe universe (all glyphs of small fonts; for big tables the glyphs of sampled rules,
always including the rules next to every subtable boundary of every result), projects the pristine
in-memory tables (M) and every decompiled result (P) with harness/otl_project.py, derives probe glyph
sequences from M's rules and lets HarfBuzz shape them on every result's bytes.  Everything is returned
as raw JSON for Trace_C06 / Trace_C06_Loop: no verdict is taken here."""
import copy
import io
import logging
import os
import signal

from . import common

MODES = {"F": False, "N": None, "T": True}
REPACK_KEY = "fontTools.ttLib.tables.otBase:USE_HARFBUZZ_REPACKER"
LEVEL_KEY = "fontTools.otlLib.optimize.gpos:COMPRESSION_LEVEL"
MAX_RESOLVES = 12  # loop events are recorded in full up to this many resolutions, then cut
STOP_RESOLVES = 22  # ... and the compile is stopped (reported as Timeout) after this many: a deterministic budget


class CaseTimeout(BaseException):
    pass


def _alarm(_sig, _frm):
    raise CaseTimeout()


def arm(cpu_seconds):
    """budget in CPU seconds of this process (ITIMER_PROF: independent of how loaded the machine is), with a
    wall-clock backstop 40 times as long"""
    signal.signal(signal.SIGPROF, _alarm)
    signal.signal(signal.SIGALRM, _alarm)
    signal.setitimer(signal.ITIMER_PROF, float(cpu_seconds))
    signal.alarm(int(cpu_seconds * 40))


def disarm():
    signal.setitimer(signal.ITIMER_PROF, 0)
    signal.alarm(0)


# ---------------------------------------------------------------------------
# structural summary of a lookup list (the state of specs/OTLRepack.tla)
# ---------------------------------------------------------------------------
def sub_summary(inner, ds, dsi, gid):
    name = type(inner).__name__
    out = {"k": "fix", "ds": bool(ds), "dsi": bool(dsi), "it": [], "nm": [], "cm": []}
    try:
        if name in ("LigatureSubst", "AlternateSubst", "MultipleSubst"):
            attr = {"LigatureSubst": "ligatures", "AlternateSubst": "alternates", "MultipleSubst": "mapping"}[name]
            keys = list(getattr(inner, attr).keys())
            out["k"] = {"LigatureSubst": "lig", "AlternateSubst": "alt", "MultipleSubst": "mult"}[name]
            out["it"] = sorted(gid(g) for g in keys)
            out["nm"] = [gid(g) for g in sorted(keys)]
        elif name == "PairPos" and inner.Format == 1:
            out["k"] = "pair1"
            out["it"] = [gid(g) for g in inner.Coverage.glyphs]
        elif name == "PairPos" and inner.Format == 2:
            out["k"] = "pair2"
            out["it"] = list(range(len(inner.Class1Record)))
            cd = inner.ClassDef1.classDefs if inner.ClassDef1 is not None else {}
            out["cm"] = [[gid(g), int(cd.get(g, 0))] for g in inner.Coverage.glyphs]
        elif name == "SinglePos" and inner.Format == 2:
            out["k"] = "sp2"
            out["it"] = [gid(g) for g in inner.Coverage.glyphs]
        elif name == "MarkBasePos":
            out["k"] = "mkb"
            out["it"] = list(range(int(inner.ClassCount)))
            out["cm"] = [[gid(g), int(r.Class)] for g, r in zip(inner.MarkCoverage.glyphs, inner.MarkArray.MarkRecord)]
    except Exception as e:  # a table the summary cannot read is outside the modelled domain
        out = {"k": "unreadable:" + type(e).__name__, "ds": bool(ds), "dsi": bool(dsi), "it": [], "nm": [], "cm": []}
    return out


def summarize(table, tag, font):
    gid = font.getGlyphID
    ext = 7 if tag == "GSUB" else 9
    out = []
    ll = getattr(table, "LookupList", None)
    for lk in (ll.Lookup if ll is not None else []):
        isext = lk.LookupType == ext
        subs = []
        for st in lk.SubTable:
            inner = st.ExtSubTable if isext else st
            subs.append(sub_summary(inner, hasattr(st, "DontShare"), isext and hasattr(inner, "DontShare"), gid))
        out.append({"ext": bool(isext), "st": subs})
    return out


# ---------------------------------------------------------------------------
# recorder: run-time wrappers around the loop of BaseTTXConverter.compile
# ---------------------------------------------------------------------------
class Recorder:
    def __init__(self):
        self.traces = []
        self.cur = None
        self.in_hb = False
        self.saved = None

    def _ev(self, **kw):
        tr = self.cur
        if tr is None:
            return
        if tr["nres"] > MAX_RESOLVES:
            tr["cut"] += 1
            return
        tr["events"].append(kw)

    def install(self):
        from fontTools.ttLib.tables import otBase, otTables

        R = self
        B = otBase.BaseTTXConverter
        W = otBase.OTTableWriter
        self.saved = (B.compile, B.tryPackingHarfbuzz, B.tryPackingFontTools, B.tryResolveOverflow, W.getAllData,
                      otTables.fixLookupOverFlows, otTables.fixSubTableOverFlows)
        o_compile, o_hb, o_ft, o_res, o_gad, o_fixl, o_fixs = self.saved

        def rec_fields(r):
            return {"L": -1 if r.LookupListIndex is None else int(r.LookupListIndex),
                    "S": -1 if r.SubTableIndex is None else int(r.SubTableIndex),
                    "name": "" if r.itemName is None else str(r.itemName),
                    "idx": -1 if r.itemIndex is None else int(r.itemIndex)}

        def compile_(self, font):
            if self.tableTag not in ("GSUB", "GPOS") or R.cur is not None:
                return o_compile(self, font)
            mode = font.cfg[otBase.USE_HARFBUZZ_REPACKER]
            tr = {"tag": self.tableTag, "mode": {False: "F", None: "N", True: "T"}[mode], "hb": bool(otBase.have_uharfbuzz),
                  "init": summarize(self.table, self.tableTag, font), "events": [], "nres": 0, "cut": 0}
            R.cur = tr
            R.traces.append(tr)
            end = None
            try:
                data = o_compile(self, font)
                end = {"a": "Return", "len": len(data)}
                return data
            except otBase.OTLOffsetOverflowError:
                end = {"a": "Raise"}
                raise
            except CaseTimeout:
                end = {"a": "Timeout"}
                raise
            except Exception as e:
                end = {"a": "Crash", "exc": type(e).__name__}
                raise
            finally:
                if tr["cut"]:
                    tr["events"].append({"a": "Cut", "n": tr["cut"]})
                tr["events"].append(end or {"a": "Crash", "exc": "BaseException"})
                tr["final"] = summarize(self.table, self.tableTag, font)
                R.cur = None

        def pack(kind, orig):
            def f(self, writer, *a):
                R._ev(a="Attempt", p=kind)
                R.in_hb = kind == "hb"
                try:
                    out = orig(self, writer, *a)
                    R._ev(a="PackOK")
                    return out
                except otBase.OTLOffsetOverflowError as e:
                    R._ev(a="Overflow", **rec_fields(e.value))
                    raise
                finally:
                    R.in_hb = False
            return f

        def gad(self, remove_duplicate=True):
            if R.in_hb and remove_duplicate is False:
                R._ev(a="HBFail")
            return o_gad(self, remove_duplicate)

        def resolve(self, font, e, last):
            tr = R.cur
            steps = []
            R.steps = steps
            try:
                ok = o_res(self, font, e, last)
            except CaseTimeout:
                raise
            except Exception as x:
                if tr is not None:
                    tr["nres"] += 1
                R._ev(a="Resolve", ok=False, crash=type(x).__name__, steps=steps, same=last is e.value, after=[])
                raise
            if tr is not None:
                tr["nres"] += 1
            R._ev(a="Resolve", ok=bool(ok), crash="", steps=steps, same=last is e.value,
                  after=summarize(self.table, self.tableTag, font) if tr is not None and tr["nres"] <= MAX_RESOLVES else [])
            if tr is not None and tr["nres"] >= STOP_RESOLVES:
                raise CaseTimeout()
            return ok

        def fix(kind, orig):
            def f(ttf, rec):
                ok = orig(ttf, rec)
                if getattr(R, "steps", None) is not None:
                    R.steps.append([kind, bool(ok)])
                return ok
            return f

        B.compile = compile_
        B.tryPackingHarfbuzz = pack("hb", o_hb)
        B.tryPackingFontTools = pack("ft", o_ft)
        B.tryResolveOverflow = resolve
        W.getAllData = gad
        otTables.fixLookupOverFlows = fix("lookup", o_fixl)
        otTables.fixSubTableOverFlows = fix("sub", o_fixs)

    def uninstall(self):
        from fontTools.ttLib.tables import otBase, otTables

        B = otBase.BaseTTXConverter
        (B.compile, B.tryPackingHarfbuzz, B.tryPackingFontTools, B.tryResolveOverflow, otBase.OTTableWriter.getAllData,
         otTables.fixLookupOverFlows, otTables.fixSubTableOverFlows) = self.saved


# ---------------------------------------------------------------------------
# building the font of a case
# ---------------------------------------------------------------------------
_BASE = {}


def base_font_bytes(order, advs=None):
    """A complete TrueType font with the given glyph order (empty outlines), cached."""
    from fontTools.fontBuilder import FontBuilder
    from fontTools.ttLib.tables._g_l_y_f import Glyph

    key = (len(order), hash(tuple(order)))
    if key not in _BASE:
        fb = FontBuilder(1000, isTTF=True)
        fb.setupGlyphOrder(list(order))
        fb.setupCharacterMap({})
        empty = Glyph()
        fb.setupGlyf({n: empty for n in order})
        fb.setupHorizontalMetrics({n: ((advs or {}).get(n, 400 + (i % 53) * 10), 0) for i, n in enumerate(order)})
        fb.setupHorizontalHeader(ascent=800, descent=-200)
        fb.setupNameTable({"familyName": "C06", "styleName": "Regular"})
        fb.setupOS2()
        fb.setupPost(keepGlyphNames=True)
        bio = io.BytesIO()
        fb.font.save(bio)
        _BASE[key] = bio.getvalue()
    return _BASE[key]


def build_font(case, level):
    """-> TTFont whose GSUB/GPOS/GDEF are in-memory objects (fully decompiled where loaded)."""
    from fontTools.ttLib import TTFont

    kind = case["kind"]
    if kind == "bin":
        font = TTFont(case["path"], fontNumber=case.get("num", -1), lazy=False)
    elif kind == "ttx":
        font = TTFont(recalcTimestamp=False)
        font.importXML(case["path"])
    elif kind == "fea":
        from fontTools.feaLib.builder import addOpenTypeFeatures

        font = TTFont(io.BytesIO(base_font_bytes(case["order"])))
        font.cfg[LEVEL_KEY] = level
        addOpenTypeFeatures(font, case["path"])
    elif kind == "gen":
        from . import c06_gen

        font = TTFont(io.BytesIO(base_font_bytes(c06_gen.glyph_order(case["nglyphs"])))) if case.get("full", True) else TTFont()
        if not case.get("full", True):
            font.setGlyphOrder(c06_gen.glyph_order(case["nglyphs"]))
        font.cfg[LEVEL_KEY] = level
        c06_gen.build(font, case)
    else:
        raise common.MachineryError("case kind %r" % kind)
    for tag in ("GSUB", "GPOS", "GDEF"):
        if tag in font:
            font[tag].ensureDecompiled(recurse=True)
    if level and kind in ("bin", "ttx", "gen"):
        from fontTools.otlLib.optimize.gpos import compact

        compact(font, level)
    return font


# ---------------------------------------------------------------------------
# rule sampling -> probe universe
# ---------------------------------------------------------------------------
DENSE = [True]


def _picks(n, extra=()):
    """indices into a list of n rules: both ends, the middle pair, eighths (dense sampling only), and `extra`"""
    if n <= 0:
        return []
    s = {0, n - 1, n // 2, max(0, n // 2 - 1)}
    if DENSE[0]:
        s |= {min(n - 1, (n * k) // 8) for k in range(1, 8)}
    s |= {i for i in extra if 0 <= i < n}
    return sorted(s)


def _inner(tag, lk):
    ext = 7 if tag == "GSUB" else 9
    for st in lk.SubTable:
        yield (st.ExtSubTable if lk.LookupType == ext else st)


def main_keys(st, gid):
    """the glyph names that select a rule of the subtable, in glyph-id order"""
    name = type(st).__name__
    try:
        if name in ("SingleSubst", "MultipleSubst"):
            keys = list(st.mapping)
        elif name == "AlternateSubst":
            keys = list(st.alternates)
        elif name == "LigatureSubst":
            keys = list(st.ligatures)
        elif name == "MarkBasePos":
            keys = list(st.MarkCoverage.glyphs)
        elif name == "MarkLigPos":
            keys = list(st.MarkCoverage.glyphs)
        elif name == "MarkMarkPos":
            keys = list(st.Mark1Coverage.glyphs)
        elif hasattr(st, "Coverage") and st.Coverage is not None and not isinstance(st.Coverage, list):
            keys = list(st.Coverage.glyphs)
        elif name.startswith("ChainContext") and st.Format == 3 and st.InputCoverage:
            keys = list(st.InputCoverage[0].glyphs)
        elif name.startswith("Context") and st.Format == 3 and st.Coverage:
            keys = list(st.Coverage[0].glyphs)
        else:
            keys = []
    except Exception:
        keys = []
    return sorted(keys, key=gid)


def sample_glyphs(tag, table, gid, boundary, out, cap=10):
    """add to `out` the glyph names of sampled rules of every subtable of `table`; `boundary` = glyph names
    at which some result starts or ends a subtable (their rules are always included)"""
    ll = getattr(table, "LookupList", None)
    if ll is None:
        return
    DENSE[0] = sum(len(lk.SubTable) for lk in ll.Lookup) <= 8      # many subtables: ends, middle and boundaries only
    for lk in ll.Lookup:
        subs = list(_inner(tag, lk))
        if len(subs) > 24:                         # very many subtables (one rule each, typically): sample the subtables
            dense, DENSE[0] = DENSE[0], True
            subs = [subs[i] for i in _picks(len(subs), (1, len(subs) - 2))]
            DENSE[0] = dense
        for st in subs:
            name = type(st).__name__
            keys = main_keys(st, gid)
            pos = {k: i for i, k in enumerate(keys)}
            extra = set()
            for b in boundary:
                if b in pos:
                    extra |= {pos[b] - 1, pos[b], pos[b] + 1}
            chosen = [keys[i] for i in _picks(len(keys), extra)]
            out.update(chosen)
            try:
                if name == "SingleSubst":
                    out.update(st.mapping[k] for k in chosen)
                elif name == "MultipleSubst":
                    for k in chosen:
                        out.update(st.mapping[k])
                elif name == "AlternateSubst":
                    for k in chosen:
                        out.update(st.alternates[k][:3])
                elif name == "LigatureSubst":
                    for k in chosen:
                        ligs = st.ligatures[k]
                        for i in (range(len(ligs)) if len(ligs) <= 24 else _picks(len(ligs))[:cap]):
                            out.update(ligs[i].Component)
                            out.add(ligs[i].LigGlyph)
                elif name == "PairPos" and st.Format == 1:
                    idx = {g: i for i, g in enumerate(st.Coverage.glyphs)}
                    for k in chosen:
                        recs = st.PairSet[idx[k]].PairValueRecord
                        for i in _picks(len(recs))[:cap]:
                            out.add(recs[i].SecondGlyph)
                elif name == "PairPos" and st.Format == 2:
                    cd1 = st.ClassDef1.classDefs
                    by1 = {}
                    for g in st.Coverage.glyphs:
                        by1.setdefault(cd1.get(g, 0), []).append(g)
                    for c, gs in sorted(by1.items())[:260]:
                        gs.sort(key=gid)
                        out.update({gs[0], gs[-1]})
                    by2 = {}
                    for g, c in st.ClassDef2.classDefs.items():
                        by2.setdefault(c, []).append(g)
                    cls2 = sorted(by2)
                    for c in [cls2[i] for i in _picks(len(cls2))]:
                        out.add(min(by2[c], key=gid))
                elif name in ("MarkBasePos", "MarkLigPos", "MarkMarkPos"):
                    mcov, marr, bcov = {"MarkBasePos": ("MarkCoverage", "MarkArray", "BaseCoverage"), "MarkLigPos": ("MarkCoverage", "MarkArray", "LigatureCoverage"),
                                        "MarkMarkPos": ("Mark1Coverage", "Mark1Array", "Mark2Coverage")}[name]
                    byc = {}
                    for g, r in zip(getattr(st, mcov).glyphs, getattr(st, marr).MarkRecord):
                        byc.setdefault(r.Class, []).append(g)
                    for c, gs in sorted(byc.items())[:260]:
                        out.update({gs[0], gs[-1]})
                    bs = list(getattr(st, bcov).glyphs)
                    out.update(bs[i] for i in _picks(len(bs)))
                elif name == "CursivePos":
                    pass
                elif "Context" in name:
                    _context_glyphs(st, chosen, out)
            except Exception:
                pass  # sampling only widens the universe; what is compared is decided by the projections


def _context_glyphs(st, chosen, out):
    name = type(st).__name__
    chain = name.startswith("Chain")
    T = "Sub" if name.endswith("Subst") else "Pos"
    C = "Chain" if chain else ""
    if st.Format == 1:
        idx = {g: i for i, g in enumerate(st.Coverage.glyphs)}
        sets = getattr(st, C + T + "RuleSet")
        for k in chosen:
            rs = sets[idx[k]]
            for rule in (getattr(rs, C + T + "Rule") if rs is not None else [])[:6]:
                out.update(rule.Input)
                if chain:
                    out.update(rule.Backtrack)
                    out.update(rule.LookAhead)
    elif st.Format == 2:
        defs = [st.BacktrackClassDef, st.InputClassDef, st.LookAheadClassDef] if chain else [st.ClassDef]
        for cd in defs:
            by = {}
            for g, c in (cd.classDefs if cd is not None else {}).items():
                by.setdefault(c, []).append(g)
            for c, gs in sorted(by.items())[:40]:
                out.add(sorted(gs)[0])
    elif st.Format == 3:
        covs = (list(st.BacktrackCoverage) + list(st.InputCoverage) + list(st.LookAheadCoverage)) if chain else list(st.Coverage)
        for c in covs:
            gs = list(c.glyphs)
            out.update(gs[i] for i in _picks(len(gs))[:4])


def boundaries(tag, table, gid):
    out = set()
    ll = getattr(table, "LookupList", None)
    for lk in (ll.Lookup if ll is not None else []):
        for st in _inner(tag, lk):
            keys = main_keys(st, gid)
            if keys:
                out.update({keys[0], keys[-1]})
            if type(st).__name__ == "MarkBasePos":
                byc = {}
                for g, r in zip(st.MarkCoverage.glyphs, st.MarkArray.MarkRecord):
                    byc.setdefault(r.Class, g)
                out.update(byc.values())
    return out


# ---------------------------------------------------------------------------
# probes and HarfBuzz observations
# ---------------------------------------------------------------------------
def lookup_probes(M, rng, per_lookup=48):
    """Probe sequences per lookup, from the rules of the (restricted) in-memory projection: every sampled
    rule's own input, with and without context, single glyphs, and pairs over the lookup's first glyphs."""
    out = {}
    for tb in ("gsub", "gpos"):
        res = []
        for lk in M[tb]["lookups"]:
            seqs = []
            ty = lk["ty"]
            firsts = []
            seconds = []
            classy = 0
            for st in lk["st"]:
                if ty in ("sub1", "sub2", "sub3", "pos1", "curs"):
                    for e in st["m"]:
                        seqs.append([e[0]])
                        firsts.append(e[0])
                    if ty == "curs":
                        gs = [e[0] for e in st["m"]]
                        for a in gs[:5]:
                            for b in gs[:5]:
                                seqs.append([a, b])
                elif ty == "sub4":
                    for comps, _l in st["l"]:
                        seqs.append(list(comps))
                        seqs.append(list(comps[:-1]) or list(comps))
                        seqs.append(list(comps) + [comps[-1]])
                        firsts.append(comps[0])
                elif ty == "ctx":
                    for r in st["r"]:
                        pick = lambda s: s[0]
                        i = [pick(s) for s in r["i"]]
                        seqs.append([pick(s) for s in reversed(r["b"])] + i + [pick(s) for s in r["a"]])
                        seqs.append(i)
                        seqs.append([s[-1] for s in reversed(r["b"])] + [s[-1] for s in r["i"]] + [s[-1] for s in r["a"]])
                elif ty == "rsub":
                    for r in st["r"]:
                        for e in r["m"][:4]:
                            seqs.append([s[0] for s in reversed(r["b"])] + [e[0]] + [s[0] for s in r["a"]])
                            seqs.append([e[0]])
                elif ty == "pos2":
                    if st["f"] == 1:
                        for e in st["p"]:
                            seqs.append([e[0], e[1]])
                            firsts.append(e[0])
                            seconds.append(e[1])
                    else:
                        firsts += st["cov"]
                        # every class1 (first glyph set) with its first and last listed class2, then the rest
                        by1 = {}
                        for e in st["c"]:
                            by1.setdefault(tuple(e[0]), []).append(e)
                        rest = []
                        for s1, es in by1.items():
                            for e in (es[0], es[-1]):
                                seqs.insert(0, [e[0][0], e[1][0]])
                            seqs.insert(0, [s1[-1], es[len(es) // 2][1][-1]])
                            rest += es[1:-1]
                        for e in rest[:: max(1, len(rest) // 40)]:
                            seqs.append([e[0][0], e[1][0]])
                        seconds += [e[1][0] for e in st["c"][:8]]
                        classy = max(classy, 3 * len(by1))
                elif ty in ("mkb", "mkm"):
                    for b in st["bases"]:
                        for m in st["marks"]:
                            seqs.append([b[0], m[0]])
                    for m in st["marks"][:3]:
                        for b in st["bases"][:3]:
                            seqs.append([b[0], m[0], st["marks"][0][0]])
                elif ty == "mkl":
                    for l in st["ligs"]:
                        for m in st["marks"]:
                            seqs.append([l[0], m[0]])
            if ty == "pos2":
                f1 = sorted(set(firsts))
                s2 = sorted(set(seconds))[:6]
                for a in f1:
                    for b in s2[:3]:
                        seqs.append([a, b])
                for a in f1[:6]:
                    seqs.append([a, a])
            uniq, seen = [], set()
            for s in seqs:
                k = tuple(s)
                if s and k not in seen:
                    seen.add(k)
                    uniq.append(s)
            per_lookup_here = min(420, max(per_lookup, classy))
            if len(uniq) > per_lookup_here:
                # keep a spread: rules next to subtable boundaries come first in st order, so take both ends and a sample
                head = max(per_lookup_here // 4, classy)
                keep = uniq[:head] + uniq[-(per_lookup_here // 4):]
                rest = uniq[head: -(per_lookup_here // 4)]
                keep += rng.sample(rest, max(0, min(len(rest), per_lookup_here - len(keep))))
                uniq = keep
            res.append(uniq)
        out[tb] = res
    return out


def _empty_sub(ty, st):
    if ty in ("sub1", "sub2", "sub3", "pos1", "curs"):
        return not st["m"]
    if ty == "sub4":
        return not st["l"]
    if ty in ("ctx", "rsub"):
        return not st["r"]
    if ty == "pos2":
        return not (st["p"] if st["f"] == 1 else st["cov"])
    if ty in ("mkb", "mkm"):
        return not st["marks"] or not st["bases"]
    if ty == "mkl":
        return not st["marks"] or not st["ligs"]
    return False


def prune_empty(layout):
    """Drop subtables that are empty after the restriction to the probe universe (they can never match, so
    no lookup's behaviour changes); keeps the TLA+ applicator's recursion over subtables shallow."""
    for tb in ("gsub", "gpos"):
        for lk in layout[tb]["lookups"]:
            lk["st"] = [st for st in lk["st"] if not _empty_sub(lk["ty"], st)]
    return layout


def hb_configs(M):
    from .hb import PLAIN_TAG_BLACKLIST

    pairs, tags = [], set()
    for tb in ("gsub", "gpos"):
        for e in M[tb]["fl"]:
            if (e[0], e[1]) not in pairs:
                pairs.append((str(e[0]), str(e[1])))
            tags.add(str(e[2]))
    on = sorted(t for t in tags if t not in PLAIN_TAG_BLACKLIST)
    off = sorted(t for t in tags if t in PLAIN_TAG_BLACKLIST)
    if not pairs:
        pairs = [("DFLT", "dflt")]
    return [(s, l, on) for s, l in pairs[:2]], off


def hb_observe(data, cfgs, off, seqs, uni):
    """HarfBuzz (glyph-id input) on font bytes: sparse results per config and sequence, abstract glyph = gid + 1;
    a result glyph outside the universe is reported as 0"""
    from . import hb as H

    sh = H.Shaper(data)
    out = []
    for s, l, on in cfgs:
        feats = {t: 1 for t in on}
        feats.update({t: 0 for t in off})
        res = []
        for q in seqs:
            r = sh.shape_rel([g - 1 for g in q], feats, s, l)
            gl = [(x[0] + 1) if (x[0] + 1) in uni else 0 for x in r]
            adj = [[i + 1, x[1], x[2], x[3], x[4]] for i, x in enumerate(r) if x[1] or x[2] or x[3] or x[4]]
            res.append([] if (gl == q and not adj) else [gl, adj])
        out.append(res)
    return out


# ---------------------------------------------------------------------------
# the worker
# ---------------------------------------------------------------------------
def fill_optional_values(tables):
    """in-memory PairPos records built by feaLib / importXML may lack the Value1 / Value2 attribute altogether when
    the value format is 0; the projector reads both: give the missing ones the value None (observation aid only,
    applied to the pristine build and to decompiled results, never to a font that is compiled afterwards)"""
    t = tables.get("GPOS")
    ll = getattr(t, "LookupList", None) if t is not None else None
    for lk in (ll.Lookup if ll is not None else []):
        for st in _inner("GPOS", lk):
            if type(st).__name__ != "PairPos":
                continue
            recs = []
            if st.Format == 1:
                for ps in st.PairSet:
                    recs += list(ps.PairValueRecord)
            elif st.Format == 2:
                for c1 in st.Class1Record:
                    recs += list(c1.Class2Record)
            for r in recs:
                for a in ("Value1", "Value2"):
                    if a not in r.__dict__:
                        setattr(r, a, None)
    return tables


def layout_tables(font):
    return {tag: font[tag].table for tag in ("GSUB", "GPOS", "GDEF") if tag in font and hasattr(font[tag], "table")}


def has_class_pairs(gpos):
    ll = getattr(gpos, "LookupList", None)
    for lk in (ll.Lookup if ll is not None else []):
        for st in _inner("GPOS", lk):
            if type(st).__name__ == "PairPos" and st.Format == 2:
                return True
    return False


def run_case(arg):
    """-> {"case":…, "e2e": trace for Trace_C06 (or None), "loops": [traces for Trace_C06_Loop], "skip": reason|None}"""
    case, seed = arg
    import random
    from fontTools.ttLib import TTFont
    from .otl_project import project_layout

    rng = random.Random("%s-%d" % (case["label"], seed))
    logging.disable(logging.CRITICAL)
    result = {"case": case, "e2e": None, "loops": [], "skip": None}
    rec = Recorder()
    try:
        # ---- the pristine in-memory tables (level 0) --------------------------------
        arm(case.get("budget", 60) * 3)
        try:
            pristine = build_font(case, 0)
        except CaseTimeout:
            raise
        except Exception as e:
            result["skip"] = "case cannot be built: %s" % type(e).__name__
            return result
        order = pristine.getGlyphOrder()
        gid = pristine.getGlyphID
        tabs0 = layout_tables(pristine)
        if not any(t in tabs0 for t in ("GSUB", "GPOS")):
            result["skip"] = "no GSUB/GPOS"
            return result
        # ---- runs ---------------------------------------------------------------------
        plan = [tuple(x) for x in case["runs"]]
        if case.get("levels") and "GPOS" in tabs0 and has_class_pairs(tabs0["GPOS"]):
            plan += [("N", l) for l in case["levels"]] + [("F", case["levels"][-1])]
        runs = []
        rec.install()
        try:
            for mode, level in plan:
                run = {"mode": mode, "lvl": level, "err": "", "bytes": None}
                n0 = len(rec.traces)
                arm(case.get("budget", 60))
                try:
                    font = build_font(case, level)
                    font.cfg[REPACK_KEY] = MODES[mode]
                    run["font"] = font
                    bio = io.BytesIO()
                    font.save(bio)
                    run["bytes"] = bio.getvalue()
                except CaseTimeout:
                    run["err"] = "Timeout"
                except Exception as e:
                    run["err"] = type(e).__name__
                finally:
                    disarm()
                    rec.cur = None
                for tr in rec.traces[n0:]:
                    tr["label"] = case["label"]
                    tr["lvl"] = level
                    tr.pop("nres", None)
                    tr.pop("cut", None)
                run["loops"] = rec.traces[n0:]
                runs.append(run)
        finally:
            rec.uninstall()
        result["loops"] = [tr for r in runs for tr in r["loops"]]
        arm(case.get("budget", 60) * 3)
        # ---- reopen the results ---------------------------------------------------------
        for r in runs:
            r["res"] = None
            if r["bytes"] is not None:
                try:
                    f2 = TTFont(io.BytesIO(r["bytes"]), lazy=False)
                    for tag in ("GSUB", "GPOS", "GDEF"):
                        if tag in f2:
                            f2[tag].ensureDecompiled(recurse=True)
                    r["res"] = f2
                except CaseTimeout:
                    raise
                except Exception as e:
                    r["err"] = "decompile:" + type(e).__name__
        # ---- probe universe -------------------------------------------------------------
        n = len(order)
        if n <= case.get("all_glyphs_below", 320):
            names = set(order)
        else:
            bnd = set()
            for r in runs:
                for f in (r.get("font"), r.get("res")):
                    if f is None:
                        continue
                    for tag, t in layout_tables(f).items():
                        if tag != "GDEF":
                            bnd |= boundaries(tag, t, gid)
            names = set(order[:2])
            for tag, t in tabs0.items():
                if tag != "GDEF":
                    sample_glyphs(tag, t, gid, bnd, names)
            for r in runs:  # results may have split subtables: sample them as well (their boundary rules)
                if r["res"] is not None:
                    for tag, t in layout_tables(r["res"]).items():
                        if tag != "GDEF":
                            sample_glyphs(tag, t, gid, bnd, names, cap=4)
            names = {g for g in names if isinstance(g, str)}
        inorder = set(order)
        gmap = {g: gid(g) + 1 for g in names if g in inorder}
        uni = set(gmap.values())
        advs = {g: pristine["hmtx"].metrics[g][0] for g in gmap if "hmtx" in pristine and g in pristine["hmtx"].metrics}
        try:
            M, uns = project_layout(fill_optional_values(tabs0), gmap, adv=advs)
        except CaseTimeout:
            raise
        except Exception as e:
            result["skip"] = "in-memory tables cannot be projected: %s" % type(e).__name__
            return result
        prune_empty(M)
        probes = lookup_probes(M, rng, per_lookup=case.get("per_lookup", 48))
        allseq, seen = [], set()
        for tb in ("gsub", "gpos"):
            for ps in probes[tb]:
                for q in ps:
                    if tuple(q) not in seen and len(allseq) < case.get("max_shape", 90):
                        seen.add(tuple(q))
                        allseq.append(q)
        cfgs, off = hb_configs(M)
        out_runs = []
        by_bytes = {}
        for r in runs:
            o = {"modes": [[r["mode"], r["lvl"]]], "err": r["err"], "same": False, "P": {}, "hb": [], "sameM": False}
            if r["res"] is not None:
                tb = r["bytes"]
                rd = TTFont(io.BytesIO(tb), lazy=True).reader
                key = common.digest(b"".join(bytes(rd[t]) for t in ("GDEF", "GSUB", "GPOS") if t in rd))
                if key in by_bytes:   # identical table bytes as an earlier run: one judged result, several modes
                    by_bytes[key]["modes"].append([r["mode"], r["lvl"]])
                    continue
                by_bytes[key] = o
                P, uns2 = project_layout(fill_optional_values(layout_tables(r["res"])), gmap, adv=advs)
                prune_empty(P)
                uns = uns + [u for u in uns2 if u not in uns]
                o["sameM"] = P == M
                o["P"] = {} if o["sameM"] else P
                if case.get("full", True):
                    try:
                        o["hb"] = hb_observe(tb, cfgs, off, allseq, uni)
                    except CaseTimeout:
                        raise
                    except Exception as e:
                        o["hbskip"] = type(e).__name__
            out_runs.append(o)
        orig_hb = []
        if case["kind"] == "bin" and case.get("full", True):
            try:
                with open(case["path"], "rb") as f:
                    orig_hb = hb_observe(f.read(), cfgs, off, allseq, uni) if case.get("num", -1) <= 0 else []
            except Exception:
                orig_hb = []
        result["e2e"] = {"k": "e2e", "label": case["label"], "M": M, "runs": out_runs, "probes": probes, "seqs": allseq,
                         "cfgs": [[s, l, on] for s, l, on in cfgs], "orig": orig_hb, "packable": case.get("packable", "unknown"),
                         "uns": sorted({"%s: %s" % (a, b) for a, b in uns})[:8], "nuni": len(uni)}
        return result
    except CaseTimeout:
        result["skip"] = "harness budget exceeded outside compile"
        return result
    finally:
        disarm()
        logging.disable(logging.NOTSET)
