"""C06: generated layout tables that overflow 16-bit offsets at every level, built with otlLib.builder.
Counts are derived from the 64 kB limit (LIMIT) and the byte size of one item of each table type."""
import random

LIMIT = 65536
FEATURE = "ss01"


def glyph_order(n):
    """n glyph names whose sorted() order is NOT the glyph-id order (the split functions cut in name order)"""
    r = random.Random(n)
    suffix = list(range(1, n))
    r.shuffle(suffix)
    return [".notdef"] + ["g%05d" % s for s in suffix]


def count_for(item_bytes, factor):
    """items needed so that their total size is factor x 64 kB"""
    return int(LIMIT * factor / item_bytes) + 1


def wrap(font, tag, lookups, gdef_marks=None):
    from fontTools.ttLib import newTable
    from fontTools.ttLib.tables import otTables as ot

    t = newTable(tag)
    tb = t.table = getattr(ot, tag)()
    tb.Version = 0x00010000
    tb.LookupList = ot.LookupList()
    tb.LookupList.Lookup = lookups
    tb.LookupList.LookupCount = len(lookups)
    fr = ot.FeatureRecord()
    fr.FeatureTag = FEATURE
    fr.Feature = ot.Feature()
    fr.Feature.FeatureParams = None
    fr.Feature.LookupListIndex = list(range(len(lookups)))
    fr.Feature.LookupCount = len(lookups)
    tb.FeatureList = ot.FeatureList()
    tb.FeatureList.FeatureRecord = [fr]
    tb.FeatureList.FeatureCount = 1
    ls = ot.LangSys()
    ls.LookupOrder = None
    ls.ReqFeatureIndex = 0xFFFF
    ls.FeatureIndex = [0]
    ls.FeatureCount = 1
    sr = ot.ScriptRecord()
    sr.ScriptTag = "DFLT"
    sr.Script = ot.Script()
    sr.Script.DefaultLangSys = ls
    sr.Script.LangSysRecord = []
    sr.Script.LangSysCount = 0
    tb.ScriptList = ot.ScriptList()
    tb.ScriptList.ScriptRecord = [sr]
    tb.ScriptList.ScriptCount = 1
    font[tag] = t
    if gdef_marks is not None:
        g = newTable("GDEF")
        gd = g.table = ot.GDEF()
        gd.Version = 0x00010000
        gd.GlyphClassDef = ot.GlyphClassDef()
        gd.GlyphClassDef.classDefs = {m: 3 for m in gdef_marks}
        gd.AttachList = gd.LigCaretList = gd.MarkAttachClassDef = None
        font["GDEF"] = g


def build(font, case):
    from fontTools.otlLib import builder
    from fontTools.ttLib.tables import otTables as ot

    names = font.getGlyphOrder()
    gmap = font.getReverseGlyphMap()
    n = len(names)
    shape = case["shape"]
    f = case.get("factor", 1.15)
    G = names[1:]                               # in glyph-id order
    r = random.Random(shape)

    if shape == "gsub-many-lookups":
        # LookupList -> Lookup offsets: each lookup = SingleSubst format 2 of `per` mappings (2 bytes each + coverage)
        per = 700
        nl = count_for(per * 4 + 12, f)
        lookups = []
        for i in range(nl):
            keys = G[i * 13: i * 13 + per]
            m = {k: G[(gmap[k] * 7 + i * 31) % (n - 1)] for k in keys}
            lookups.append(builder.buildLookup([builder.buildSingleSubstSubtable(m)]))
        wrap(font, "GSUB", lookups)
    elif shape == "gsub-shared-coverage":
        # many lookups over the SAME keys: one Coverage shared across lookups, far away from the first subtables
        per = 700
        nl = count_for(per * 2 + 10, f)
        keys = G[100: 100 + per]
        lookups = []
        for i in range(nl):
            m = {k: G[(gmap[k] * 11 + i * 17 + 3) % (n - 1)] for k in keys}
            lookups.append(builder.buildLookup([builder.buildSingleSubstSubtable(m)]))
        wrap(font, "GSUB", lookups)
    elif shape == "gsub-many-subtables":
        # Lookup -> SubTable offsets: one lookup with many SingleSubst subtables over disjoint keys
        per = 400
        ns = count_for(per * 4 + 12, f)
        subs = []
        for i in range(ns):
            keys = G[i * per % (n - 1 - per): i * per % (n - 1 - per) + per] if (i + 1) * per < n - 1 else G[(i * 37) % 500::(n // per)][:per]
            subs.append(builder.buildSingleSubstSubtable({k: G[(gmap[k] * 5 + i) % (n - 1)] for k in keys}))
        small = builder.buildLookup([builder.buildSingleSubstSubtable({G[5]: G[6]})])
        wrap(font, "GSUB", [builder.buildLookup(subs), small])
    elif shape == "gsub-ligatures":
        # SubTable -> Coverage (sorted last): many LigatureSets of a dozen 3-component ligatures (8 bytes + offset)
        per = 12
        nf = count_for(2 + per * 10, f)
        ligs = {}
        for i in range(nf):
            first = G[10 + i]
            for j in range(per):
                ligs[(first, G[(i * 3 + j * 5) % 300 + 3000], G[(j * 11 + i) % 200 + 3400])] = G[(i * per + j) % 2000 + 3700]
        wrap(font, "GSUB", [builder.buildLookup([builder.buildLigatureSubstSubtable(ligs)])])
    elif shape == "gsub-ligature-one-set":
        # ONE LigatureSet larger than 64 kB (four-glyph ligatures on the same first glyph) plus one other ligature
        nl = count_for(10, case.get("factor", 1.35))
        comps = G[10:40]
        ligs = {}
        k = 0
        for a in comps:
            for b in comps:
                for c in comps:
                    if k < nl:
                        ligs[(G[0], a, b, c)] = G[100 + k]
                        k += 1
        ligs[(G[1], G[2])] = G[3]
        wrap(font, "GSUB", [builder.buildLookup([builder.buildLigatureSubstSubtable(ligs)])])
    elif shape == "gsub-multiple":
        # SubTable -> Sequence[i] (Coverage first): sequences of five glyphs (12 bytes + offset)
        nk = count_for(14, f)
        m = {G[i]: [G[(i * 3 + j * 7) % (n - 1)] for j in range(5)] for i in range(nk)}
        wrap(font, "GSUB", [builder.buildLookup([builder.buildMultipleSubstSubtable(m)])])
    elif shape == "gsub-alternates":
        nk = count_for(2 + 6 * 2 + 2, f)
        m = {G[i]: [G[(i * 5 + j * 3 + 1) % (n - 1)] for j in range(6)] for i in range(nk)}
        wrap(font, "GSUB", [builder.buildLookup([builder.buildAlternateSubstSubtable(m)])])
    elif shape == "gsub-chain-contexts":
        # a big contextual lookup the way feaLib writes it: one format-3 subtable per rule (Lookup -> SubTable offsets)
        target = builder.buildLookup([builder.buildSingleSubstSubtable({G[i]: G[i + 1] for i in range(0, 60, 2)})])
        nr = count_for(28, f)
        subs = []
        for i in range(nr):
            st = ot.ChainContextSubst()
            st.Format = 3
            st.BacktrackCoverage = [builder.buildCoverage([G[(i * 7) % 1500 + 100]], gmap)]
            st.InputCoverage = [builder.buildCoverage([G[(i % 30) * 2]], gmap)]
            st.LookAheadCoverage = [builder.buildCoverage([G[(i * 13) % 1700 + 2000]], gmap)]
            st.BacktrackGlyphCount = st.InputGlyphCount = st.LookAheadGlyphCount = 1
            rec = ot.SubstLookupRecord()
            rec.SequenceIndex, rec.LookupListIndex = 0, 1
            st.SubstLookupRecord = [rec]
            st.SubstCount = 1
            subs.append(st)
        ctx = builder.buildLookup(subs)
        wrap(font, "GSUB", [ctx, target])
        font["GSUB"].table.FeatureList.FeatureRecord[0].Feature.LookupListIndex = [0]
        font["GSUB"].table.FeatureList.FeatureRecord[0].Feature.LookupCount = 1
    elif shape == "gsub-single-unpackable":
        # one SingleSubst format 2 subtable larger than 64 kB: its Coverage offset cannot be stored, and there is no
        # split function for SingleSubst: no valid packing exists
        keys = G[: 33200]
        m = {k: G[(gmap[k] * 3 + 1) % (n - 1)] for k in keys}
        wrap(font, "GSUB", [builder.buildLookup([builder.buildSingleSubstSubtable(m)])])
    elif shape == "gpos-pair-glyphs":
        # SubTable -> PairSet[i]: PairSets of 25 pairs (4 bytes each)
        per = 25
        nf = count_for(2 + per * 4 + 2, f)
        pairs = {}
        for i in range(nf):
            for j in range(per):
                pairs[(G[i], G[(i * 3 + j * 9) % 900 + 2500])] = (builder.buildValue({"XAdvance": -(i % 211) - j - 1}), None)
        wrap(font, "GPOS", [builder.buildLookup([builder.buildPairPosGlyphsSubtable(pairs, gmap)])])
    elif shape == "gpos-pair-classes":
        # SubTable -> Coverage / ClassDef: class1Count x class2Count records of 4 bytes (XAdvance both sides)
        k1 = case.get("k1", 150)
        k2 = count_for(k1 * 4, f)
        c1 = [tuple(G[i * 3: i * 3 + 3]) for i in range(k1)]
        c2 = [tuple(G[2000 + j * 2: 2000 + j * 2 + 2]) for j in range(k2)]
        pairs = {}
        for i, a in enumerate(c1):
            for j, b in enumerate(c2):
                if (i * 7 + j * 3) % case.get("sparse", 1) == 0:
                    pairs[(a, b)] = (builder.buildValue({"XAdvance": -((i * 13 + j) % 90) - 1}), builder.buildValue({"XAdvance": (j % 7) + 1}))
        wrap(font, "GPOS", [builder.buildLookup([builder.buildPairPosClassesSubtable(pairs, gmap)])])
    elif shape == "gpos-mark-base":
        # BaseArray -> BaseAnchor: many mark classes x bases, every anchor distinct (6 bytes + offset)
        nc = case.get("classes", 24)
        nb = count_for(nc * 8, f)
        marks = {G[4000 + c * 2 + d]: (c, builder.buildAnchor(10 * c + d, 300 + c)) for c in range(nc) for d in range(2)}
        bases = {G[i]: {c: builder.buildAnchor(i * 3 + c, 500 + (i * nc + c) % 997) for c in range(nc) if (i + c) % 11} for i in range(nb)}
        wrap(font, "GPOS", [builder.buildLookup([builder.buildMarkBasePosSubtable(marks, bases, gmap)])], gdef_marks=list(marks))
    elif shape == "gpos-single":
        # SubTable -> Coverage: SinglePos format 2, one 8-byte value per glyph
        nk = count_for(8, f)
        vals = {G[i]: builder.buildValue({"XPlacement": i % 97 + 1, "YPlacement": i % 89 + 1, "XAdvance": -(i % 83) - 1, "YAdvance": i % 7 + 1}) for i in range(nk)}
        wrap(font, "GPOS", [builder.buildLookup([builder.buildSinglePosSubtable(vals, gmap)])])
    elif shape == "gpos-many-lookups":
        per = 500
        nl = count_for(per * 4 + 12, f)
        lookups = []
        for i in range(nl):
            vals = {G[(i * 29 + k) % (n - 1)]: builder.buildValue({"XAdvance": -((i + k) % 200) - 1}) for k in range(per)}
            lookups.append(builder.buildLookup([builder.buildSinglePosSubtable(vals, gmap)]))
        wrap(font, "GPOS", lookups)
    else:
        raise ValueError(shape)


def cases(tier):
    """the generated cases: label, shape, parameters, runs (mode x level)"""
    allmodes = [("F", 0), ("N", 0), ("T", 0)]
    out = []

    def add(shape, nglyphs=6000, runs=None, **kw):
        c = {"kind": "gen", "shape": shape, "label": "gen:" + shape + kw.pop("suffix", ""), "nglyphs": nglyphs, "runs": runs or allmodes,
             "budget": 150, "per_lookup": 40 if tier == "quick" else 60, "max_shape": 45 if tier == "quick" else 70}
        c.update(kw)
        out.append(c)

    add("gsub-many-lookups")
    add("gsub-shared-coverage")
    add("gsub-many-subtables")
    add("gsub-ligatures")
    add("gsub-multiple")
    add("gsub-alternates")
    add("gsub-chain-contexts")
    add("gpos-pair-glyphs")
    levels = [0, 1, 5, 9] if tier == "quick" else list(range(10))
    add("gpos-pair-classes", runs=[(m, l) for l in levels for m in ("F", "N", "T")][: 8 if tier == "quick" else 30], budget=240)
    add("gpos-pair-classes", suffix=":sparse", sparse=3, k1=90, factor=0.55, runs=[("N", l) for l in ([0, 1, 3, 5, 7, 9] if tier == "quick" else range(10))], budget=240)
    add("gpos-mark-base")
    add("gpos-single", nglyphs=10000)
    add("gpos-many-lookups")
    add("gsub-single-unpackable", nglyphs=33400, full=False, packable=False, budget=150)
    # the candidate defect (DESIGN 7.6): run LAST and alone per mode, with a short budget
    add("gsub-ligature-one-set", nglyphs=12000, runs=[("N", 0), ("T", 0)], suffix=":hb")
    add("gsub-ligature-one-set", nglyphs=12000, runs=[("F", 0)], budget=150, suffix=":off", label_key="LigatureSubst-single-LigatureSet>64k")
    if tier == "thorough":
        add("gsub-ligatures", factor=2.6, suffix=":x2")
        add("gpos-pair-glyphs", factor=2.4, suffix=":x2")
        add("gpos-mark-base", classes=40, factor=1.6, suffix=":40")
        add("gsub-multiple", factor=2.3, suffix=":x2")
    return out
