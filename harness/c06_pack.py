"""C06 (R), packer part: abstract offset graphs (specs/OTLPack.tla) rebuilt with the REAL
OTTableWriter API, packed by the real getAllData, and read back from the BYTES.

Node realisation (all sizes in bytes): a 4-byte header <data:u16, size:u16>, then the node's offset
fields in item order (writeSubTable, width 2/3/4), then filler up to `size`.  Equal `data` (and equal
size / widths) therefore means equal item tuples, exactly the writer's notion of equality.  Writer
attributes: name ("Coverage" for cov nodes, "n<id>" otherwise), repeatIndex, Extension, DontShare,
sortCoverageLast.  Nothing here decides anything: `observe` returns raw integers for Trace_C06."""
import struct

UNIT = 8192  # 7 units <= 65535 < 8 units: the model's limit of 7 units is the real 16-bit limit


def to_bytes_graph(g, unit=UNIT):
    """TLC-exported graph (sizes in units, field positions for 2/4-byte fields after a 4-byte header) -> byte graph."""
    out = []
    for n in g:
        kids = []
        p = 4
        for c, w, _fp in n["kids"]:
            kids.append([c, w, p])
            p += w
        out.append({"data": n["data"], "size": n["size"] * unit, "hsize": n["size"] * unit, "kids": kids, "ext": bool(n["ext"]), "ds": bool(n["ds"]),
                    "cl": bool(n["cl"]), "cov": bool(n["cov"])})
    return out


def build(g):
    """byte graph -> (root OTTableWriter, [writer per node])"""
    from fontTools.ttLib.tables.otBase import OTTableWriter

    root = OTTableWriter(tableTag="GSUB")
    writers = [None] * len(g)
    writers[0] = root

    def fill(w, nid, idx):
        n = g[nid - 1]
        w._nid = nid
        w.name = "Coverage" if n["cov"] else "n%d" % nid
        if idx is not None:
            w.repeatIndex = idx
        if n["ext"]:
            w.Extension = True
        if n["ds"]:
            w.DontShare = True
        if n["cl"]:
            w.sortCoverageLast = 1
        w.writeUShort(n["data"])
        w.writeUShort(n["hsize"])
        used = 4
        for i, (c, width, fp) in enumerate(n["kids"]):
            assert fp == used, "field position"
            sub = w.getSubWriter()
            writers[c - 1] = sub
            w.writeSubTable(sub, width)
            used += width
            fill(sub, c, i)
        assert n["size"] >= used, "node smaller than its fields"
        if n["size"] > used:
            w.writeData(bytes([n["data"] % 251]) * (n["size"] - used))

    fill(root, 1, None)
    return root, writers


def _rd(data, at, width):
    if at < 0 or at + width > len(data):
        return -1
    return int.from_bytes(data[at : at + width], "big")


def observe(g, mode="ft"):
    """Pack the realised graph with the real code; return the raw observations."""
    from fontTools.ttLib.tables import otBase

    root, _writers = build(g)
    seen = {}
    orig = otBase.OTTableWriter.getOverflowErrorRecord

    def spy(self, item):
        seen["edge"] = [getattr(self, "_nid", 0), getattr(item, "_nid", 0)]
        return orig(self, item)

    otBase.OTTableWriter.getOverflowErrorRecord = spy
    try:
        try:
            if mode == "hbfb":
                root._doneWriting({}, shareExtension=True)
                data = root.getAllData(remove_duplicate=False)
            else:
                data = root.getAllData()
        except otBase.OTLOffsetOverflowError as e:
            return {"res": "overflow", "rec": seen.get("edge", [0, 0]), "recname": str(e.value.itemName), "scan": [], "walk": [], "len": 0}
        except AssertionError:
            return {"res": "assert", "rec": [0, 0], "scan": [], "walk": [], "len": 0}
        except Exception as e:  # any other exception type is reported as such
            return {"res": "other:" + type(e).__name__, "rec": [0, 0], "scan": [], "walk": [], "len": 0}
    finally:
        otBase.OTTableWriter.getOverflowErrorRecord = orig
    # linear scan of the emitted blocks
    scan = []
    p = 0
    while p < len(data) and len(scan) < 64:
        tag, size = _rd(data, p, 2), _rd(data, p + 2, 2)
        scan.append([tag, size])
        if size <= 0:
            break
        p += size
    # walk the ORIGINAL tree and the bytes in parallel (pre-order, children in item order)
    walk = []

    def visit(nid, at):
        n = g[nid - 1]
        offs = [_rd(data, at + fp, w) for _c, w, fp in n["kids"]]
        walk.append([nid, at, _rd(data, at, 2), _rd(data, at + 2, 2), offs])
        if len(walk) > 64:
            return
        for (c, _w, _fp), off in zip(n["kids"], offs):
            visit(c, at + off if off >= 0 and at >= 0 else -1)

    visit(1, 0)
    return {"res": "ok", "rec": [0, 0], "scan": scan, "walk": walk, "len": len(data)}


def handmade_graphs():
    """Byte graphs the unit-sized generator cannot express (each with a label)."""
    def node(data, size, kids=(), **kw):
        n = {"data": data, "size": size, "hsize": size, "kids": [list(k) for k in kids], "ext": False, "ds": False, "cl": False, "cov": False}
        n.update(kw)
        return n

    out = []
    # two nodes with identical bytes whose single offset field differs only in WIDTH (2 vs 4): not equal
    # (the header's size field is the same in both, so a linear scan is not possible: "noscan")
    for pad in (2, 8188):
        out.append(("offset-size-distinguishes:noscan", [
            node(11, 12, [(2, 2, 4), (3, 2, 6)]),
            node(50, 6 + pad, [(4, 2, 4)], hsize=pad),
            node(50, 8 + pad, [(5, 4, 4)], hsize=pad),
            node(100, 16, cov=True),
            node(100, 16, cov=True),
        ]))
    # 24-bit offsets; exact 16-bit boundary: a child at distance 65535 fits, 65536 does not
    for last in (65535 - 8, 65536 - 8):
        out.append(("boundary-%d" % (last + 8), [
            node(11, 8, [(2, 2, 4), (3, 2, 6)]),
            node(12, last),
            node(13, 4),
        ]))
    out.append(("uint24", [
        node(11, 11, [(2, 3, 4), (3, 4, 7)]),
        node(12, 40000),
        node(13, 40000, [(4, 3, 4)]),
        node(14, 5),
    ]))
    # Extension subtree sharing scopes: equal Coverage inside and outside an extension, and in two extensions
    cov = lambda: node(100, 6, cov=True)
    out.append(("ext-scopes", [
        node(11, 10, [(2, 2, 4), (3, 2, 6), (4, 2, 8)]),
        node(12, 8, [(5, 4, 4)], ext=True),
        node(13, 8, [(6, 4, 4)], ext=True),
        node(14, 6, [(7, 2, 4)]),
        node(15, 6, [(8, 2, 4)]),
        node(16, 6, [(9, 2, 4)]),
        cov(), cov(), cov(),
    ]))
    # Coverage-last with the Coverage at a later item index and a second Coverage-named child
    out.append(("coverage-last-second-item", [
        node(11, 10, [(2, 2, 4), (3, 2, 6), (4, 2, 8)], cl=True),
        node(12, 30000),
        node(100, 6, cov=True),
        node(101, 30000, cov=True),
    ]))
    return out
