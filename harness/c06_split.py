"""C06 (R), resolution part: a (lookup list summary, overflow record, meaning) state exported by
MC_OTLRepack is realised as real otTables objects, the real BaseTTXConverter.tryResolveOverflow
(fixSubTableOverFlows / split* / fixLookupOverFlows) is called on it, and the tables are projected
(harness/otl_project.py) and summarised before and after.  No verdict here."""
import logging

NG = 12


def glyph_names(rank):
    """names whose sorted() order is `rank` (rank[g-1] = position of glyph g among the sorted names)"""
    return [".notdef"] + ["n%02d" % rank[g - 1] for g in range(1, NG + 1)]


def _value(v):
    from fontTools.otlLib import builder

    d = {k: x for k, x in zip(("XPlacement", "YPlacement", "XAdvance", "YAdvance"), v) if x}
    return builder.buildValue(d) if d else None


def realise_sub(kind, summ, sem, nm, gmap):
    from fontTools.otlLib import builder
    from fontTools.ttLib.tables import otTables as ot
    from fontTools.ttLib.tables.otBase import ValueRecord

    if kind == "lig":
        st = ot.LigatureSubst()
        st.ligatures = {}
        for comps, lig in sem["l"]:
            l = ot.Ligature()
            l.Component = [nm(c) for c in comps[1:]]
            l.CompCount = len(comps)
            l.LigGlyph = nm(lig)
            st.ligatures.setdefault(nm(comps[0]), []).append(l)
        return st
    if kind == "alt":
        st = ot.AlternateSubst()
        st.alternates = {nm(g): [nm(a) for a in alts] for g, alts in sem["m"]}
        return st
    if kind == "mult":
        st = ot.MultipleSubst()
        st.mapping = {nm(g): [nm(a) for a in seq] for g, seq in sem["m"]}
        return st
    if kind == "pair1":
        st = ot.PairPos()
        st.Format = 1
        st.ValueFormat1, st.ValueFormat2 = 4, 0
        st.Coverage = ot.Coverage()
        st.Coverage.glyphs = [nm(g) for g in summ["it"]]
        st.PairSet = []
        for g in summ["it"]:
            ps = ot.PairSet()
            ps.PairValueRecord = []
            for a, b, v1, _v2 in sorted(sem["p"], key=lambda e: (e[0], e[1])):
                if a == g:
                    r = ot.PairValueRecord()
                    r.SecondGlyph = nm(b)
                    r.Value1 = _value(v1) or ValueRecord()
                    r.Value2 = None
                    ps.PairValueRecord.append(r)
            ps.PairValueCount = len(ps.PairValueRecord)
            st.PairSet.append(ps)
        st.PairSetCount = len(st.PairSet)
        return st
    if kind == "sp2":
        st = ot.SinglePos()
        st.Format = 2
        st.ValueFormat = 4
        st.Coverage = ot.Coverage()
        st.Coverage.glyphs = [nm(g) for g in summ["it"]]
        vals = dict((g, v) for g, v in sem["m"])
        st.Value = [_value(vals[g]) for g in summ["it"]]
        st.ValueCount = len(st.Value)
        return st
    if kind == "pair2":
        cm = summ["cm"]
        k1 = len(summ["it"])
        sets2 = sorted({tuple(e[1]) for e in sem["c"]} | {(9,), (10,)}, key=min)
        sets2 = [s for s in sets2 if all(g in (9, 10) for g in s)]
        st = ot.PairPos()
        st.Format = 2
        st.ValueFormat1, st.ValueFormat2 = 4, 0
        st.Coverage = ot.Coverage()
        st.Coverage.glyphs = [nm(g) for g, _c in cm]
        st.ClassDef1 = ot.ClassDef()
        st.ClassDef1.classDefs = {nm(g): c for g, c in cm if c != 0}
        st.ClassDef2 = ot.ClassDef()
        st.ClassDef2.classDefs = {nm(g): j + 1 for j, s in enumerate(sets2) for g in s}
        cell = {}
        for s1, s2, v1, _v2 in sem["c"]:
            c1 = dict((g, c) for g, c in cm)[s1[0]]
            cell[(c1, sets2.index(tuple(s2)) + 1)] = v1
        st.Class1Record = []
        for c in range(k1):
            r1 = ot.Class1Record()
            r1.Class2Record = []
            for j in range(len(sets2) + 1):
                r2 = ot.Class2Record()
                r2.Value1 = _value(cell.get((c, j), [0, 0, 0, 0])) or _zero_adv()
                r2.Value2 = None
                r1.Class2Record.append(r2)
            st.Class1Record.append(r1)
        st.Class1Count = k1
        st.Class2Count = len(sets2) + 1
        return st
    if kind == "mkb":
        marks = {nm(m): (c, builder.buildAnchor(a[0], a[1])) for m, c, a in sem["marks"]}
        bases = {nm(b): {c: builder.buildAnchor(a[0], a[1]) for c, a in enumerate(an) if a} for b, an in sem["bases"]}
        st = builder.buildMarkBasePosSubtable(marks, bases, gmap)
        st.ClassCount = len(summ["it"])
        for rec in st.BaseArray.BaseRecord:      # one anchor slot per class of the summary
            rec.BaseAnchor = (list(rec.BaseAnchor) + [None] * st.ClassCount)[: st.ClassCount]
        return st
    # unsplittable kinds
    if "m" in sem and sem["m"] and isinstance(sem["m"][0][1], list):
        st = ot.SinglePos()
        st.Format = 1
        st.ValueFormat = 4
        st.Coverage = ot.Coverage()
        st.Coverage.glyphs = [nm(g) for g, _v in sem["m"]]
        st.Value = _value(sem["m"][0][1])
        return st
    st = ot.SingleSubst()
    st.mapping = {nm(g): nm(h) for g, h in sem["m"]}
    return st


def _zero_adv():
    from fontTools.ttLib.tables.otBase import ValueRecord

    v = ValueRecord()
    v.XAdvance = 0
    return v


def realise(state):
    """-> (font, tag)"""
    from fontTools.ttLib import TTFont, newTable
    from fontTools.ttLib.tables import otTables as ot

    tag = state["tag"]
    names = glyph_names(state["rank"])
    font = TTFont()
    font.setGlyphOrder(names)
    gmap = font.getReverseGlyphMap()
    nm = lambda g: names[g]
    semlk = state["sem"]["gsub" if tag == "GSUB" else "gpos"]["lookups"]
    exttype = 7 if tag == "GSUB" else 9
    lookups = []
    for lk, sl in zip(state["lk"], semlk):
        L = ot.Lookup()
        L.LookupFlag = 0
        L.SubTable = []
        inner_type = None
        for summ, sem in zip(lk["st"], sl["st"]):
            inner = realise_sub(summ["k"], summ, sem, nm, gmap)
            inner_type = inner.LookupType
            if lk["ext"]:
                outer = ot.lookupTypes[tag][exttype]()
                outer.Format = 1
                outer.ExtSubTable = inner
                outer.ExtensionLookupType = inner.LookupType
                if summ["dsi"]:
                    inner.DontShare = True
            else:
                outer = inner
            if summ["ds"]:
                outer.DontShare = True
            L.SubTable.append(outer)
        L.LookupType = exttype if lk["ext"] else inner_type
        L.SubTableCount = len(L.SubTable)
        lookups.append(L)
    t = newTable(tag)
    tb = t.table = getattr(ot, tag)()
    tb.Version = 0x00010000
    tb.ScriptList = ot.ScriptList()
    tb.ScriptList.ScriptRecord = []
    tb.FeatureList = ot.FeatureList()
    tb.FeatureList.FeatureRecord = []
    tb.LookupList = ot.LookupList()
    tb.LookupList.Lookup = lookups
    font[tag] = t
    return font, tag, names


def replay_state(state):
    """worker: realise, call the real tryResolveOverflow, observe"""
    from fontTools.ttLib.tables.otBase import OTLOffsetOverflowError, OverflowErrorRecord
    from .otl_project import project_layout
    from .c06_e2e import summarize

    logging.disable(logging.CRITICAL)
    try:
        font, tag, names = realise(state)
        gmap = {n: i for i, n in enumerate(names) if i}
        adv = {n: 500 + i for i, n in enumerate(names) if i}
        tabs = {tag: font[tag].table}
        before, _ = project_layout(tabs, gmap, adv=adv)
        sumbefore = summarize(font[tag].table, tag, font)
        r = state["rec"]
        none = lambda x: None if x == -1 else x
        rec = OverflowErrorRecord((tag, none(r["L"]), none(r["S"]), r["name"] or None, none(r["idx"])))
        ok, crash = False, ""
        try:
            ok = bool(font[tag].tryResolveOverflow(font, OTLOffsetOverflowError(rec), None))
        except Exception as e:
            crash = type(e).__name__
        for lk in font[tag].table.LookupList.Lookup:   # observation only: the projector reads ExtensionLookupType, which
            for st in lk.SubTable:                      # fixLookupOverFlows leaves to be filled in by compile
                if hasattr(st, "ExtSubTable") and "ExtensionLookupType" not in st.__dict__:
                    st.ExtensionLookupType = st.ExtSubTable.__class__.LookupType
        after, _ = project_layout(tabs, gmap, adv=adv)
        sumafter = summarize(font[tag].table, tag, font)
        return {"k": "split", "tag": tag, "lk": state["lk"], "rec": r, "sem": state["sem"], "before": before, "after": after,
                "sumbefore": sumbefore, "sumafter": sumafter, "ok": ok, "crash": crash}
    finally:
        logging.disable(logging.NOTSET)
