"""C07 — subsetting preserves the behaviour of everything it keeps.

(M) MC_Subset (three configurations: lookup-kind slice, option slice, second-pass slice): the subsetter
    pipeline of specs/Subset.tla (prune, request, cmap closure, GSUB closure loop, component closure,
    renumbering, table subsetting, lookup pruning) is model-checked over a family of small abstract
    fonts x every request x options: RequestedPresent, ClosureSufficient
    (and, for that family, exactness), Monotone, NoDangling, RetainGids, ShapingPreserved (OTLSem
    shaping of every text up to length 3 over the retained characters), LfpIsLeast.  The same runs
    emit the (font, request, options) cases (GEN).
(R) every emitted case (in the quick tier a seeded sample, stratified by the number of glyphs the GSUB
    closure has to add, which TLC emits with the case) is realised as a real TrueType font
    (FontBuilder + otTables), projected back (must equal the abstract font), pushed through the
    real Subsetter; the run is recorded and judged like (V), and in addition TLC shapes every text
    up to length 2 with OTLSem on the projections of the original and of the result.
(V) every corpus font (all binaries; of the whole-font TTX the subsetter's own test inputs, every variable
    font and the CID-keyed masters, compiled by the library) x seeded requests (two aimed at the
    renumbering of per-glyph records and classes of one of the font's own subtables, half of the
    characters, then single character / glyph names / glyph ids / text / all-but-one / mixed / few / all in
    rotation) x a pairwise covering of the options: the projected ORIGINAL font, the request/options,
    the staged glyph sets read from the Subsetter object, the glyph order / index map, the glyph ids
    every table of the saved RESULT mentions, the cmap before and after saving, HarfBuzz shaping of
    probe texts (derived from the original font's rules) on both fonts, and outline / metric /
    variation / GDEF class / CFF width observations of kept glyphs go to Trace_C07, where TLC decides
    every clause (including which requests and which shaping observations are inside the domain).
Python only drives and records; it takes no accept/reject decision.
Environment variables VERIF_C07_* / VERIF_TLC_WORKERS are development aids (smaller samples, cached (M) output,
dumps); a normal run sets none of them."""
import io
import itertools
import logging
import os
import unicodedata

from . import common
from .common import MachineryError

LEVEL = "model_checking"
TLC_WORKERS = int(os.environ.get("VERIF_TLC_WORKERS", "16"))

CP_BASE = 0xE000  # abstract character u of a generated font is code point U+E000 + u
GLYPH_NAMES = [".notdef", "a", "b", "c", "d", "e", "f", "g"]

_DI = [(0x00AD, 0x00AD), (0x034F, 0x034F), (0x061C, 0x061C), (0x115F, 0x1160), (0x17B4, 0x17B5), (0x180B, 0x180F),
       (0x200B, 0x200F), (0x202A, 0x202E), (0x2060, 0x206F), (0x3164, 0x3164), (0xFE00, 0xFE0F), (0xFEFF, 0xFEFF),
       (0xFFA0, 0xFFA0), (0xFFF0, 0xFFF8), (0x1BCA0, 0x1BCA3), (0x1D173, 0x1D17A), (0xE0000, 0xE0FFF)]


def default_ignorable(cp):
    return any(a <= cp <= b for a, b in _DI)


def probe_char_ok(cp):
    """Code points whose shaping is the font's business only (DESIGN section 9 rule 5): not default-ignorable,
    no canonical decomposition, no algorithmic (Hangul) composition, not a surrogate / NUL / line separator."""
    if cp <= 0 or cp > 0x10FFFF or 0xD800 <= cp <= 0xDFFF or default_ignorable(cp):
        return False
    if 0x1100 <= cp <= 0x11FF or 0xAC00 <= cp <= 0xD7A3 or cp in (0x2028, 0x2029, 0x25CC):
        return False
    d = unicodedata.decomposition(chr(cp))
    return not d or d.startswith("<")


def text_ok(cps):
    s = "".join(map(chr, cps))
    return unicodedata.normalize("NFC", s) == s and unicodedata.normalize("NFD", s) == s


# ---------------------------------------------------------------------------
# projection: real font -> abstract font of specs/Subset.tla
# ---------------------------------------------------------------------------
def project_font(font, layout=True):
    """The abstract font (glyph g = glyph id g-1) plus the layout projection's `unsupported` notes."""
    from . import otl_project

    order = font.getGlyphOrder()
    gmap = {g: i + 1 for i, g in enumerate(order)}
    pairs = set()
    if "cmap" in font:
        for t in font["cmap"].tables:
            # named deviation CmapFormat0Dropped: the subsetter drops format-0 subtables (cmap.prune_pre_subset)
            if t.isUnicode() and t.format not in (0, 14):
                for u, g in t.cmap.items():
                    if g in gmap:
                        pairs.add((int(u), gmap[g]))
    comp = []
    if "glyf" in font:
        glyf = font["glyf"]
        for g in order:
            gl = glyf[g]
            if gl.isComposite():
                comp.append([gmap[g], [gmap[c.glyphName] for c in gl.components if c.glyphName in gmap]])
    if "CFF " in font:
        # Type 2 charstring spec, appendix C: `[w] adx ady bchar achar endchar` composes the StandardEncoding glyphs
        # bchar and achar (deprecated "seac" form); read off programs that consist of those operands only
        from fontTools.encodings.StandardEncoding import StandardEncoding

        cs = font["CFF "].cff[0].CharStrings
        for g in order:
            try:
                c = cs[g]
                c.decompile()
                prog = c.program
            except Exception:
                continue
            if len(prog) in (5, 6) and prog[-1] == "endchar" and all(isinstance(x, (int, float)) for x in prog[:-1]):
                names = [StandardEncoding[int(prog[-3])], StandardEncoding[int(prog[-2])]]
                comp.append([gmap[g], [gmap[n] for n in names if n in gmap]])
    math = []
    if "MATH" in font and font["MATH"].table.MathVariants:
        mv = font["MATH"].table.MathVariants
        for cov, cons in ((mv.VertGlyphCoverage, mv.VertGlyphConstruction), (mv.HorizGlyphCoverage, mv.HorizGlyphConstruction)):
            if not cov:
                continue
            for g, c in zip(cov.glyphs, cons):
                vs = [v.VariantGlyph for v in c.MathGlyphVariantRecord]
                if c.GlyphAssembly:
                    vs += [p.glyph for p in c.GlyphAssembly.PartRecords]
                if g in gmap:
                    math.append([gmap[g], sorted({gmap[v] for v in vs if v in gmap})])
    colr = []
    if "COLR" in font and getattr(font["COLR"], "version", 1) == 0:
        for g, layers in font["COLR"].ColorLayers.items():
            if g in gmap:
                colr.append([gmap[g], sorted({gmap[l.name] for l in layers if l.name in gmap})])
    uns = []
    if layout:
        L, uns = otl_project.project_layout(font, gmap)
    else:
        L = {"gdef": {"cls": [], "mac": [], "sets": []}, "gsub": {"lookups": [], "fl": []}, "gpos": {"lookups": [], "fl": []}, "adv": []}
    fv = any("FeatureVariations" in r for _w, r in uns)
    return {"n": len(order), "glyf": "glyf" in font, "cmap": [list(p) for p in sorted(pairs)], "comp": comp,
            "math": math, "colr": colr, "L": L, "fv": fv}, uns


# ---------------------------------------------------------------------------
# realisation: abstract font -> real TrueType font
# ---------------------------------------------------------------------------
def _cov(glyphs, names, gmap):
    from fontTools.otlLib import builder

    return builder.buildCoverage(sorted({names[g - 1] for g in glyphs}, key=gmap.__getitem__), gmap)


def _build_lookup(lk, names, gmap, typ):
    from fontTools.otlLib import builder
    from fontTools.ttLib.tables import otTables as ot

    nm = lambda g: names[g - 1]
    subs = []
    for st in lk["st"]:
        ty = lk["ty"]
        if ty == "sub1":
            subs.append(builder.buildSingleSubstSubtable({nm(a): nm(b) for a, b in st["m"]}))
        elif ty == "sub2":
            subs.append(builder.buildMultipleSubstSubtable({nm(a): [nm(x) for x in b] for a, b in st["m"]}))
        elif ty == "sub3":
            subs.append(builder.buildAlternateSubstSubtable({nm(a): [nm(x) for x in b] for a, b in st["m"]}))
        elif ty == "sub4":
            subs.append(builder.buildLigatureSubstSubtable({tuple(nm(x) for x in comps): nm(lig) for comps, lig in st["l"]}))
        elif ty == "ctx":
            for r in st["r"]:
                t = ot.ChainContextSubst() if typ == "GSUB" else ot.ChainContextPos()
                t.Format = 3
                t.BacktrackCoverage = [_cov(s, names, gmap) for s in r["b"]]
                t.InputCoverage = [_cov(s, names, gmap) for s in r["i"]]
                t.LookAheadCoverage = [_cov(s, names, gmap) for s in r["a"]]
                t.BacktrackGlyphCount, t.InputGlyphCount, t.LookAheadGlyphCount = len(r["b"]), len(r["i"]), len(r["a"])
                recs = []
                for si, li in r["n"]:
                    rec = ot.SubstLookupRecord() if typ == "GSUB" else ot.PosLookupRecord()
                    rec.SequenceIndex, rec.LookupListIndex = si, li - 1
                    recs.append(rec)
                if typ == "GSUB":
                    t.SubstLookupRecord, t.SubstCount = recs, len(recs)
                else:
                    t.PosLookupRecord, t.PosCount = recs, len(recs)
                subs.append(t)
        elif ty == "pos1":
            def val(v):
                d = {k: x for k, x in zip(("XPlacement", "YPlacement", "XAdvance", "YAdvance"), v) if x}
                return builder.buildValue(d or {"XAdvance": 0})
            subs.append(builder.buildSinglePosSubtable({nm(g): val(v) for g, v in st["m"]}, gmap))
        elif ty == "pos2" and st["f"] == 1:
            def val2(v):
                d = {k: x for k, x in zip(("XPlacement", "YPlacement", "XAdvance", "YAdvance"), v) if x}
                return builder.buildValue(d) if d else None
            subs.append(builder.buildPairPosGlyphsSubtable({(nm(a), nm(b)): (val2(v1), val2(v2)) for a, b, v1, v2 in st["p"]}, gmap))
        else:
            raise MachineryError("realise: lookup type %r" % ty)
    return builder.buildLookup(subs, flags=lk.get("flag", 0))


def _build_layout_table(tb, names, gmap, typ):
    from fontTools.ttLib import newTable
    from fontTools.ttLib.tables import otTables as ot

    table = newTable(typ)
    t = table.table = getattr(ot, typ)()
    t.Version = 0x00010000
    t.LookupList = ot.LookupList()
    t.LookupList.Lookup = [_build_lookup(lk, names, gmap, typ) for lk in tb["lookups"]]
    t.LookupList.LookupCount = len(t.LookupList.Lookup)
    # features: one FeatureRecord per distinct (tag, lookups); scripts/langsys from fl
    feats = []
    for sc, la, tag, lks, req in tb["fl"]:
        key = (tag, tuple(lks))
        if key not in feats:
            feats.append(key)
    feats.sort()
    t.FeatureList = ot.FeatureList()
    t.FeatureList.FeatureRecord = []
    for tag, lks in feats:
        fr = ot.FeatureRecord()
        fr.FeatureTag = tag
        fr.Feature = ot.Feature()
        fr.Feature.FeatureParams = None
        fr.Feature.LookupListIndex = [i - 1 for i in lks]
        fr.Feature.LookupCount = len(lks)
        t.FeatureList.FeatureRecord.append(fr)
    t.FeatureList.FeatureCount = len(feats)
    t.ScriptList = ot.ScriptList()
    t.ScriptList.ScriptRecord = []
    for sc in sorted({e[0] for e in tb["fl"]}):
        sr = ot.ScriptRecord()
        sr.ScriptTag = sc
        sr.Script = ot.Script()
        sr.Script.DefaultLangSys = None
        sr.Script.LangSysRecord = []
        for la in sorted({e[1] for e in tb["fl"] if e[0] == sc}):
            ls = ot.LangSys()
            ls.LookupOrder = None
            ls.ReqFeatureIndex = 0xFFFF
            ls.FeatureIndex = []
            for e in tb["fl"]:
                if e[0] == sc and e[1] == la:
                    fi = feats.index((e[2], tuple(e[3])))
                    if e[4]:
                        ls.ReqFeatureIndex = fi
                    else:
                        ls.FeatureIndex.append(fi)
            ls.FeatureCount = len(ls.FeatureIndex)
            if la == "dflt":
                sr.Script.DefaultLangSys = ls
            else:
                lr = ot.LangSysRecord()
                lr.LangSysTag, lr.LangSys = la, ls
                sr.Script.LangSysRecord.append(lr)
        sr.Script.LangSysCount = len(sr.Script.LangSysRecord)
        t.ScriptList.ScriptRecord.append(sr)
    t.ScriptList.ScriptCount = len(t.ScriptList.ScriptRecord)
    return table


def realize(af):
    """Abstract font (MC_Subset family: TrueType flavour, characters 1..k) -> font file bytes."""
    from fontTools.fontBuilder import FontBuilder
    from fontTools.pens.ttGlyphPen import TTGlyphPen

    n = af["n"]
    names = GLYPH_NAMES[:n]
    gmap = {g: i for i, g in enumerate(names)}
    fb = FontBuilder(1000, isTTF=True)
    fb.setupGlyphOrder(names)
    fb.setupCharacterMap({CP_BASE + u: names[g - 1] for u, g in af["cmap"]})
    comps = {g: cs for g, cs in af["comp"]}
    glyphs = {}
    for i, name in enumerate(names):
        pen = TTGlyphPen({k: None for k in names})
        if (i + 1) in comps:
            for j, c in enumerate(comps[i + 1]):
                pen.addComponent(names[c - 1], (1, 0, 0, 1, 30 * (j + 1), 10 * (j + 1)))
        else:
            w, h = 100 + 37 * i, 200 + 53 * i
            pen.moveTo((20 + i, 0))
            pen.lineTo((20 + i, h))
            pen.lineTo((20 + i + w, h))
            pen.lineTo((20 + i + w, 0))
            pen.closePath()
        glyphs[name] = pen.glyph()
    fb.setupGlyf(glyphs)
    fb.setupHorizontalMetrics({name: (af["L"]["adv"][i], 20 + i) for i, name in enumerate(names)})
    fb.setupHorizontalHeader(ascent=800, descent=-200)
    fb.setupNameTable({"familyName": "VerifC07", "styleName": "Regular"})
    fb.setupOS2()
    fb.setupPost()
    font = fb.font
    if af["L"]["gsub"]["lookups"] or af["L"]["gsub"]["fl"]:
        font["GSUB"] = _build_layout_table(af["L"]["gsub"], names, gmap, "GSUB")
    if af["L"]["gpos"]["lookups"] or af["L"]["gpos"]["fl"]:
        font["GPOS"] = _build_layout_table(af["L"]["gpos"], names, gmap, "GPOS")
    buf = io.BytesIO()
    font.save(buf)
    return buf.getvalue()


def _norm(x):
    """JSON-normal form for comparing an abstract font with the projection of its realisation."""
    if isinstance(x, dict):
        return {k: _norm(v) for k, v in x.items()}
    if isinstance(x, (list, tuple)):
        return [_norm(v) for v in x]
    return x


def same_font(af, pf):
    a = _norm(af)
    b = _norm(pf)
    a.pop("fv", None)
    b.pop("fv", None)
    b["cmap"] = [[u - CP_BASE, g] for u, g in b["cmap"]]
    for f in (a, b):
        f["cmap"] = sorted(f["cmap"])
        f["comp"] = sorted(f["comp"])
        for tb in ("gsub", "gpos"):
            f["L"][tb]["fl"] = sorted(f["L"][tb]["fl"])
            for lk in f["L"][tb]["lookups"]:
                if lk["ty"] == "ctx":  # one Format-3 subtable per rule <-> one subtable with the rules
                    lk["st"] = [{"r": [r]} for st in lk["st"] for r in st["r"]]
                for st in lk["st"]:
                    for k in ("m", "l", "p"):
                        if k in st:
                            st[k] = sorted(st[k], key=repr)
    return a == b, a, b


# ---------------------------------------------------------------------------
# observing the result
# ---------------------------------------------------------------------------
def _ot_glyph_names(obj, out, seen):
    from fontTools.ttLib.tables import otBase, otConverters, otTables as ot

    if obj is None or id(obj) in seen:
        return
    seen.add(id(obj))
    if isinstance(obj, (list, tuple)):
        for x in obj:
            _ot_glyph_names(x, out, seen)
        return
    if not isinstance(obj, otBase.BaseTable):
        return
    obj.ensureDecompiled()
    if isinstance(obj, ot.Coverage):
        out.update(obj.glyphs)
    elif isinstance(obj, ot.ClassDef):
        out.update(obj.classDefs.keys())
    elif isinstance(obj, ot.SingleSubst):
        out.update(obj.mapping.keys())
        out.update(obj.mapping.values())
    elif isinstance(obj, ot.MultipleSubst):
        for k, v in obj.mapping.items():
            out.add(k)
            out.update(v)
    elif isinstance(obj, ot.AlternateSubst):
        for k, v in obj.alternates.items():
            out.add(k)
            out.update(v)
    elif isinstance(obj, ot.LigatureSubst):
        for k, ligs in obj.ligatures.items():
            out.add(k)
            for lig in ligs:
                out.add(lig.LigGlyph)
                out.update(lig.Component)
    else:
        for conv in obj.getConverters():
            v = getattr(obj, conv.name, None)
            if v is None:
                continue
            if isinstance(conv, otConverters.GlyphID):
                if isinstance(v, (list, tuple)):
                    out.update(v)
                else:
                    out.add(v)
            else:
                _ot_glyph_names(v, out, seen)


def table_refs(font):
    """tag -> sorted glyph ids mentioned by the table's content (references, not per-glyph rows)."""
    refs = {}

    def gids(names):
        return sorted({font.getGlyphID(n) + 1 for n in names if n is not None})  # glyph numbers = new id + 1

    if "cmap" in font:
        names = set()
        for t in font["cmap"].tables:
            if t.format == 14:
                for recs in t.uvsDict.values():
                    names.update(g for _u, g in recs if g is not None)
            else:
                names.update(t.cmap.values())
        refs["cmap"] = gids(names)
    if "glyf" in font:
        glyf = font["glyf"]
        names = set()
        for g in font.getGlyphOrder():
            gl = glyf[g]
            if gl.isComposite():
                names.update(c.glyphName for c in gl.components)
        refs["glyf"] = gids(names)
    for tag in ("GSUB", "GPOS", "GDEF", "MATH", "BASE", "JSTF"):
        if tag in font and hasattr(font[tag], "table"):
            names = set()
            _ot_glyph_names(font[tag].table, names, set())
            refs[tag] = gids(names)
    if "COLR" in font:
        colr = font["COLR"]
        names = set()
        if getattr(colr, "version", 1) == 0:
            for g, layers in colr.ColorLayers.items():
                names.add(g)
                names.update(l.name for l in layers)
        else:
            _ot_glyph_names(colr.table, names, set())
        refs["COLR"] = gids(names)
    if "kern" in font:
        names = set()
        for t in font["kern"].kernTables:
            for a, b in getattr(t, "kernTable", {}):
                names.update((a, b))
        refs["kern"] = gids(names)
    return refs


def hb_features(pf, optd):
    """HarfBuzz feature settings: every feature tag of the ORIGINAL font explicitly on if the options keep it,
    explicitly off otherwise (the subsetter drops those by design), same on both fonts."""
    feats = optd["layout_features"]
    tags = {str(e[2]) for tb in ("gsub", "gpos") for e in pf["L"][tb]["fl"]}
    return {t: (1 if ("*" in feats or t in feats) else 0) for t in sorted(tags)}


def layout_systems(font):
    """{'gsub' | 'gpos': {(script tag, language tag)}} of a real font; language 'dflt' = the DefaultLangSys."""
    out = {}
    for tag in ("GSUB", "GPOS"):
        ss = set()
        t = font[tag].table if tag in font else None
        if t is not None and t.ScriptList is not None:
            for sr in t.ScriptList.ScriptRecord:
                if sr.Script.DefaultLangSys is not None:
                    ss.add((sr.ScriptTag, "dflt"))
                for lr in sr.Script.LangSysRecord:
                    ss.add((sr.ScriptTag, lr.LangSysTag))
        out[tag.lower()] = ss
    return out


def _selected(systems, sc, la):
    """The language system a shaper selects for (script, language): the script itself, else DFLT, dflt, latn
    (OpenType 'DFLT' rule + HarfBuzz's fallbacks); the language system itself, else the default one."""
    scripts = {s for s, _l in systems}
    for cand in (sc, "DFLT", "dflt", "latn"):
        if cand in scripts:
            # scripts of the same family (deva/dev2/dev3 ...) are tried by the shaper in its own order
            fam = sorted((s, l) for s, l in systems if s[:3] == cand[:3])
            return cand, (la if (cand, la) in systems else "dflt" if (cand, "dflt") in systems else None), fam
    return None


def probe_scripts(pf, optd, osys, ressys):
    """(script, lang) pairs to shape under: those for which the shaper selects the SAME language system in
    both fonts.  Named skip ScriptPrunedFallback: the subsetter drops a script / language system left without
    features (by the feature restriction or because none of its lookups touches a kept glyph), after which a
    shaper selects another one for text it is told to be in that script; which system applies to a text is the
    shaper's itemisation, not the font's behaviour.  A required feature the options drop cannot be switched
    off in the shaper either."""
    feats, scripts = optd["layout_features"], optd["layout_scripts"]
    keepf = lambda t: "*" in feats or t in feats
    keeps = lambda s: "*" in scripts or s in scripts
    pairs = []
    skipped = 0
    for tb in ("gsub", "gpos"):
        for e in pf["L"][tb]["fl"]:
            if (str(e[0]), str(e[1])) not in pairs:
                pairs.append((str(e[0]), str(e[1])))
    if not pairs:
        pairs = [("DFLT", "dflt")]
    out = []
    for sc, la in pairs:
        ok = keeps(sc)
        for tb in ("gsub", "gpos"):
            if _selected(osys[tb], sc, la) != _selected(ressys[tb], sc, la):
                ok = False
            sel = _selected(osys[tb], sc, la)
            if sel and any(e[4] and not keepf(e[2]) for e in pf["L"][tb]["fl"] if e[0] == sel[0] and e[1] == sel[1]):
                ok = False
        if ok:
            out.append((sc, la))
        else:
            skipped += 1
    return out, skipped


def rule_glyph_seqs(pf, rng, limit, allowed):
    """Glyph sequences that trigger the rules of the ORIGINAL font: for every rule its input sequence, with and
    without its context (one representative glyph per class/coverage position, chosen by rng among the glyphs
    that a retained character maps to; rules that no such text can reach are left out)."""
    seqs = []
    ok = lambda g: g in allowed

    def pick(s):
        s = [g for g in s if g in allowed]
        return rng.choice(s) if s else None

    def some(rows, k):
        rows = [r for r in rows if ok(r[0])]
        return rows if len(rows) <= k else rng.sample(rows, k)

    for tb in ("gsub", "gpos"):
        for lk in pf["L"][tb]["lookups"]:
            ty = lk["ty"]
            for st in lk["st"]:
                if ty in ("sub1", "sub2", "sub3", "pos1"):
                    for e in some(st["m"], 12):
                        seqs.append([e[0]])
                elif ty == "sub4":
                    for comps, _lig in st["l"]:
                        seqs.append(list(comps))
                elif ty == "ctx":
                    for r in st["r"]:
                        i = [pick(s) for s in r["i"]]
                        b = [pick(s) for s in reversed(r["b"])]
                        a = [pick(s) for s in r["a"]]
                        seqs.append(b + i + a)
                        seqs.append(i)
                elif ty == "rsub":
                    for r in st["r"]:
                        for e in some(r["m"], 4):
                            seqs.append([pick(s) for s in reversed(r["b"])] + [e[0]] + [pick(s) for s in r["a"]])
                elif ty == "pos2":
                    if st["f"] == 1:
                        for e in some([e for e in st["p"] if ok(e[1])], 24):
                            seqs.append([e[0], e[1]])
                    else:
                        for e in st["c"][:60]:
                            seqs.append([pick(e[0]), pick(e[1])])
                elif ty == "curs":
                    ex = [e[0] for e in st["m"] if e[2] and ok(e[0])]
                    en = [e[0] for e in st["m"] if e[1] and ok(e[0])]
                    for x in ex[:6]:
                        seqs.append([x, pick(en)])
                elif ty in ("mkb", "mkm"):
                    marks = [m[0] for m in st["marks"]]
                    classes = sorted({m[1] for m in st["marks"]})
                    for b in some(st["bases"], 6):
                        for c in classes:  # one mark of every class the retained marks still have
                            m = pick([x[0] for x in st["marks"] if x[1] == c])
                            seqs.append([b[0], m])
                            seqs.append([b[0], m, pick(marks)])
                elif ty == "mkl":
                    for l in some(st["ligs"], 6):
                        for m in some(st["marks"], 3):
                            seqs.append([l[0], m[0]])
    seqs = [s for s in seqs if s and None not in s and all(g in allowed for g in s)]
    uniq = []
    seen = set()
    for s in seqs:
        if tuple(s) not in seen:
            seen.add(tuple(s))
            uniq.append(s)
    if len(uniq) > limit:
        uniq = rng.sample(uniq, limit)
    return uniq


def probe_texts(by_glyph, seqs, rng, nrandom):
    """Texts over the retained characters (by_glyph: glyph -> its retained, probe-able characters): the rule
    sequences mapped back through the cmap, single characters, and random short texts."""
    chars = sorted({u for us in by_glyph.values() for u in us})
    texts = []
    for s in seqs:
        if all(g in by_glyph for g in s):
            texts.append([by_glyph[g][0] for g in s])
    for u in chars[:12]:
        texts.append([u])
    for _ in range(nrandom if chars else 0):
        texts.append([rng.choice(chars) for _k in range(rng.randint(2, 4))])
    out, seen = [], set()
    for t in texts:
        if tuple(t) not in seen and text_ok(t):
            seen.add(tuple(t))
            out.append(t)
    return out


def var_locations(font):
    if "fvar" not in font:
        return [{}]
    axes = font["fvar"].axes
    locs = [{}]
    if axes:
        locs.append({axes[0].axisTag: axes[0].maxValue})
        loc = {axes[0].axisTag: axes[0].minValue}
        if len(axes) > 1:
            loc[axes[1].axisTag] = axes[1].maxValue
        locs.append(loc)
    return locs


def _opts(optd):
    from fontTools import subset

    o = subset.Options()
    for k, v in optd.items():
        setattr(o, k, v)
    o.legacy_kern = True  # assumption: the kern table is not silently replaced by GPOS (option outside the property)
    return o


def escapes(uns):
    """Domain OriginalRefersOutsideGlyphSet: some lookup of the original font outputs a glyph the font does not have."""
    return any("outside probe universe" in r for _w, r in uns)


def sfnt_bytes(data, font_number):
    """(bytes, face index) HarfBuzz can read: WOFF / WOFF2 wrappers are removed (same tables, flavor None)."""
    if data[:4] in (b"wOFF", b"wOF2"):
        from fontTools.ttLib import TTFont

        f = TTFont(io.BytesIO(data), fontNumber=font_number, recalcBBoxes=False, recalcTimestamp=False)
        f.flavor = None
        buf = io.BytesIO()
        f.save(buf, reorderTables=None)
        return buf.getvalue(), 0
    return data, max(font_number, 0)


def run_subsetter(data, font_number, req, optd):
    """The real pipeline as subset.main drives it: load_font, populate, subset, save_font."""
    from fontTools import subset

    o = _opts(optd)
    o.font_number = font_number
    font = subset.load_font(io.BytesIO(data), o, dontLoadGlyphNames=False)
    order0 = font.getGlyphOrder()
    s = subset.Subsetter(o)
    s.populate(glyphs=req.get("glyphs", []), gids=req.get("gids", []), unicodes=req.get("unicodes", []), text=req.get("text", ""))
    s.subset(font)
    # what the subsetter itself produced, before the table codecs: the Unicode cmap (by new glyph number)
    mem = {"mcmap": set(), "fmt2": False}
    if "cmap" in font:
        for t in font["cmap"].tables:
            if t.isUnicode() and t.format != 14:
                mem["mcmap"].update((int(u), font.getGlyphID(g) + 1) for u, g in t.cmap.items())
                if t.format == 2 and t.cmap and max(t.cmap) < 256:
                    mem["fmt2"] = True
    buf = io.BytesIO()
    subset.save_font(font, buf, o)
    s.verif_mem = mem
    return s, order0, buf.getvalue()


def record_case(data, font_number, pf, req, optd, rng, kind, label, nprobe=40, nkept=24, full_result=False, esc=False):
    """Run one (font, request, options) through the real subsetter and record everything the judge needs.
    Returns (trace, skips) or raises Skip."""
    from fontTools.ttLib import TTFont
    from . import hb

    skips = {}
    logging.disable(logging.CRITICAL)
    try:
        # the request and the options as the specification sees them: glyph numbers and code points
        n0 = pf["n"]
        orig = TTFont(io.BytesIO(data), fontNumber=font_number)
        pf_names = {g: i + 1 for i, g in enumerate(orig.getGlyphOrder())}
        rg = sorted({pf_names[g] for g in req.get("glyphs", []) if g in pf_names} | {i + 1 for i in req.get("gids", []) if i < n0})
        us = sorted(set(req.get("unicodes", [])) | {ord(c) for c in req.get("text", "")})
        feats = optd["layout_features"]
        head = {"kind": kind, "label": label, "req": {"unicodes": us, "glyphs": rg},
                "opts": {"retain": bool(optd["retain_gids"]), "notdef": bool(optd["notdef_glyph"]), "recommended": bool(optd["recommended_glyphs"]),
                         "closure": bool(optd["layout_closure"]), "feats": list(feats), "scripts": list(optd["layout_scripts"]),
                         "ndoutline": bool(optd["notdef_outline"])}}
        try:
            s, order0, out = run_subsetter(data, font_number, req, optd)
        except Exception as e:  # the judge decides whether the request was one that has an answer
            return dict(head, crash="%s: %s" % (type(e).__name__, str(e)[:200])), skips
        name2g = {g: i + 1 for i, g in enumerate(order0)}
        n = len(order0)

        def st(attr):
            return sorted({name2g[g] for g in getattr(s, attr) if g in name2g})

        staged = {k: st("glyphs_" + k) for k in ("requested", "cmaped", "mathed", "gsubed", "colred", "glyfed", "cffed", "retained", "emptied")}
        order = [name2g[g] for g in s.new_glyph_order]
        imap = [-1] * n
        for old, new in s.glyph_index_map.items():
            imap[old] = new
        tag = "sfnt"
        try:  # the saved result must be a font the library itself can read back completely
            res = TTFont(io.BytesIO(out))
            for tag in res.keys():
                res[tag]
            if "glyf" in res:
                for g in res.getGlyphOrder():
                    res["glyf"][g]
            for tag in ("GSUB", "GPOS", "GDEF"):
                if tag in res:
                    _ot_glyph_names(res[tag].table, set(), set())
        except Exception as e:
            return dict(head, unreadable="%s in %s: %s" % (type(e).__name__, tag, str(e)[:160])), skips
        nres = len(res.getGlyphOrder())
        refs = table_refs(res)
        rcmap = set()
        if "cmap" in res:
            for t in res["cmap"].tables:
                if t.isUnicode() and t.format != 14:
                    for u, g in t.cmap.items():
                        rcmap.add((int(u), res.getGlyphID(g) + 1))
        trace = {
            **head,
            "staged": staged, "order": order, "imap": imap, "nres": nres,
            "refs": [[k, v] for k, v in sorted(refs.items())],
            "rcmap": [list(p) for p in sorted(rcmap)],
            "mcmap": [list(p) for p in sorted(s.verif_mem["mcmap"])], "fmt2": s.verif_mem["fmt2"],
            "tables": sorted(res.keys()),
        }
        # ---- shaping observations -------------------------------------------------
        retained_chars = {u for u, _g in rcmap}
        hdata, hidx = sfnt_bytes(data, font_number)  # HarfBuzz reads plain sfnt / collections only
        locs = var_locations(orig)
        by_glyph = {}
        for u, g in pf["cmap"]:
            if u in retained_chars and probe_char_ok(u):
                by_glyph.setdefault(g, []).append(u)
        seqs = rule_glyph_seqs(pf, rng, 3 * nprobe, set(by_glyph))
        if not optd["layout_closure"]:
            nprobe = min(nprobe, 12)  # each such observation costs TLC a closure computation (NoClosureEscape)
        texts = probe_texts(by_glyph, seqs, rng, max(4, nprobe // 4))[:nprobe]
        features = hb_features(pf, optd)
        scripts, nsk = probe_scripts(pf, optd, layout_systems(orig), layout_systems(res))
        if nsk:
            skips["shaping under a language system the shaper selects differently after pruning (ScriptPrunedFallback)"] = nsk
        # second alternates: value 2 for (at most 10) features that reach an AlternateSubst lookup.  HarfBuzz stores
        # feature values in a 32-bit mask (2 bits per feature of value 2): asking for more than fit makes it drop
        # features, and which ones depends on the features each font has (named shaper limit HBMaskBits).
        G = pf["L"]["gsub"]
        alt_tags = sorted({str(e[2]) for e in G["fl"] if any(0 < i <= len(G["lookups"]) and G["lookups"][i - 1]["ty"] == "sub3" for i in e[3])})[:10]
        alts = [1, 2] if alt_tags else [1]
        shapes = []
        dotted = {g for u, g in pf["cmap"] if u == 0x25CC}
        sh = {}
        for li, loc in enumerate(locs[:2]):
            sh[li] = (hb.Shaper(hdata, loc, index=hidx), hb.Shaper(out, loc))
        A0, B0 = sh[0]
        if esc:
            # domain OriginalRefersOutsideGlyphSet: a lookup of the original font outputs a glyph id the font does not have
            skips["shaping with an original font whose lookups output glyphs it does not have"] = 1
            sh = {}
        elif A0.has_gdef_classes() != B0.has_gdef_classes():
            # named shaper convention HBSynthesizedClasses: for a font without GDEF glyph classes HarfBuzz invents
            # them from Unicode categories (OpenType: no class).  GDEF is dropped when no kept glyph has a class
            # (kept:gdef-glyph-class-changed guards that); lookup flags then act differently in HarfBuzz only.
            skips["shaping when only one of the fonts has GDEF glyph classes (HBSynthesizedClasses)"] = 1
            sh = {}
        for li in sh:
            A, B = sh[li]
            for sc, la in scripts[:3]:
                for alt in alts:
                    fs = {t: (v * alt if t in alt_tags else v) for t, v in features.items()}
                    for t in texts:
                        a = A.shape(codepoints=t, features=fs, script=sc, language=la)
                        if dotted and any(x[0] + 1 in dotted for x in a):
                            skips["shaper inserted a dotted circle"] = skips.get("shaper inserted a dotted circle", 0) + 1
                            continue
                        b = B.shape(codepoints=t, features=fs, script=sc, language=la)
                        shapes.append({"t": t, "a": [list(x) for x in a], "b": [list(x) for x in b]})
        trace["shapes"] = shapes
        trace["nchars"] = len(retained_chars)
        # ---- kept glyphs: outlines, metrics, variations -----------------------------
        intern = common.Interner()
        kept = []
        cand = staged["retained"]
        if len(cand) > nkept:
            cand = sorted(rng.sample(cand, nkept - 2) + cand[:2])
        hm0 = orig["hmtx"].metrics if "hmtx" in orig else {}
        hm1 = res["hmtx"].metrics if "hmtx" in res else {}
        names1 = res.getGlyphOrder()
        shapers = {li: (hb.Shaper(hdata, loc, index=hidx), hb.Shaper(out, loc)) for li, loc in enumerate(locs)}
        cls0 = pf["L"]["gdef"]["cls"]
        cls1 = {}
        if "GDEF" in res and res["GDEF"].table.GlyphClassDef is not None:
            cls1 = res["GDEF"].table.GlyphClassDef.classDefs
        cs0 = cs1 = None
        if "CFF " in orig and "CFF " in res:  # CFF charstring widths (CID fonts: they depend on the glyph's font dict)
            cs0, cs1 = orig["CFF "].cff[0].CharStrings, res["CFF "].cff[0].CharStrings

        def cff_width(cs, name):
            from fontTools.pens.basePen import NullPen

            c = cs[name]
            c.draw(NullPen())
            return int(round(c.width * 1000))

        for g in cand:
            new = imap[g - 1]
            if new < 0 or new >= nres:
                continue  # RequestedPresent / order clauses report this
            m0 = hm0.get(order0[g - 1], (0, 0))
            m1 = hm1.get(names1[new], (0, 0))
            rec = {"g": g, "adv": [m0[0], m1[0]], "lsb": [m0[1], m1[1]], "loc": [],
                   "cls": [cls0[g - 1] if cls0 else 0, int(cls1.get(names1[new], 0))]}
            rec["cw"] = [cff_width(cs0, order0[g - 1]), cff_width(cs1, names1[new])] if cs0 is not None else [0, 0]
            for li, (A, B) in shapers.items():
                oa = intern(repr(A.draw_glyph(g - 1)))
                ob = intern(repr(B.draw_glyph(new)))
                rec["loc"].append([oa, ob, A.h_advance(g - 1), B.h_advance(new)])
            kept.append(rec)
        trace["kept"] = kept
        if full_result:
            pr, _uns = project_font(res)
            trace["res"] = pr
        return trace, skips
    finally:
        logging.disable(logging.NOTSET)


# ---------------------------------------------------------------------------
# options: pairwise covering array
# ---------------------------------------------------------------------------
def option_levels():
    from fontTools import subset

    default_feats = list(subset.Options._layout_features_default)
    return [
        ("layout_features", [["*"], default_feats, [], "one"]),
        ("layout_scripts", [["*"], "first"]),
        ("retain_gids", [False, True]),
        ("notdef_glyph", [True, False]),
        ("notdef_outline", [False, True]),
        ("recommended_glyphs", [False, True]),
        ("glyph_names", [False, True]),
        ("hinting", [True, False]),
        ("desubroutinize", [False, True]),
        ("name_IDs", [[0, 1, 2, 3, 4, 5, 6], ["*"], []]),
        ("passthrough_tables", [False, True]),
        ("layout_closure", [True, False]),
    ]


def pairwise_rows(levels, rng):
    """Greedy pairwise covering array: every pair of levels of every two options occurs in some row."""
    names = [n for n, _ in levels]
    sizes = [len(v) for _, v in levels]
    need = {(i, a, j, b) for i, j in itertools.combinations(range(len(names)), 2) for a in range(sizes[i]) for b in range(sizes[j])}
    rows = []
    while need:
        best, bestc = None, -1
        for _try in range(40):
            row = [rng.randrange(s) for s in sizes]
            # seed the row with one still-uncovered pair
            i, a, j, b = rng.choice(sorted(need))
            row[i], row[j] = a, b
            c = sum(1 for (i2, a2, j2, b2) in need if row[i2] == a2 and row[j2] == b2)
            if c > bestc:
                best, bestc = row, c
        rows.append(best)
        need = {(i, a, j, b) for (i, a, j, b) in need if not (best[i] == a and best[j] == b)}
    return [{names[k]: levels[k][1][row[k]] for k in range(len(names))} for row in rows]


def concretise(optrow, pf, rng):
    """Resolve the font-dependent levels ('one' feature tag, 'first' script).  Domain: dropping .notdef "is not
    possible for Postscript-flavored fonts" (subset --help), so notdef_glyph stays on for CFF/CFF2 fonts."""
    o = dict(optrow)
    if not pf["glyf"]:
        o["notdef_glyph"] = True
    tags = sorted({e[2] for tb in ("gsub", "gpos") for e in pf["L"][tb]["fl"]})
    scripts = sorted({e[0] for tb in ("gsub", "gpos") for e in pf["L"][tb]["fl"]})
    if o["layout_features"] == "one":
        o["layout_features"] = [rng.choice(tags)] if tags else ["liga"]
    if o["layout_scripts"] == "first":
        o["layout_scripts"] = [scripts[0]] if scripts else ["*"]
    return o


def rule_key_lists(pf):
    """For every layout subtable of the original font: (keys, groups).  keys = the glyphs its coverage / first position
    lists, in glyph order (the order in which the font stores per-glyph records); groups = lists of sibling glyph
    sets in the order the font numbers them (mark classes; first / second glyph classes of class pairs; the first
    input sets of the rules of a context subtable; the second glyphs per first glyph of glyph pairs), plus
    singleton groups for other position sets."""
    out = []

    def distinct(seq):
        seen, res = set(), []
        for x in seq:
            x = tuple(sorted(set(x)))
            if x and x not in seen:
                seen.add(x)
                res.append(list(x))
        return res

    for tb in ("gsub", "gpos"):
        for lk in pf["L"][tb]["lookups"]:
            ty = lk["ty"]
            for st in lk["st"]:
                keys, groups = [], []
                if ty in ("sub1", "sub2", "sub3", "pos1", "curs"):
                    keys = [e[0] for e in st["m"]]
                elif ty == "sub4":
                    keys = [c[0][0] for c in st["l"]]
                    groups = [[x] for x in distinct(c[0] for c in st["l"])]
                elif ty == "rsub":
                    for r in st["r"]:
                        keys += [e[0] for e in r["m"]]
                        groups += [[x] for x in distinct(r["b"] + r["a"])]
                elif ty == "ctx":
                    keys = [g for r in st["r"] if r["i"] for g in r["i"][0]]
                    groups = [distinct(r["i"][0] for r in st["r"] if r["i"])]
                    groups += [[x] for r in st["r"] for x in distinct(r["b"] + r["i"][1:] + r["a"])]
                elif ty == "pos2":
                    if st["f"] == 1:
                        keys = [e[0] for e in st["p"]]
                        groups = [distinct([e[1] for e in st["p"] if e[0] == k] for k in sorted({e[0] for e in st["p"]}))]
                    else:
                        keys = list(st["cov"])
                        groups = [distinct(e[0] for e in st["c"]), distinct(e[1] for e in st["c"])]
                elif ty in ("mkb", "mkm", "mkl"):
                    keys = [b[0] for b in st.get("bases", st.get("ligs", []))]
                    groups = [distinct([m[0] for m in st["marks"] if m[1] == c] for c in sorted({m[1] for m in st["marks"]})),
                              [[m[0] for m in st["marks"]]]]
                keys = sorted(set(keys))
                groups = [g for g in groups if g]
                if len(keys) >= 2 or groups:
                    out.append((keys, groups))
    return out


def make_requests(pf, order, rng, count):
    """Seeded requests over the characters and glyphs of the font.  The first two are aimed at the renumbering of
    per-glyph records and of classes: `split` drops a leading part of the glyphs one subtable lists (and keeps
    everything else), `dropset` drops all glyphs of one class / position set of one subtable (mostly the first class of
    a group of sibling classes); then half of the
    characters; then the other request forms (single character, glyph names, glyph ids, text, all but one, mixed,
    a few, everything) in a rotation that starts at a font-dependent place."""
    chars = sorted({u for u, _g in pf["cmap"]})
    by_glyph = {}
    for u, g in pf["cmap"]:
        by_glyph.setdefault(g, []).append(u)
    reqs = []
    n = pf["n"]
    rules = rule_key_lists(pf)

    def some_chars(k):
        return sorted(rng.sample(chars, min(k, len(chars)))) if chars else []

    def all_but_glyphs(gs):
        gs = set(gs)
        drop = {u for g in gs for u in by_glyph.get(g, [])}
        return {"unicodes": [u for u in chars if u not in drop]}

    rest = ["single", "names", "gids", "text", "allbut1", "mixed", "few", "all"]
    off = rng.randrange(len(rest))
    kinds = ["split", "dropset", "half"] + [rest[(off + i) % len(rest)] for i in range(max(0, count - 3))]
    for kind in kinds[:count]:
        if kind == "split":
            cands = [k for k, _s in rules if len([g for g in k if g in by_glyph]) >= 2]
            if cands:
                keys = [g for g in rng.choice(cands) if g in by_glyph]
                cut = rng.randint(1, len(keys) - 1)
                drop = keys[:cut] if rng.random() < 0.7 else rng.sample(keys, cut)
                r = all_but_glyphs(drop)
            else:
                r = {"unicodes": some_chars(rng.randint(2, 6))}
        elif kind == "dropset":
            enc = lambda x: any(g in by_glyph for g in x)
            # the first class of a group that has a later, still encoded sibling: the case in which classes are renumbered
            lead = [grp[0] for _k, gs in rules for grp in gs if len(grp) >= 2 and enc(grp[0]) and any(enc(x) for x in grp[1:])]
            cands = [x for _k, gs in rules for grp in gs for x in grp if enc(x)]
            if lead and rng.random() < 0.85:
                r = all_but_glyphs(rng.choice(lead))
            elif cands:
                r = all_but_glyphs(rng.choice(cands))
            else:
                drop = rng.choice(chars) if chars else None
                r = {"unicodes": [u for u in chars if u != drop]}
        elif kind == "single":
            r = {"unicodes": some_chars(1)}
        elif kind == "half":
            r = {"unicodes": some_chars(max(1, len(chars) // 2))}
        elif kind == "allbut1":
            drop = rng.choice(chars) if chars else None
            r = {"unicodes": [u for u in chars if u != drop]}
        elif kind == "all":
            r = {"unicodes": list(chars)}
        elif kind == "few":
            r = {"unicodes": some_chars(rng.randint(2, 6))}
        elif kind == "names":
            r = {"glyphs": [order[rng.randrange(n)] for _ in range(rng.randint(1, 3))]}
        elif kind == "gids":
            r = {"gids": sorted({rng.randrange(n) for _ in range(rng.randint(1, 3))})}
        elif kind == "text":
            cs = [u for u in some_chars(rng.randint(1, 5)) if not (0xD800 <= u <= 0xDFFF)]
            r = {"text": "".join(map(chr, cs))}
        else:
            r = {"unicodes": some_chars(rng.randint(1, 4)), "glyphs": [order[rng.randrange(n)]], "gids": [rng.randrange(n)]}
        r["kind"] = kind
        reqs.append(r)
    return reqs


# ---------------------------------------------------------------------------
# jobs (run in forked workers)
# ---------------------------------------------------------------------------
def _font_for_tlc(pf, full):
    """What TLC needs of the original font: everything for generated fonts; for corpus fonts the closure
    structure only (GPOS and GDEF take no part in the clauses computed from the projection)."""
    if full:
        return pf
    f = dict(pf)
    f["L"] = {"gdef": {"cls": [], "mac": [], "sets": []}, "gsub": pf["L"]["gsub"], "gpos": {"lookups": [], "fl": []}, "adv": []}
    return f


SYNTH_SEAC = "synthetic-cff-seac.otf"  # pseudo corpus path: no corpus font uses endchar-seac composites


def synthetic_cff_seac():
    """A CFF font whose accented glyphs are endchar-seac composites, with and without a leading width operand."""
    from fontTools.fontBuilder import FontBuilder
    from fontTools.misc.psCharStrings import T2CharString

    glyphs = [".notdef", "A", "E", "acute", "grave", "dieresis", "Aacute", "Agrave", "Adieresis", "Eacute", "Egrave", "B"]
    dflt, nominal = 600, 500
    # StandardEncoding: 65 A, 69 E, 194 acute, 193 grave, 200 dieresis
    prog = {
        ".notdef": ["endchar"],
        "A": [0, 0, "rmoveto", 300, 700, "rlineto", 300, -700, "rlineto", "endchar"],
        "E": [50, 0, "rmoveto", 0, 700, "rlineto", 400, 0, "rlineto", 0, -700, "rlineto", "endchar"],
        "acute": [200 - nominal, 250, 750, "rmoveto", 100, 100, "rlineto", 20, -100, "rlineto", "endchar"],
        "grave": [200 - nominal, 250, 850, "rmoveto", 100, -100, "rlineto", -20, 100, "rlineto", "endchar"],
        "dieresis": [300 - nominal, 200, 800, "rmoveto", 50, 50, "rlineto", 50, -50, "rlineto", "endchar"],
        "Aacute": [650 - nominal, 150, 0, 65, 194, "endchar"],
        "Agrave": [150, 0, 65, 193, "endchar"],
        "Adieresis": [700 - nominal, 100, 10, 65, 200, "endchar"],
        "Eacute": [120, 0, 69, 194, "endchar"],
        "Egrave": [620 - nominal, 120, 0, 69, 193, "endchar"],
        "B": [0, 0, "rmoveto", 0, 700, "rlineto", 300, 0, "rlineto", "endchar"],
    }
    widths = {".notdef": 600, "A": 600, "E": 600, "acute": 200, "grave": 200, "dieresis": 300, "Aacute": 650, "Agrave": 600,
              "Adieresis": 700, "Eacute": 600, "Egrave": 620, "B": 600}
    fb = FontBuilder(unitsPerEm=1000, isTTF=False)
    fb.setupGlyphOrder(glyphs)
    fb.setupCharacterMap({0x41: "A", 0x45: "E", 0x42: "B", 0xB4: "acute", 0x60: "grave", 0xA8: "dieresis", 0xC1: "Aacute",
                          0xC0: "Agrave", 0xC4: "Adieresis", 0xC9: "Eacute", 0xC8: "Egrave"})
    fb.setupCFF("VerifC07Seac-Regular", {"FullName": "VerifC07Seac Regular"}, {g: T2CharString(program=list(p)) for g, p in prog.items()},
                {"defaultWidthX": dflt, "nominalWidthX": nominal})
    fb.setupHorizontalMetrics({g: (widths[g], 0) for g in glyphs})
    fb.setupHorizontalHeader(ascent=800, descent=-200)
    fb.setupNameTable({"familyName": "VerifC07Seac", "styleName": "Regular"})
    fb.setupOS2()
    fb.setupPost()
    buf = io.BytesIO()
    fb.save(buf)
    return buf.getvalue()


def corpus_bytes(path):
    """Bytes of a corpus font: binaries as they are, whole-font TTX compiled by the library, the synthetic font built."""
    if os.path.basename(path) == SYNTH_SEAC:
        return synthetic_cff_seac()
    if path.endswith(".ttx"):
        from . import fonts

        return fonts.compile_ttx(path)
    with open(path, "rb") as f:
        return f.read()


def corpus_job(job):
    """One corpus font: project once, run its (request, options) cases."""
    import random
    from fontTools.ttLib import TTFont

    path, idx, seed, optrows, nreq, nprobe = job
    rng = random.Random("%s#%d#%s" % (common.rel(path), idx, seed))
    label = "%s#%d" % (common.rel(path), idx) if idx >= 0 else common.rel(path)
    logging.disable(logging.CRITICAL)
    try:
        data = corpus_bytes(path)
        if data is None:
            return {"label": label, "skip": "corpus TTX the library cannot compile", "cases": []}
        try:
            font = TTFont(io.BytesIO(data), fontNumber=idx)
            order = font.getGlyphOrder()
            pf, uns = project_font(font)
            buf = io.BytesIO()
            font.save(buf)  # domain: the original itself must be a font the library can write
        except Exception as e:
            return {"label": label, "skip": "original font not loadable/projectable/savable (%s)" % type(e).__name__, "cases": []}
    finally:
        logging.disable(logging.NOTSET)
    cases = []
    skips = {}
    reqs = make_requests(pf, order, rng, nreq)
    for k, req in enumerate(reqs):
        optd = concretise(optrows[(k + rng.randrange(len(optrows))) % len(optrows)] if k >= 3 else
                          dict(optrows[k % len(optrows)], layout_features=["*"], layout_closure=True, layout_scripts=["*"]), pf, rng)
        rq = {k2: v for k2, v in req.items() if k2 != "kind"}
        rk = "%s#%d#%s#%d" % (common.rel(path), idx, seed, k)  # the probes of a case depend on nothing but this (replayable)
        trace, sk = record_case(data, idx, pf, rq, optd, random.Random(rk), "V", label, nprobe=nprobe, esc=escapes(uns))
        for r, c in sk.items():
            skips[r] = skips.get(r, 0) + c
        trace["replay"] = {"mode": "V", "path": common.rel(path), "idx": idx, "req": rq, "opts": optd, "reqkind": req["kind"],
                           "rk": rk, "nprobe": nprobe}
        cases.append(trace)
    return {"label": label, "font": _font_for_tlc(pf, False), "cases": cases, "skips": skips,
            "unsupported": sorted({r for _w, r in uns})}


def gen_job(job):
    """One TLC-generated abstract case: realise, cross-check the projection, run, record."""
    import random

    case, seed, k = job
    rng = random.Random("gen#%d#%s" % (k, seed))
    af = case["font"]
    data = realize(af)
    from fontTools.ttLib import TTFont

    pf, _uns = project_font(TTFont(io.BytesIO(data)))
    ok, a, b = same_font(af, pf)
    if not ok:
        return {"error": "projection of the realised font differs from the abstract font: %r vs %r" % (a, b)}
    feats = case["opts"]["feats"]
    optd = {"layout_features": list(feats), "layout_scripts": list(case["opts"]["scripts"]), "retain_gids": case["opts"]["retain"],
            "notdef_glyph": case["opts"]["notdef"], "notdef_outline": True, "recommended_glyphs": case["opts"]["recommended"],
            "glyph_names": bool(k % 2), "hinting": True, "desubroutinize": False, "name_IDs": [0, 1, 2, 3, 4, 5, 6],
            "passthrough_tables": False, "layout_closure": case["opts"]["closure"]}
    names = GLYPH_NAMES[: af["n"]]
    gl = case["req"]["glyphs"]
    req = {"unicodes": [CP_BASE + u for u in case["req"]["unicodes"]]}
    if gl:
        if k % 2:
            req["glyphs"] = [names[g - 1] for g in gl]
        else:
            req["gids"] = [g - 1 for g in gl]
    trace, _sk = record_case(data, -1, pf, req, optd, rng, "R", "gen-%d" % k, nprobe=24, full_result=True)
    trace["replay"] = {"mode": "R", "case": {x: case[x] for x in ("font", "req", "opts")}, "k": k}
    return {"font": pf, "trace": trace}


# ---------------------------------------------------------------------------
# judging and reporting
# ---------------------------------------------------------------------------
def judge(chk, fonts, traces, label, chunk=1500):
    """traces carry `font` = 1-based index into fonts.  Returns [(trace, clause, detail)] for the rejected ones.
    TLC (Trace_C07) decides everything: ACC (with the number of shaping observations it compared), REJ with a
    clause, where the clauses `domain:*` mean "outside the property's domain" (counted as skipped)."""
    rejected = []
    for base in range(0, len(traces), chunk):
        part = traces[base: base + chunk]
        used = sorted({t["font"] for t in part})
        remap = {f: i + 1 for i, f in enumerate(used)}
        slim = []
        for t in part:
            u = {k: v for k, v in t.items() if k != "replay"}
            u["font"] = remap[t["font"]]
            slim.append(u)
        if os.environ.get("VERIF_C07_KEEP"):  # development aid: keep the judge's input
            import json

            with open(os.path.join(os.environ["VERIF_C07_KEEP"], "%s-%d.json" % (label.replace("(", "_").replace(")", ""), base)), "w") as f:
                json.dump({"meta": {"fonts": [fonts[f2 - 1] for f2 in used]}, "traces": slim, "replays": [t.get("replay") for t in part]}, f)
        r = chk.tlc("Trace_C07", traces={"meta": {"fonts": [fonts[f - 1] for f in used]}, "traces": slim}, label=label,
                    workers=TLC_WORKERS, timeout=1500, heap="8g")
        rej = {}
        for payload in r.rej:
            rej.setdefault(payload[0], (payload[1], payload[2] if len(payload) > 2 else 0))
        acc = {p[0]: (p[1] if len(p) > 1 else 0) for p in r.prints.get("ACC", [])}
        for i, t in enumerate(part, 1):
            if i in rej:
                clause, pos = rej[i]
                if clause.startswith("domain:"):
                    chk.skip("request outside the domain (%s)" % clause[7:])
                    t["outside"] = True
                else:
                    rejected.append((t, clause, pos))
            elif i in acc:
                chk.traces_validated += 1
                chk.notes["shaping_observations_compared"] = chk.notes.get("shaping_observations_compared", 0) + int(acc[i])
            else:
                raise MachineryError("Trace_C07: trace %d neither accepted nor rejected" % i)
    return rejected


def report(chk, rejected):
    dump = os.environ.get("VERIF_C07_DUMP")  # development aid: every rejection, one JSON line each
    if dump:
        import json

        with open(dump, "a") as f:
            for t, clause, pos in rejected:
                f.write(json.dumps({"clause": clause, "pos": pos, "label": t.get("label"), "replay": t.get("replay")}) + "\n")
    for t, clause, pos in rejected:
        rp = t.get("replay", {})
        if clause.startswith("trace:"):
            raise MachineryError("malformed trace %s: %s (%s)" % (t.get("label"), clause, pos))
        what = "%s on %s request=%s options=%s detail=%s" % (
            clause, t.get("label"), rp.get("req") or rp.get("case", {}).get("req"),
            {k: v for k, v in (rp.get("opts") or rp.get("case", {}).get("opts") or {}).items() if k != "layout_features" or len(v) < 8}, pos)
        chk.reject(clause, what, rp)


def nontrivial(t, font):
    """A case is non-trivial when it removes at least one glyph and keeps at least one besides .notdef."""
    if "staged" not in t:
        return False
    kept = len(t["staged"]["retained"])
    return 1 < kept < font["n"]


def run_model(chk):
    thorough = chk.tier == "thorough"
    cfgs = ["MC_Subset_thorough", "MC_Subset_opts_thorough", "MC_Subset_pass"] if thorough else ["MC_Subset", "MC_Subset_opts", "MC_Subset_pass"]
    import json

    gens = []
    cache = os.environ.get("VERIF_C07_MCACHE")  # development / sensitivity-run aid only: (M) does not depend on the code under test
    for cfg in cfgs:
        cpath = None
        if cache:
            key = common.digest([open(os.path.join(common.SPECS, f)).read() for f in
                                 ("Subset.tla", "OTLSem.tla", "MC_Subset.tla", cfg + ".cfg")])[:12]
            cpath = os.path.join(cache, "%s-%s.json" % (cfg, key))
        if cpath and os.path.exists(cpath):
            with open(cpath) as f:
                c = json.load(f)
            chk.states += c["distinct"]
            chk.transitions += c["generated"]
            chk.tlc_runs.append(c["run"])
            chk.log("%s: cached (M) result, %d cases" % (cfg, len(c["gens"])))
            gens += c["gens"]
            continue
        r = chk.tlc("MC_Subset", cfg=cfg, label=cfg, workers=TLC_WORKERS, timeout=3000 if thorough else 1200)
        chk.log("%s: %d distinct states, %d cases emitted, %.0fs" % (cfg, r.distinct, len(r.prints.get("GEN", [])), r.wall))
        g = [json.loads(p[0]) for p in r.prints.get("GEN", [])]
        gens += g
        if cpath:
            os.makedirs(cache, exist_ok=True)
            with open(cpath, "w") as f:
                json.dump({"distinct": r.distinct, "generated": r.generated, "run": chk.tlc_runs[-1], "gens": g}, f)
    if not gens:
        raise MachineryError("MC_Subset emitted no cases")
    chk.notes["model_cases_emitted"] = len(gens)
    return gens


def _preload():
    """Import everything the forked workers need once, in the parent (saves seconds of import time per worker)."""
    import fontTools.subset, fontTools.subset.cff, fontTools.fontBuilder, fontTools.pens.ttGlyphPen  # noqa: F401
    import fontTools.otlLib.builder, fontTools.ttLib.woff2, fontTools.varLib.varStore  # noqa: F401
    from fontTools.ttLib import ttFont

    for tag in ("GSUB", "GPOS", "GDEF", "cmap", "glyf", "loca", "head", "hhea", "hmtx", "maxp", "name", "OS/2", "post",
                "CFF ", "CFF2", "fvar", "gvar", "HVAR", "MVAR", "avar", "STAT", "COLR", "CPAL", "MATH", "kern", "BASE"):
        ttFont.getTableClass(tag)
    from . import hb, otl_project, fonts  # noqa: F401


def run(chk):
    _preload()
    chk.rule = ("one case = (font, request, options) pushed through the real Subsetter; distinct by (font, request, options); "
                "non-trivial = the request removes at least one glyph and keeps at least one besides .notdef")
    thorough = chk.tier == "thorough"
    import random

    # two independent streams drawn from chk.rng, so that the corpus cases do not depend on how many model cases were sampled
    rng_sample = random.Random(chk.rng.getrandbits(64))
    rng_opts = random.Random(chk.rng.getrandbits(64))
    # ---- (M) --------------------------------------------------------------------
    gens = run_model(chk)
    # ---- (R) --------------------------------------------------------------------
    # quick tier: a seeded sample stratified by what the case asks of the closure (TLC emitted w = number of glyphs the
    # GSUB closure must add): nested-lookup closures, other closures, no closure
    def stratum(c):
        ctx = any(lk["ty"] == "ctx" for lk in c["font"]["L"]["gsub"]["lookups"])
        return 0 if (c.get("w", 0) > 0 and ctx) else 1 if c.get("w", 0) > 0 else 2

    quota = [10000, 5000, 5000] if thorough else [1200, 600, 600]
    if os.environ.get("VERIF_C07_NR"):  # development aid
        quota = [int(os.environ["VERIF_C07_NR"]) // 3] * 3
    # always in: the cases whose closure needs a second pass over a lookup reached only as a nested lookup (three
    # lookups, at least two glyphs to add); they are few and nothing else exercises the re-visit of a memoised lookup
    must = [k for k in range(len(gens)) if len(gens[k]["font"]["L"]["gsub"]["lookups"]) >= 3 and gens[k].get("w", 0) >= 2]
    chk.notes["model_cases_second_pass"] = len(must)
    idxs = list(must)
    for st in range(3):
        pool = [k for k in range(len(gens)) if stratum(gens[k]) == st]
        chk.notes["model_cases_stratum_%d" % st] = len(pool)
        idxs += rng_sample.sample(pool, min(quota[st], len(pool)))
    idxs = sorted(set(idxs))
    res = common.pmap(gen_job, [(gens[k], chk.seed, k) for k in idxs], chunksize=8)
    fonts, traces, fkey = [], [], {}
    for r in res:
        if "error" in r:
            raise MachineryError(r["error"])
        key = common.digest(r["font"])
        if key not in fkey:
            fonts.append(r["font"])
            fkey[key] = len(fonts)
        t = r["trace"]
        t["font"] = fkey[key]
        traces.append(t)
    chk.log("(R) %d generated cases realised and run (%d distinct fonts)" % (len(traces), len(fonts)))
    nshapes = sum(len(t.get("shapes", [])) for t in traces)
    for t in traces:
        chk.count(1)
        if nontrivial(t, fonts[t["font"] - 1]):
            chk.nontriv(("R", common.digest(t["replay"]["case"])))
    if traces:
        chk.sample({k: traces[0][k] for k in ("label", "req", "opts", "staged", "order")})
    report(chk, judge(chk, fonts, traces, "Trace_C07(R)"))
    # ---- (V) --------------------------------------------------------------------
    from . import fonts as F

    optrows = pairwise_rows(option_levels(), rng_opts)
    chk.notes["option_rows"] = len(optrows)
    files = []
    for p in common.corpus_fonts():
        try:
            nf = F.num_fonts_in(p)
        except Exception:
            nf = 1
        if nf > 1:
            files += [(p, i) for i in range(nf)]
        else:
            files.append((p, -1))
    # whole-font TTX of the corpus: the subsetter's own test inputs, every variable font (the binaries hold only
    # five tiny variable fonts, all with an explicit HVAR advance map) and the CID-keyed masters
    for p in F.whole_font_ttx():
        with open(p, "rb") as f:
            isvar = b"<fvar>" in f.read()
        if isvar or os.sep + os.path.join("Tests", "subset", "data") + os.sep in p or os.path.basename(p).startswith("MasterSet_Kanji-w"):
            files.append((p, -1))  # MasterSet_Kanji: the only CID-keyed fonts whose font dicts interleave
    files.append((os.path.join(common.TESTS, SYNTH_SEAC), -1))
    if os.environ.get("VERIF_C07_FILTER"):  # development aid: comma-separated substrings of corpus paths
        subs = os.environ["VERIF_C07_FILTER"].split(",")
        files = [(p, i) for p, i in files if any(x in p for x in subs)]
    nreq = 10 if thorough else 6
    # the 214 AOTS fonts (100 glyphs, one lookup type each) get one request fewer in the quick tier
    jobs = [(p, i, chk.seed, optrows, nreq - 1 if (not thorough and os.sep + "aots" + os.sep in p) else nreq, 60 if thorough else 30)
            for p, i in files]
    # big fonts first so that the pool is balanced
    jobs.sort(key=lambda j: -(os.path.getsize(j[0]) if os.path.exists(j[0]) else 0) * (1 if j[0].endswith(".ttx") else 8))
    res = common.pmap(corpus_job, jobs, chunksize=1)
    fonts, traces = [], []
    unsup = {}
    for r in sorted(res, key=lambda r: r["label"]):
        if "skip" in r:
            chk.skip(r["skip"])
            continue
        fonts.append(r["font"])
        for reason, c in r.get("skips", {}).items():
            chk.skip(reason, c)
        for u in r.get("unsupported", []):
            unsup[u] = unsup.get(u, 0) + 1
        for t in r["cases"]:
            t["font"] = len(fonts)
            traces.append(t)
    chk.notes["layout_constructs_outside_projection(fonts)"] = unsup
    nshapes += sum(len(t.get("shapes", [])) for t in traces)
    chk.notes["shaping_observations"] = nshapes
    chk.notes["kept_glyph_observations"] = sum(len(t.get("kept", [])) for t in traces)
    for t in traces:
        chk.count(1)
        if nontrivial(t, fonts[t["font"] - 1]):
            chk.nontriv(("V", common.digest(t["replay"])))
    for t in traces[:200]:
        if t.get("shapes") and nontrivial(t, fonts[t["font"] - 1]):
            chk.sample({"label": t["label"], "req": t["req"], "opts": {k: v for k, v in t["opts"].items() if k != "feats" or len(v) < 6},
                        "retained": t["staged"]["retained"][:20], "shape0": t["shapes"][0]}, limit=4)
            break
    chk.log("(V) %d corpus fonts, %d cases, %d shaping observations" % (len(fonts), len(traces), nshapes))
    report(chk, judge(chk, fonts, traces, "Trace_C07(V)"))
    chk.exhaustive = False
    chk.assumptions += [
        "glyph identity across the subset is the Subsetter's own glyph_index_map (old gid -> new gid), never post names",
        "MinClosure is computed by TLC from the projected GSUB of the original font; constructs outside the projection "
        "(FeatureVariations alternates, cmap format 14, COLRv1 paints, CFF seac) only make it smaller (it is a lower bound)",
        "named deviations modelled: CmapFormat0Dropped (format-0 cmap subtables are dropped by design), NotdefOutlineDropped "
        "(notdef_glyph and not notdef_outline empties glyph 0: outline, side bearing, its gvar entry incl. phantom-point deltas), "
        "ChaosSkipped (lower bound after non 1-to-1 nested lookups), GlyphZeroLost (finding no-notdef-glyph-zero: reported, not excused)",
        "domain: EmptyGlyphSet (a request that selects no glyph has no font as answer), NoClosureEscape (without layout_closure shaping "
        "equality is claimed for texts whose shaping in the original cannot leave glyphs_gsubed; decided by TLC with an upper bound of "
        "the GSUB closure), OriginalRefersOutsideGlyphSet (original lookups that output glyph ids the font does not have), "
        "dropping .notdef only for TrueType flavour (subset --help)",
        "HarfBuzz shaping is compared with the same explicit feature settings on both fonts: features the options drop are switched "
        "off; a (script, language) is probed only if the shaper selects the same language system in both fonts (ScriptPrunedFallback); "
        "no comparison when exactly one font has GDEF glyph classes (HBSynthesizedClasses; kept:gdef-glyph-class-changed guards the "
        "classes themselves); value 2 (second alternate) only for up to 10 features that reach an AlternateSubst (HBMaskBits); probe "
        "texts avoid default-ignorable, decomposable and Hangul code points (DESIGN section 9 rule 5); WOFF/WOFF2 originals are "
        "unwrapped to plain sfnt for HarfBuzz",
        "options.legacy_kern is forced on (dropping 'kern' when GPOS exists is a documented lossy default outside the property)",
    ]


def replay(chk, rep):
    import random
    from fontTools.ttLib import TTFont

    rp = rep["replay"]
    chk.rule = "replay of one recorded case"
    if rp.get("mode") == "R":
        r = gen_job((rp["case"], chk.seed, rp["k"]))
        if "error" in r:
            raise MachineryError(r["error"])
        fonts, t = [r["font"]], r["trace"]
    else:
        path = os.path.join(os.path.dirname(common.TESTS), rp["path"])
        data = corpus_bytes(path)
        pf, _uns = project_font(TTFont(io.BytesIO(data), fontNumber=rp["idx"]))
        t, _sk = record_case(data, rp["idx"], pf, rp["req"], rp["opts"], random.Random(rp.get("rk", "replay")), "V", rp["path"],
                             nprobe=rp.get("nprobe", 60), esc=escapes(_uns))
        t["replay"] = rp
        fonts = [_font_for_tlc(pf, False)]
    t["font"] = 1
    chk.count(1)
    rej = judge(chk, fonts, [t], "Trace_C07(replay)")
    for tr, clause, pos in rej:
        chk.log("rejected:", clause, pos)
    report(chk, rej)
