"""C08 -- instancing a variable font preserves the design space that remains.

(M)  MC_Instancer (families one / one2 / two / avar / fv): the operational instancing steps of
     specs/Instancer.tla (normalise limits, rebase each tent, scale deltas, merge equal regions,
     fold the default contribution, round; avar and condition-range renormalisation) satisfy
     Preserved exactly before rounding and within the derived budget after, AxesCorrect, Static,
     FeatureVars, at every half-step point of the new space, on whole small lattices.  TLC exports
     every case (GEN), the operational steps it exercised (COV) and the cases in which the named
     deviation D-FV1 of the code breaks FeatureVars (BAD).
(R)  the TLC-exported cases drive the REAL functions: instantiateTupleVariationStore,
     instantiateItemVariationStore, instantiateGvarGlyph, instancer.featureVars (function level,
     exact rationals, rounding switched off and on) and, realised as tiny variable fonts
     (harness/c08_fonts.py), the real instantiateVariableFont; TLC (Trace_C08) judges the outputs.
(V)  every variable font of the corpus x seeded limit specifications x locations: projections of
     the original and of the saved instance (harness/c08_project.py) judged by TLC.

The budget TLC grants a whole-font comparison (all terms derived in specs/Trace_C08.tla, none tuned):
  * 1/2 per rounded stored quantity: the item's default value (nb quantities) and every delta set of the
    EXACT instance, weighted by its scalar at the location (w quantities per set: 2 for an advance taken
    from two phantom points, the number of blended operands accumulated along the path for a CFF2
    coordinate); the delta sets of the exact instance are derived by module Instancer, because a set
    whose deltas all round to 0 is not stored although its rounding is in the value;  + 1/2 per gvar
    quantity when the instancer re-ran IUP optimisation (tolerance 1/2, D-IUP);
  * D-F14: stored normalised coordinates are F2DOT14.  Every region coordinate of the saved instance is
    the ideal one rounded (<= 1/2 unit each, two of them bound a side of width w: the axis scalar moves by
    <= 1 / (w - 1) units^-1), an inexact location coordinate is rounded (1/2 unit), knots of the new avar
    map are rounded (1/2 on the output, 1/2 * slope on the input).  When the requested limits are not on
    the F2DOT14 grid (fonts without avar only) the instancer quantises them (e1, e2 <= 1/2 unit): a point
    at new-normalised y corresponds to old-normalised v' = d' + y (M' - d') instead of v = d + y (M - d)
    on one side of the old default (|v' - v| <= 1/2), and across the old default the renormalisation
    divides user-space distances: v' - v = e2 - (df - u)/dPos * (dPos e2 - dNeg e1)/total with
    (df - u) <= default * dPos and default <= total/dPos, i.e. |v' - v| <= 1/2 (2 + dNeg/dPos); TLC grants
    1/2 (3 + max(dNeg/dPos, dPos/dNeg)) units (LimErrHalf).  A product of axis scalars in [0, 1] moves by at
    most the sum of the moves of its factors, and a delta enters with its absolute value;
  * fixed point: values in 1/1024 unit; one unit per multiplication (rounding towards zero), 1/2 unit per
    inferred (IUP) delta that the harness rounded to that grid;
  * HarfBuzz's advances are integers: 1/2 more on each side.

Python only drives the code and marshals values; every accept/reject verdict on values is computed
by TLC.  (A crash of the real function on an in-domain input and a float output that is not within
1e-9 of a lattice rational are reported directly.)"""
import copy
import io
import json
import os
import random
import time
from fractions import Fraction as F

from . import common
from .common import MachineryError
from .c09 import rat, rats, Unrecoverable, TooBig, TAGS, _Axis

LEVEL = "model_checking"

DFV1 = "FeatureVars:applied-record-without-remaining-conditions"


# --------------------------------------------------------------------------------------
# (M)
# --------------------------------------------------------------------------------------
MC_QUICK = [("one", "MC_Instancer"), ("one2", "MC_Instancer_one2"), ("two", "MC_Instancer_two"),
            ("avar", "MC_Instancer_avar"), ("fv", "MC_Instancer_fv")]
MC_THOROUGH = [("one", "MC_Instancer_thorough"), ("one2", "MC_Instancer_one2_thorough"), ("two", "MC_Instancer_two_thorough"),
               ("two", "MC_Instancer_two2_thorough"), ("avar", "MC_Instancer_avar_thorough"), ("fv", "MC_Instancer_fv_thorough")]
# operational steps that the (M) runs must have exercised (non-vacuity), per family
COV_WANT = {
    "one": {"pin", "drop", "range", "moved-default", "default-crosses-old-default", "asymmetric-axis", "split", "vanish",
            "default-fold", "round-delta", "round-base", "still-variable"},
    "one2": {"merge", "split", "default-fold", "round-delta"},
    "two": {"pin", "range", "moved-default", "split", "default-fold", "still-variable"},
    "avar": {"avar-knot-kept", "avar-knot-dropped", "moved-default", "default-fold"},
    "fv": {"fv-applied", "fv-universal", "fv-catchall", "fv-record-removed", "fv-condition-renormalised"},
}
MC_D = {"MC_Instancer": 4, "MC_Instancer_one2": 2, "MC_Instancer_two": 2, "MC_Instancer_avar": 4, "MC_Instancer_fv": 2,
        "MC_Instancer_thorough": 4, "MC_Instancer_one2_thorough": 2, "MC_Instancer_two_thorough": 2,
        "MC_Instancer_two2_thorough": 2, "MC_Instancer_avar_thorough": 4, "MC_Instancer_fv_thorough": 2}


def run_mc(chk, only=None):
    """run the (M) configurations concurrently; returns {family: [(case, D)]}, bad cases"""
    from concurrent.futures import ThreadPoolExecutor

    jobs = MC_QUICK if chk.tier == "quick" else MC_THOROUGH
    dev = os.environ.get("C08_DEV_MC")  # development aid only: reuse the exported cases of a previous (M) run
    if dev and os.path.exists(dev):
        with open(dev) as f:
            g, b = json.load(f)
        chk.log("DEVELOPMENT: (M) cases loaded from %s" % dev)
        return {k: [tuple(x) for x in v] for k, v in g.items()}, [tuple(x) for x in b]
    if only:
        jobs = [j for j in jobs if j[0] in only]
    workers = 4

    def one(job):
        k, (fam, cfg) = job
        time.sleep(0.4 * k)  # chk.tlc numbers its scratch directories at entry
        return chk.tlc("MC_Instancer", cfg=cfg, label=cfg, timeout=3000 if chk.tier == "quick" else 9000, workers=workers, heap="3g")

    with ThreadPoolExecutor(len(jobs)) as ex:
        res = list(ex.map(one, enumerate(jobs)))
    gen = {}
    bad = []
    cov = {}
    for (fam, cfg), r in zip(jobs, res):
        D = MC_D[cfg]
        cases = []
        for p in r.prints.get("GEN", []):
            c = json.loads(p[0])
            c["avar_knots"] = json.loads(p[1])
            cases.append(c)
        if not cases or len(cases) * 2 != r.distinct:
            raise MachineryError("%s: %d exported cases for %d states" % (cfg, len(cases), r.distinct))
        gen.setdefault(fam, []).extend((c, D) for c in cases)
        for p in r.prints.get("BAD", []):
            if p[0] != DFV1:
                raise MachineryError("%s: the specification's own instancing violates %s on %s" % (cfg, p[0], p[1][:300]))
            bad.append((json.loads(p[1]), D))
        seen = cov.setdefault(fam, set())
        for p in r.prints.get("COV", []):
            seen.update(p[0])
        chk.log("%s: %d cases, %d D-FV1 counterexamples, %.0fs" % (cfg, len(cases), len(r.prints.get("BAD", [])), r.wall))
    for fam, seen in cov.items():
        missing = COV_WANT[fam] - seen
        if missing:
            raise MachineryError("(M) family %s never exercised: %s" % (fam, sorted(missing)))
    chk.notes["mc_steps_exercised"] = {f: sorted(s) for f, s in cov.items()}
    chk.notes["mc_cases"] = {f: len(v) for f, v in gen.items()}
    chk.notes["mc_dfv1_counterexamples"] = len(bad)
    if dev:
        with open(dev, "w") as f:
            json.dump([gen, bad], f)
    return gen, bad


# --------------------------------------------------------------------------------------
# (R) function level
# --------------------------------------------------------------------------------------
NOT = (0, 0, 0)


def _limits(case, D, include_full):
    """NormalizedAxisLimits for a lattice case; an untouched axis is left out (as a caller would)
    unless include_full"""
    from fontTools.varLib.instancer import NormalizedAxisLimits, NormalizedAxisTripleAndDistances as NA

    lims = {}
    for a, l in enumerate(case["lims"]):
        if tuple(l[:3]) == (-D, 0, D) and not include_full:
            continue
        lims[TAGS[a]] = NA(l[0] / D, l[1] / D, l[2] / D, l[3] * D, l[4] * D)
    return NormalizedAxisLimits(lims)


def _axes_of(region, D):
    return {TAGS[a]: (t[0] / D, t[1] / D, t[2] / D) for a, t in enumerate(region) if tuple(t) != NOT}


def _kept_tags(case):
    return [TAGS[a] for a, l in enumerate(case["lims"]) if l[0] != l[2]]


def _pinned_tags(case):
    return [TAGS[a] for a, l in enumerate(case["lims"]) if l[0] == l[2]]


def _region_json(axes, kept):
    return [rats(axes.get(t, NOT), limit=1 << 16) for t in kept]


class _NoRounding:
    """switch off TupleVariation.roundDeltas (to observe the instancer before rounding)"""

    def __enter__(self):
        from fontTools.ttLib.tables.TupleVariation import TupleVariation

        self.cls = TupleVariation
        self.old = TupleVariation.roundDeltas
        TupleVariation.roundDeltas = lambda self: None

    def __exit__(self, *a):
        self.cls.roundDeltas = self.old


def store_trace(case, D, fn, rounded, include_full, cmp_):
    """drive one function-level instancing of a lattice case; returns a trace dict"""
    from fontTools.ttLib.tables.TupleVariation import TupleVariation
    from fontTools.varLib import instancer, builder

    naxes = len(case["lims"])
    vars_ = [[[list(t) for t in reg], list(ds)] for reg, ds in case["vars"]]
    if fn == "ivs":
        rounded = True      # an item store holds integers: there is no un-rounded observation of it
    if fn == "gvar":
        # deltas of a 3-point glyph + 4 phantom points derived from the case's two deltas
        vars_ = [[reg, gvar_deltas(ds)] for reg, ds in vars_]
    n = len(vars_[0][1])
    tr = {"k": "store", "fn": fn, "D": D, "lims": [list(l) for l in case["lims"]], "vars": vars_, "n": n,
          "rounded": int(rounded), "cmp": int(cmp_), "leftover": 0, "full": int(include_full)}
    kept = _kept_tags(case)
    pinned = set(_pinned_tags(case))
    limits = _limits(case, D, include_full)
    try:
        if fn == "tvs":
            variations = [TupleVariation(_axes_of(reg, D), list(ds)) for reg, ds in vars_]
            if rounded:
                dflt = instancer.instantiateTupleVariationStore(variations, limits)
            else:
                with _NoRounding():
                    dflt = instancer.instantiateTupleVariationStore(variations, limits)
            dflt = list(dflt) if dflt else [0] * n
            outs = [(dict(v.axes), list(v.coordinates)) for v in variations]
        elif fn == "ivs":
            tags = TAGS[:naxes]
            regs = [_axes_of(reg, D) for reg, _ in vars_]
            rl = builder.buildVarRegionList(regs, tags)
            rows = [[ds[j] for _, ds in vars_] for j in range(n)]
            store = builder.buildVarStore(rl, [builder.buildVarData(list(range(len(regs))), rows, optimize=False)])
            fvar_axes = [_Axis(t) for t in tags]
            if rounded:
                dd = instancer.instantiateItemVariationStore(store, fvar_axes, limits)
            else:
                with _NoRounding():
                    dd = instancer.instantiateItemVariationStore(store, fvar_axes, limits)
            dflt = [dd[j] for j in range(n)]
            if len(store.VarData) != 1 or store.VarData[0].ItemCount != n:
                return {"k": "exc", "of": tr, "what": "instantiateItemVariationStore changed the VarData / item count"}
            vd = store.VarData[0]
            regions = store.VarRegionList.Region
            if any(len(r.VarRegionAxis) != len(kept) for r in regions):
                tr["leftover"] = 1
            outs = []
            for c, ri in enumerate(vd.VarRegionIndex):
                axes = {t: (ax.StartCoord, ax.PeakCoord, ax.EndCoord) for t, ax in zip(kept, regions[ri].VarRegionAxis)}
                outs.append((axes, [vd.Item[j][c] for j in range(n)]))
        elif fn == "gvar":
            from . import c08_fonts

            font = c08_fonts.glyph_font(vars_, D, naxes)
            before = list(font["glyf"]._getCoordinatesAndControls("g", font["hmtx"].metrics, None)[0])
            if rounded:
                instancer.instantiateGvarGlyph(font, "g", limits, optimize=False)
            else:
                with _NoRounding():
                    instancer.instantiateGvarGlyph(font, "g", limits, optimize=False)
            g = font["glyf"]["g"]
            after = list(g.coordinates)
            # the three outline points are stored as floats until compilation (the phantom points
            # have been folded into hmtx): the six outline coordinates are the items
            dflt = []
            for (x0, y0), (x1, y1) in zip(before[:3], after[:3]):
                dflt += [x1 - x0, y1 - y0]
            tr["vars"] = [[reg, ds[:6]] for reg, ds in vars_]
            tr["n"] = n = 6
            outs = [(dict(v.axes), [c for pt in v.coordinates[:3] for c in pt]) for v in font["gvar"].variations.get("g", [])]
        else:
            raise MachineryError("unknown function " + fn)
    except MachineryError:
        raise
    except Exception as e:  # an in-domain input must not crash
        return {"k": "exc", "of": tr, "what": "%s raised %s: %s" % (fn, type(e).__name__, e)}
    try:
        tr["dflt"] = rats(dflt)
        out = []
        for axes, ds in outs:
            if any(t in pinned for t in axes):
                tr["leftover"] = 1
            out.append([_region_json(axes, kept), rats(ds)])
        tr["out"] = out
    except Unrecoverable as e:
        return {"k": "inexact", "of": tr, "what": "%s output %s is not a lattice rational" % (fn, e)}
    except TooBig:
        return {"k": "skip", "why": "value beyond 31 bits"}
    return tr


def gvar_deltas(ds):
    """(dx, dy) deltas of 3 outline points and 4 phantom points from the case's delta vector"""
    a, b = ds[0], ds[1]
    return [a, b, b, a + b, -a, 2 * b, 0, 0, a + 2 * b, 0, 0, 0, 0, 0]


def fv_trace(case, D):
    """instancer.featureVars._instantiateFeatureVariations on condition boxes of a lattice case"""
    from fontTools.ttLib.tables import otTables as ot
    from fontTools.varLib.instancer import featureVars as ifv
    from fontTools.otlLib.builder import buildLookup, buildSingleSubstSubtable

    naxes = len(case["lims"])
    tr = {"k": "fv", "D": D, "lims": [list(l) for l in case["lims"]], "fvs": case["fvs"]}
    try:
        t = ot.GSUB()
        t.Version = 0x00010001
        t.ScriptList = ot.ScriptList()
        t.ScriptList.ScriptRecord = []
        t.FeatureList = ot.FeatureList()
        fr = ot.FeatureRecord()
        fr.FeatureTag = "rvrn"
        fr.Feature = ot.Feature()
        fr.Feature.FeatureParams = None
        fr.Feature.LookupListIndex = []
        fr.Feature.LookupCount = 0
        t.FeatureList.FeatureRecord = [fr]
        t.FeatureList.FeatureCount = 1
        t.LookupList = ot.LookupList()
        t.LookupList.Lookup = [buildLookup([buildSingleSubstSubtable({"a": "a.%d" % q})]) for q in range(len(case["fvs"]))]
        t.LookupList.LookupCount = len(t.LookupList.Lookup)
        fv = t.FeatureVariations = ot.FeatureVariations()
        fv.Version = 0x00010000
        fv.FeatureVariationRecord = []
        for q, box in enumerate(case["fvs"]):
            rec = ot.FeatureVariationRecord()
            rec.ConditionSet = ot.ConditionSet()
            rec.ConditionSet.ConditionTable = []
            for a, rng_ in enumerate(box):
                if len(rng_):
                    c = ot.ConditionTable()
                    c.Format = 1
                    c.AxisIndex = a
                    c.FilterRangeMinValue = rng_[0] / D
                    c.FilterRangeMaxValue = rng_[1] / D
                    rec.ConditionSet.ConditionTable.append(c)
            rec.ConditionSet.ConditionCount = len(rec.ConditionSet.ConditionTable)
            if not rec.ConditionSet.ConditionTable and q % 2:
                rec.ConditionSet = None     # both encodings of "no condition"
            rec.FeatureTableSubstitution = ot.FeatureTableSubstitution()
            rec.FeatureTableSubstitution.Version = 0x00010000
            sr = ot.FeatureTableSubstitutionRecord()
            sr.FeatureIndex = 0
            sr.Feature = ot.Feature()
            sr.Feature.FeatureParams = None
            sr.Feature.LookupListIndex = [q]
            sr.Feature.LookupCount = 1
            rec.FeatureTableSubstitution.SubstitutionRecord = [sr]
            rec.FeatureTableSubstitution.SubstitutionCount = 1
            fv.FeatureVariationRecord.append(rec)
        fv.FeatureVariationCount = len(fv.FeatureVariationRecord)
        limits = _limits(case, D, False)
        ifv._instantiateFeatureVariations(t, [_Axis(TAGS[a]) for a in range(naxes)], limits)
        kept = _kept_tags(case)

        def sub_of(feature):
            ll = list(feature.LookupListIndex)
            if len(ll) > 1:
                raise MachineryError("unexpected lookup list %r" % ll)
            return ll[0] + 1 if ll else 0

        out = []
        fvt = getattr(t, "FeatureVariations", None)
        for rec in (fvt.FeatureVariationRecord if fvt is not None else []):
            box = [[] for _ in kept]
            for c in (rec.ConditionSet.ConditionTable if rec.ConditionSet is not None else []):
                if not (0 <= c.AxisIndex < len(kept)) or box[c.AxisIndex]:
                    return {"k": "exc", "of": tr, "what": "condition with axis index %d after instancing (%d axes left)" % (c.AxisIndex, len(kept))}
                box[c.AxisIndex] = [rat(c.FilterRangeMinValue), rat(c.FilterRangeMaxValue)]
            subs = rec.FeatureTableSubstitution.SubstitutionRecord
            out.append({"box": box, "sub": sub_of(subs[0].Feature)})
        tr["out"] = out
        tr["defsub"] = sub_of(t.FeatureList.FeatureRecord[0].Feature)
    except MachineryError:
        raise
    except Unrecoverable as e:
        return {"k": "inexact", "of": tr, "what": "condition range %s is not a lattice rational" % e}
    except Exception as e:
        return {"k": "exc", "of": tr, "what": "_instantiateFeatureVariations raised %s: %s" % (type(e).__name__, e)}
    return tr


def _store_work(task):
    out = []
    for case, D, fn, rounded, full, cmp_ in task:
        if fn == "fv":
            out.append(fv_trace(case, D))
        else:
            out.append(store_trace(case, D, fn, rounded, full, cmp_))
    return out


def chunks(lst, n):
    return [lst[i:i + n] for i in range(0, len(lst), n)]


# --------------------------------------------------------------------------------------
# driver
# --------------------------------------------------------------------------------------
def describe(t):
    d = {}
    for k, v in t.items():
        s = json.dumps(v, default=repr)
        d[k] = v if len(s) <= 400 else s[:400] + "..."
    return d


def _case_key(case):
    return json.dumps([case["vars"], case["lims"], case["map"], case["fvs"]], sort_keys=True)


def store_tasks(chk, gen, bad):
    """function-level replays of the TLC-generated cases"""
    rng = random.Random("C08-RS-%d" % chk.seed)     # one generator per part: the parts draw independently
    quick = chk.tier == "quick"
    tasks = []
    for fam in ("one", "one2", "two"):
        for i, (case, D) in enumerate(gen.get(fam, [])):
            full = bool(i % 2)
            # quick: every case through the tuple store before rounding (exact); a seeded share of them
            # also after rounding, through the item store and through instantiateGvarGlyph
            if quick or rng.random() < 0.5:      # thorough: half of its 30 times larger case set
                tasks.append((case, D, "tvs", False, full, 1))
            if rng.random() < (0.3 if quick else 0.25):
                tasks.append((case, D, "tvs", True, full, 0))
            if rng.random() < (0.15 if quick else 0.12):
                tasks.append((case, D, "ivs", True, full, 0))
            if rng.random() < (0.15 if quick else 0.12):
                tasks.append((case, D, "gvar", rng.random() < 0.5, full, 0))
    badkeys = {_case_key(c) for c, _ in bad}
    for case, D in gen.get("fv", []):
        isbad = _case_key(case) in badkeys
        if rng.random() < ((0.5 if isbad else 0.2) if quick else (0.4 if isbad else 0.15)):
            tasks.append((case, D, "fv", False, False, 0))
    return tasks


def judge_and_report(chk, traces, label=""):
    direct = [t for t in traces if t["k"] in ("exc", "inexact")]
    skips = [t for t in traces if t["k"] == "skip"]
    real = [t for t in traces if t["k"] not in ("exc", "inexact", "skip")]
    for t in skips:
        chk.skip(t["why"])
    for t in direct:
        of = t["of"]
        key = "%s:%s" % (of.get("fn", of.get("k", "?")), "exception" if t["k"] == "exc" else "float-recovery")
        chk.reject(key, t["what"], of)
    chk.count(len(real))
    kinds = chk.notes.setdefault("cases_per_kind", {})
    for t in real:
        kk = t["k"] + (":" + t["fn"] if t["k"] == "store" else "") + (":" + t["src_kind"] if "src_kind" in t else "")
        kinds[kk] = kinds.get(kk, 0) + 1
    from concurrent.futures import ThreadPoolExecutor

    # whole-font traces are large and slow to judge, function-level traces small and fast: separate
    # TLC runs (two at a time; initial states are parsed on one thread each)
    small = [t for t in real if t["k"] != "font"]
    big = [t for t in real if t["k"] == "font"]
    jobs = []
    if len(small) > 3000:
        jobs += [(small[0::2], 40000), (small[1::2], 40000)]
    elif small:
        jobs.append((small, 40000))
    if len(big) > 400:
        jobs += [(big[0::2], 1500), (big[1::2], 1500)]
    elif big:
        jobs.append((big, 1500))

    def part(job):
        k, (traces_, chunk) = job
        time.sleep(0.5 * k)
        return chk.judge("Trace_C08", traces_, chunk=chunk, timeout=7200, workers=(16 if len(jobs) == 1 else 8 if len(jobs) == 2 else 5), heap="6g")

    with ThreadPoolExecutor(max(1, min(4, len(jobs)))) as ex:
        rej = [x for p in ex.map(part, enumerate(jobs)) for x in p]
    notes = chk.notes.setdefault("refactoring_notes", {})
    rejected = []
    for t, clause in rej:
        c = clause[0] if clause else "?"
        if c.startswith("skip:"):
            chk.skip(c[5:] + " (" + t["k"] + ")")
        elif c.startswith("note:"):
            notes[c] = notes.get(c, 0) + 1
            chk.traces_validated += 1
        elif c.startswith("malformed:"):
            raise MachineryError("trace rejected as malformed (%s): %s" % (c, json.dumps(describe(t))[:900]))
        else:
            rejected.append((t, c))
    return rejected


def report(chk, rejected):
    for t, c in rejected:
        if t["k"] == "font":
            what = "%s: %s limits %s" % (c, t.get("src"), t.get("limits_user"))
            rep = {"k": "font", "src": t.get("src"), "src_kind": t.get("src_kind"), "limits_user": t.get("limits_user"), "re": t.get("re")}
        else:
            what = "%s on %s" % (c, json.dumps(describe(t), default=repr)[:700])
            rep = t
        chk.reject(c, what, rep)


def _dev_share(items):
    """development aid only (C08_DEV_SHARE=0.1): keep a fixed pseudo-random subset of the tasks of a
    tier, so that a mutant caught on the subset is a fortiori caught by the tier"""
    share = float(os.environ.get("C08_DEV_SHARE") or 1)
    if share >= 1:
        return items
    return [x for i, x in enumerate(items) if ((i * 2654435761) % 1000003) / 1000003.0 < share]


def run(chk):
    import multiprocessing as mp

    # development aids (never set by ./check or the registered commands): C08_PARTS selects parts,
    # C08_DEV_MC re-uses the exported (M) cases of an earlier run, C08_DEV_SHARE judges a fixed subset
    parts = set((os.environ.get("C08_PARTS") or "M,RS,RF,V").split(","))
    dev = {k: os.environ[k] for k in ("C08_PARTS", "C08_DEV_MC", "C08_DEV_SHARE") if os.environ.get(k)}
    if dev:
        chk.notes["DEVELOPMENT_RUN_not_evidence"] = dev
        chk.log("DEVELOPMENT RUN (partial): %s" % dev)
    chk.rule = ("one case = one instancing by the real code: a TLC-generated (delta sets, limits) lattice case through "
                "instantiateTupleVariationStore / instantiateItemVariationStore / instantiateGvarGlyph / featureVars, a realised "
                "model font or a corpus font x limit specification through instantiateVariableFont, judged by TLC at every "
                "lattice point / chosen location of the new space; non-trivial = the limits restrict an axis on which some "
                "delta set has a tent (function level), or the instance differs from the original font (font level)")
    t0 = time.time()
    ctx = mp.get_context("fork")
    traces = []
    with ctx.Pool(12) as pool:
        pending = None
        if "V" in parts:
            from . import c08_corpus

            vt = _dev_share(c08_corpus.tasks(chk))
            pending = pool.map_async(c08_corpus.work, vt, 1)
        gen, bad = run_mc(chk) if "M" in parts else ({}, [])
        chk.log("(M) done in %.0fs" % (time.time() - t0))
        if "RS" in parts:
            st = _dev_share(store_tasks(chk, gen, bad))
            res = pool.map(_store_work, chunks(st, 200), 1)
            traces += [t for r in res for t in r]
            chk.log("(R) function level: %d traces (%.0fs)" % (len(traces), time.time() - t0))
        if "RF" in parts:
            from . import c08_corpus

            ft = _dev_share(c08_corpus.model_tasks(chk, gen, bad))
            res = pool.map(c08_corpus.work, ft, 1)
            n0 = len(traces)
            traces += [t for r in res for t in r]
            chk.log("(R) model fonts: %d traces (%.0fs)" % (len(traces) - n0, time.time() - t0))
        if pending is not None:
            n0 = len(traces)
            traces += [t for r in pending.get() for t in r]
            chk.log("(V) corpus: %d traces (%.0fs)" % (len(traces) - n0, time.time() - t0))
    for t in traces:
        nk = nontrivial_key(t)
        if nk is not None:
            chk.nontriv(nk)
    seen = set()
    for t in traces:
        kk = t["k"] + ":" + str(t.get("fn", t.get("src_kind", "")))
        if kk not in seen and nontrivial_key(t) is not None:
            seen.add(kk)
            chk.sample(describe(t), limit=10)
    rejected = judge_and_report(chk, traces)
    # the (M) counterexamples of the named deviation D-FV1 against the code's behaviour
    badkeys = {_case_key(c) for c, _ in bad}
    hit = {_case_key({"vars": [], "lims": t["lims"], "map": 1, "fvs": t["fvs"]}) for t, c in rejected if t["k"] == "fv" and c == DFV1}
    replayed = {_case_key({"vars": [], "lims": t["lims"], "map": 1, "fvs": t["fvs"]}) for t in traces if t["k"] == "fv"}
    chk.notes["dfv1_counterexamples_replayed"] = len(badkeys & replayed)
    chk.notes["dfv1_counterexamples_reproduced_by_the_code"] = len(badkeys & hit)
    if badkeys & replayed and not badkeys & hit:
        chk.log("NOTE: no D-FV1 counterexample of the specification is reproduced by the code any more "
                "(featureVars.py fixed?): FvLoop(ideal = FALSE) in specs/Instancer.tla no longer transcribes the code")
    report(chk, rejected)
    chk.exhaustive = False
    chk.assumptions += ASSUMPTIONS


def nontrivial_key(t):
    k = t["k"]
    if k == "store":
        touched = any(tuple(l[:3]) != (-t["D"], 0, t["D"]) and any(tuple(reg[a]) != NOT for reg, _ in t["vars"])
                      for a, l in enumerate(t["lims"]))
        return ("store", t["fn"], t["rounded"], common.digest([t["vars"], t["lims"]])) if touched else None
    if k == "fv":
        return ("fv", common.digest([t["fvs"], t["lims"]]))
    if k == "font":
        return ("font", t.get("src"), common.digest(t.get("limits_user"))) if t.get("changed") else None
    return None


ASSUMPTIONS = [
    "float outputs of the function-level runs are recovered as the nearest rational with denominator <= 2^16 (exact: lattice inputs "
    "bound the true denominators); a residual >= 1e-9 is reported",
    "whole fonts are judged on the SAVED instance with F2DOT14 coordinates (deviation D-F14): values in units of 1/1024, one unit of "
    "slack per fixed-point multiplication, Lipschitz slack for half-unit roundings of region coordinates, avar knots and locations",
    "inferred (IUP) gvar deltas of both fonts are made explicit by fontTools' iup_delta (validated against IUP.tla by C09) and "
    "rounded to 1/1024 (half a unit of slack each)",
    "with optimize=True the budget per 'gvar' delta set is 1 (1/2 rounding + 1/2 IUP tolerance, D-IUP); 1/2 otherwise",
    "tents outside the domain of module Tent (peak 0 handled as 'no tent'; start < 0 < end, interior one-sided jumps) are skipped",
]


def replay(chk, rep):
    t = rep["replay"]
    chk.rule = "replay of one recorded case"
    fresh = []
    if t.get("k") == "store":
        case = {"vars": [[reg, ds[:2]] if t["fn"] != "gvar" else [reg, [ds[0], ds[1]]] for reg, ds in t["vars"]], "lims": t["lims"]}
        fresh = [store_trace(case, t["D"], t["fn"], bool(t["rounded"]), bool(t.get("full")), t.get("cmp", 0))]
    elif t.get("k") == "fv":
        fresh = [fv_trace({"lims": t["lims"], "fvs": t["fvs"]}, t["D"])]
    elif t.get("k") == "font":
        from . import c08_corpus

        fresh = c08_corpus.replay_traces(t)
    chk.log("re-running the recorded input against the current tree (%d case(s))" % len(fresh))
    rejected = judge_and_report(chk, fresh)
    for tr, c in rejected:
        chk.log("rejected:", c, json.dumps(describe(tr), default=repr)[:600])
    report(chk, rejected)


def selftest(chk):
    """vacuity check of the binding: recordings corrupted in one field must be rejected by TLC,
    the genuine ones accepted"""
    from . import c08_corpus

    chk.rule = "self-test: corrupted recordings must be rejected by TLC"
    case = {"vars": [[[[0, 2, 4]], [3, -4]], [[[-4, -4, 0]], [-2, 1]]], "lims": [[-2, 1, 3, 1, 2]], "map": 1, "fvs": [], "avar_knots": []}
    case2 = {"vars": [], "lims": [[-2, 0, 2, 1, 1], [-1, -1, -1, 1, 1]], "map": 1, "fvs": [[[1, 2], []], [[], [0, 2]]], "avar_knots": []}
    good = [store_trace(case, 4, "tvs", False, False, 1), store_trace(case, 4, "tvs", True, False, 0),
            store_trace(case, 4, "ivs", True, False, 0), store_trace(case, 4, "gvar", True, False, 0),
            fv_trace({"lims": [[-1, 1, 2, 1, 1], [-2, -2, -2, 1, 1]], "fvs": [[[1, 2], []], [[], [1, 2]]]}, 2),
            c08_corpus.model_trace(case, 4, 1, 1, False), c08_corpus.model_trace(case, 4, 2, 1, True),
            c08_corpus.model_trace(case2, 2, 0, 1, False)]
    for t in good:
        if t["k"] in ("exc", "inexact", "skip"):
            raise MachineryError("self-test: could not record a genuine case: %s" % describe(t))
    bad = []
    b = copy.deepcopy(good[0]); b["out"][0][1][0] = [b["out"][0][1][0][0] + b["out"][0][1][0][1], b["out"][0][1][0][1]]; bad.append(("PreservedExact", b))
    b = copy.deepcopy(good[1]); b["out"][0][1][0] = [b["out"][0][1][0][0] + 2 * b["out"][0][1][0][1], b["out"][0][1][0][1]]; bad.append(("Preserved:beyond-rounding-budget", b))
    b = copy.deepcopy(good[1]); b["dflt"][0] = [2 * b["dflt"][0][0] + 3 * b["dflt"][0][1], 2 * b["dflt"][0][1]]; bad.append(("Preserved:beyond-rounding-budget", b))
    b = copy.deepcopy(good[2]); b["leftover"] = 1; bad.append(("PinnedAxisLeft", b))
    b = copy.deepcopy(good[4]); b["out"] = b["out"][1:]; bad.append(("FeatureVars", b))
    b = copy.deepcopy(good[5]); b["inst"]["axes"][0][1] = [b["inst"]["axes"][0][1][0] + 1, b["inst"]["axes"][0][1][1]]; bad.append(("AxesCorrect:min-default-max", b))
    b = copy.deepcopy(good[5]); b["inst"]["items"][0]["b"] += 3 * 1024; bad.append(("Preserved", b))
    b = copy.deepcopy(good[5]); b["inst"]["instances"] = b["inst"]["instances"][1:]; bad.append(("AxesCorrect:named-instances", b))
    b = copy.deepcopy(good[5]); b["inst"]["stat"] = b["inst"]["stat"][:-1]; bad.append(("STAT:axis-values", b))
    b = copy.deepcopy(good[7]); b["inst"]["tables"].append("gvar"); bad.append(("Static:variation-table-left", b)) if not b["inst"]["axes"] else None
    b = copy.deepcopy(good[7]); b["inst"]["fv"]["recs"] = []; bad.append(("FeatureVars", b))
    rejected = judge_and_report(chk, good + [b for _, b in bad])
    got = {id(t): c for t, c in rejected}
    for t in good:
        if id(t) in got:
            raise MachineryError("self-test: a genuine recording was rejected: %s %s" % (got[id(t)], json.dumps(describe(t))[:500]))
    missed = [(want, got.get(id(b))) for want, b in bad if not (got.get(id(b)) or "").startswith(want)]
    if missed:
        raise MachineryError("self-test: corrupted recordings not rejected as expected (wanted, got): %s" % missed)
    chk.notes["selftest"] = "%d corrupted recordings rejected (%s); %d genuine accepted" % (len(bad), sorted({w for w, _ in bad}), len(good))
    chk.log(chk.notes["selftest"])
