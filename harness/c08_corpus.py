"""C08: whole fonts through the real instantiateVariableFont -- realised model fonts (R) and the
variable fonts of the corpus (V).  Produces "font" traces for specs/Trace_C08.tla."""
import io
import json
import logging
import os
import random
from fractions import Fraction as F

from . import common, fonts as corpus_fonts
from . import c08_fonts, c08_project
from .c08_project import OutOfDomain, rat
from .common import MachineryError

LATTICE = [F(k, 4) for k in range(-4, 5)]


# --------------------------------------------------------------------------------------
# instancing one font under one limit specification
# --------------------------------------------------------------------------------------
def _load(data):
    from fontTools.ttLib import TTFont

    return TTFont(io.BytesIO(data))


def font_trace(data, src, src_kind, limits_user, lims_full, locs, optimize, seed, re_, max_glyphs=10, max_points=6):
    """instantiate `data` (font bytes) with `limits_user`, save, reload, project both fonts"""
    from fontTools.varLib import instancer

    rng = random.Random(seed)
    logging.disable(logging.CRITICAL)
    try:
        font = _load(data)
        if "fvar" not in font:
            return {"k": "skip", "why": "not a variable font"}
        if "name" not in font:
            return {"k": "skip", "why": "font lacks the name table the instancer needs"}
        if "VARC" in font:
            return {"k": "skip", "why": "VARC font (instancing across VarComponent axes is not supported)"}
        tags = [a.axisTag for a in font["fvar"].axes]
        interner = common.Interner()
        tr = {"k": "font", "src": src, "src_kind": src_kind, "limits_user": json.dumps(_show(limits_user), sort_keys=True), "re": json.dumps(re_),
              "lims": [[rat(v) for v in l] for l in lims_full], "locs": [[rat(v) for v in loc] for loc in locs]}
        try:
            fontp = _load(data)      # a private copy for projecting (the instancer gets an untouched font)
            keys = c08_project.choose_items(fontp, rng, max_glyphs=max_glyphs, max_points=max_points)
            orig = c08_project.project(fontp, keys, tags, interner)
        except OutOfDomain as e:
            return {"k": "skip", "why": "original: %s" % e}
        if c08_project.has_gpos_feature_variations(font):
            return {"k": "skip", "why": "GPOS feature variations (lookup identity not modelled)"}
        try:
            inst = instancer.instantiateVariableFont(font, dict(limits_user), inplace=False, optimize=optimize)
            buf = io.BytesIO()
            inst.save(buf)
            inst = _load(buf.getvalue())
        except NotImplementedError as e:
            return {"k": "skip", "why": "instancer: NotImplementedError %s" % str(e)[:60]}
        except Exception as e:
            return {"k": "exc", "of": {"k": "font", "fn": "font", "src": src, "limits_user": json.dumps(_show(limits_user), sort_keys=True), "re": json.dumps(re_)},
                    "what": "instantiateVariableFont raised %s: %s (%s, limits %s)" % (type(e).__name__, str(e)[:200], src, _show(limits_user))}
        try:
            proj = c08_project.project(inst, keys, tags, interner)
        except OutOfDomain as e:
            return {"k": "skip", "why": "instance: %s" % e}
        # IUP optimisation weight (D-IUP) applies to the instance's gvar items only
        for it, key in zip(proj["items"], [i["key"] for i in proj["items"]]):
            it["o"] = 1 if (optimize and key and key[0] in ("gv", "adv")) else 0
        for it in orig["items"]:
            it["o"] = 0
        if len(orig["items"]) == len(proj["items"]):
            # CFF2: the rounded quantities of the instance are the operands that were blended in the ORIGINAL
            for a, b in zip(orig["items"], proj["items"]):
                if a["key"] and a["key"][0] == "cff2":
                    b["w"] = a["w"]
                    b["nb"] = a["nb"]
        if len(orig["items"]) != len(proj["items"]):
            return {"k": "skip", "why": "instance: item count differs"}
        tr["orig"] = orig
        tr["inst"] = proj
        tr["hbsub"], tr["hbadv"] = hb_observe(data, buf.getvalue(), font, orig, lims_full, locs, tags, src_kind == "model")
        restricted = [a for a, l in enumerate(lims_full) if tuple(l) != tuple(F(*v) for v in orig["axes"][a])]
        tr["changed"] = int(any(reg[a][1] != 0 for reg in orig["regions"] for a in restricted) or bool(orig["fv"]["recs"]) and bool(restricted))
        tr["nitems"] = len(orig["items"])
        return tr
    finally:
        logging.disable(logging.NOTSET)


def hb_observe(data, inst_data, font, orig, lims_full, locs, tags, hvar_consistent):
    """HarfBuzz as a second observer (fields only; TLC judges them): at every location, with the SAME
    user coordinates on both fonts, (a) what each of a few glyphs is substituted by under the default
    features (feature variations), (b) the horizontal advance of the glyphs that have an advance item.
    Advances are observed only where both fonts take them from the same source (gvar phantom points
    without HVAR, HVAR + hmtx of a CFF2 font) or where HVAR repeats gvar by construction (model fonts):
    HarfBuzz reads HVAR when there is one, while the instancer derives the new hmtx from gvar."""
    try:
        from . import hb as hbmod
    except Exception:
        return [], []
    order = font.getGlyphOrder()
    gids = list(range(min(len(order), 10)))
    adv_items = []
    eligible = ("HVAR" not in font or hvar_consistent) if "glyf" in font else ("HVAR" in font)
    for i, it in enumerate(orig["items"]):
        key = it["key"]
        if eligible and key and ((key[0] == "adv" and "glyf" in font) or (key[0] == "hvar" and "glyf" not in font)):
            if len(adv_items) < 6:
                adv_items.append((i + 1, font.getGlyphID(key[1])))
    kept = [a for a, l in enumerate(lims_full) if l[0] != l[2]]
    hbsub = []
    adv_o = [[] for _ in adv_items]
    adv_i = [[] for _ in adv_items]
    try:
        for loc in locs:
            so = hbmod.Shaper(data, {tags[a]: float(loc[a]) for a in range(len(tags))})
            si = hbmod.Shaper(inst_data, {tags[a]: float(loc[a]) for a in kept})
            hbsub.append([[so.shape(glyphs=[g])[0][0] for g in gids], [si.shape(glyphs=[g])[0][0] for g in gids]])
            for k, (_, gid) in enumerate(adv_items):
                adv_o[k].append(so.h_advance(gid))
                adv_i[k].append(si.h_advance(gid))
    except Exception:
        return [], []
    return hbsub, [[idx, adv_o[k], adv_i[k]] for k, (idx, _) in enumerate(adv_items)]


def _show(limits_user):
    def s(v):
        if v is None:
            return None
        if isinstance(v, tuple):
            return [s(x) for x in v]
        return float(v) if F(v).denominator != 1 else int(v)

    return {k: s(v) for k, v in limits_user.items()}


# --------------------------------------------------------------------------------------
# (R) model fonts
# --------------------------------------------------------------------------------------
def model_trace(case, D, variant, seed, optimize):
    naxes = len(case["lims"])
    try:
        font, data = c08_fonts.model_font(case, D, variant)
    except Exception as e:
        raise MachineryError("model font could not be built: %s: %s (%s)" % (type(e).__name__, e, json.dumps(case)[:300]))
    limits_user = {}
    lims_full = []
    for a, l in enumerate(case["lims"]):
        tag = c08_fonts.TAGS[a]
        lo, df, hi = (F(c08_fonts.user(l[i], l, a)) for i in range(3))
        lims_full.append((lo, df, hi))
        if tuple(l[:3]) == (-D, 0, D):
            if (variant >> 2) & 1:
                limits_user[tag] = (float(lo), float(hi))
            continue
        if l[0] == l[2]:
            limits_user[tag] = None if (l[0] == 0 and variant & 1) else float(lo)
        elif l[1] == 0 and l[0] <= 0 <= l[2] and not variant & 2:
            limits_user[tag] = (float(lo), float(hi))
        else:
            limits_user[tag] = (float(lo), float(df), float(hi))
    if not limits_user:
        return {"k": "skip", "why": "model case without any restriction"}
    per_axis = []
    for a, l in enumerate(case["lims"]):
        step = 1 if naxes > 1 and D > 2 else 1
        ks = [F(k, 2) for k in range(2 * l[0], 2 * l[2] + 1)] if naxes == 1 else [F(k) for k in range(l[0], l[2] + 1, step)]
        per_axis.append([F(c08_fonts.DEF[a]) + c08_fonts.STEP * (k * l[3] if k < 0 else k * l[4]) for k in ks])
    locs = [[x] for x in per_axis[0]] if naxes == 1 else [[x, y] for x in per_axis[0] for y in per_axis[1]]
    if len(locs) > 8:
        # the new default, the corners and a seeded choice of the other lattice points
        rng = random.Random(seed)
        must = [[l[i] for l in lims_full] for i in (1, 0, 2)]
        rest = [l for l in locs if l not in must]
        locs = must + rng.sample(rest, 8 - len(must))
    re_ = {"kind": "model", "case": {k: case[k] for k in ("vars", "lims", "map", "fvs", "avar_knots")}, "D": D, "variant": variant,
           "seed": seed, "optimize": optimize}
    return font_trace(data, "model:%s" % common.digest([case["vars"], case["lims"], case["map"], case["fvs"], variant]), "model",
                      limits_user, lims_full, locs, optimize, seed, re_, max_glyphs=20, max_points=12)


def model_tasks(chk, gen, bad):
    rng = random.Random("C08-RF-%d" % chk.seed)
    quick = chk.tier == "quick"
    share = {"one": 0.015, "one2": 0.04, "two": 0.02, "avar": 0.03, "fv": 0.005} if quick else \
            {"one": 0.015, "one2": 0.08, "two": 0.008, "avar": 0.02, "fv": 0.01}
    out = []
    for fam, cases in sorted(gen.items()):
        for case, D in cases:
            if rng.random() < share[fam]:
                out.append(("model", case, D, rng.randrange(8), rng.getrandbits(32), rng.random() < 0.5))
    return [("batch", c) for c in _chunks(out, 12)]


# --------------------------------------------------------------------------------------
# (V) corpus fonts
# --------------------------------------------------------------------------------------
def variable_corpus():
    from .c09 import variable_corpus as vc

    return vc()


def font_bytes(path):
    if path.endswith(".ttx"):
        return corpus_fonts.compile_ttx(path)
    with open(path, "rb") as f:
        return f.read()


def _representable(u):
    return (F(u) * 65536).denominator == 1


def axis_candidates(axis, knots):
    """user coordinates (Fractions) of this axis whose normalised coordinate before AND after the
    segment map is an exact F2DOT14 value: lattice points without avar, the map's knots with it"""
    lo, df, hi = axis
    xs = [F(k[0], 16384) for k in knots] if knots else LATTICE
    out = []
    for x in sorted(set(xs) | {F(-1), F(0), F(1)}):
        if (x < 0 and df == lo) or (x > 0 and df == hi):
            continue
        u = df + x * (hi - df) if x >= 0 else df + x * (df - lo)
        if _representable(u) and u not in out:
            out.append(u)
    return sorted(out)


def limit_specs(axes, tags, knots, rng, n):
    """seeded limit specifications: [(limits_user, lims_full, kind)]"""
    cands = [axis_candidates(ax, knots[a]) for a, ax in enumerate(axes)]
    specs = []

    def one_axis(a, kind):
        lo, df, hi = axes[a]
        c = cands[a]
        below = [u for u in c if u < df]
        above = [u for u in c if u > df]
        inner = [u for u in c if lo < u < hi and u != df]
        if kind == "pin-min":
            return lo if lo < df else None, (lo, lo, lo)
        if kind == "pin-max":
            return hi if hi > df else None, (hi, hi, hi)
        if kind == "pin-default":
            return "none", (df, df, df)
        if kind == "pin-interior" and inner:
            u = rng.choice(inner)
            return u, (u, u, u)
        if kind == "range-touching":
            if above and (not below or rng.random() < 0.5):
                u = rng.choice(above)
                return (df, u), (df, df, u)
            if below:
                u = rng.choice(below)
                return (u, df), (u, df, df)
        if kind == "range-crossing" and below and above:
            a_, b_ = rng.choice(below), rng.choice(above)
            return (a_, b_), (a_, df, b_)
        if kind == "moved-default":
            pts = sorted(rng.sample(c, 3)) if len(c) >= 3 else None
            if pts and pts[1] != df:
                return tuple(pts), tuple(pts)
            if pts:
                pts2 = [u for u in c if u != df]
                if len(pts2) >= 3:
                    pts = sorted(rng.sample(pts2, 3))
                    return tuple(pts), tuple(pts)
        if kind == "range-inside":
            side = [s for s in (below, above) if len(s) >= 2]
            if side:
                s = rng.choice(side)
                a_, b_ = sorted(rng.sample(s, 2))
                d_ = rng.choice([a_, b_])
                return (a_, d_, b_), (a_, d_, b_)
        if kind == "inexact" and hi - lo >= 4:
            # arbitrary user values (integers), not on the F2DOT14 grid
            vals = sorted(rng.sample(range(int(lo) + 1, int(hi)), 3)) if hi - lo >= 5 else None
            if vals:
                which = rng.random()
                if which < 0.4:
                    return F(vals[1]), (F(vals[1]),) * 3
                if which < 0.7 and vals[0] <= df <= vals[2]:
                    return (F(vals[0]), F(vals[2])), (F(vals[0]), df, F(vals[2]))
                return tuple(F(v) for v in vals), tuple(F(v) for v in vals)
        return None

    kinds = ["pin-min", "pin-max", "pin-default", "pin-interior", "range-touching", "range-crossing", "moved-default", "range-inside"]
    noavar = not any(knots)
    if noavar:
        kinds.append("inexact")
    naxes = len(axes)
    tries = 0
    seen = set()
    while len(specs) < n and tries < 40 * n:
        tries += 1
        style = rng.random()
        chosen = {}
        if style < 0.12:      # full instance
            for a in range(naxes):
                chosen[a] = one_axis(a, rng.choice(["pin-min", "pin-max", "pin-default", "pin-interior"]))
            kind = "full"
        elif style < 0.55 or naxes == 1:   # one axis restricted
            a = rng.randrange(naxes)
            k = kinds[(len(specs) + tries) % len(kinds)]
            chosen[a] = one_axis(a, k)
            kind = k
        else:                 # mix
            for a in rng.sample(range(naxes), rng.randint(2, naxes)):
                chosen[a] = one_axis(a, rng.choice(kinds))
            kind = "mix"
        if any(v is None or v[0] is None for v in chosen.values()):
            continue
        limits_user = {}
        lims_full = [tuple(ax) for ax in axes]
        for a, (uv, full) in chosen.items():
            limits_user[tags[a]] = None if uv == "none" else (tuple(float(x) for x in uv) if isinstance(uv, tuple) else float(uv))
            lims_full[a] = tuple(F(x) for x in full)
        key = json.dumps(_show(limits_user), sort_keys=True)
        if key in seen:
            continue
        seen.add(key)
        specs.append((limits_user, lims_full, kind))
    return specs


def locations(axes, knots, lims_full, rng, n):
    """user-space locations inside the new limits: the new default, corners, lattice points"""
    per_axis = []
    for a, (lo, df, hi) in enumerate(lims_full):
        # points whose old normalised coordinate is exact (lattice points / avar knots) ...
        c = [u for u in axis_candidates(axes[a], knots[a]) if lo <= u <= hi]
        # ... and points whose NEW normalised coordinate is dyadic (k/8 of the way to the new min / max)
        for k in range(1, 8):
            c.append(df + F(k, 8) * (hi - df))
            c.append(df - F(k, 8) * (df - lo))
        c += [lo, df, hi]
        per_axis.append(sorted(set(c)))
    locs = [[l[1] for l in lims_full], [l[0] for l in lims_full], [l[2] for l in lims_full]]
    for _ in range(4 * n):
        if len(locs) >= n:
            break
        loc = [rng.choice(c) for c in per_axis]
        if loc not in locs:
            locs.append(loc)
    out = []
    for loc in locs:
        if loc not in out:
            out.append(loc)
    return out


def corpus_traces(path, seed, nspecs, nlocs, first):
    rng = random.Random(seed)
    data = font_bytes(path)
    src = common.rel(path)
    if data is None:
        return [{"k": "skip", "why": "corpus TTX does not compile"}]
    logging.disable(logging.CRITICAL)
    try:
        font = _load(data)
        if "fvar" not in font:
            return []
        axes = [(F(a.minValue), F(a.defaultValue), F(a.maxValue)) for a in font["fvar"].axes]
        tags = [a.axisTag for a in font["fvar"].axes]
        knots = [[] for _ in axes]
        if "avar" in font:
            from fontTools.misc.fixedTools import floatToFixed as fl2fi

            seg = font["avar"].segments
            knots = [[[fl2fi(f, 14), fl2fi(t, 14)] for f, t in sorted(seg.get(t_, {}).items())] for t_ in tags]
            knots = [k if any(f != t for f, t in k) or len(k) > 3 else k for k in knots]
    except Exception as e:
        return [{"k": "skip", "why": "corpus font unreadable: %s" % type(e).__name__}]
    finally:
        logging.disable(logging.NOTSET)
    if len(axes) > 6:
        return [{"k": "skip", "why": "more than 6 axes"}]
    specs = limit_specs(axes, tags, knots, rng, first + nspecs)[first:]
    out = []
    for limits_user, lims_full, kind in specs:
        locs = locations(axes, knots, lims_full, rng, nlocs)
        optimize = rng.random() < 0.6
        s = rng.getrandbits(32)
        re_ = {"kind": "corpus", "path": src, "limits": _show(limits_user), "lims": [[rat(v) for v in l] for l in lims_full],
               "locs": [[rat(v) for v in loc] for loc in locs], "optimize": optimize, "seed": s}
        t = font_trace(data, src, "corpus", limits_user, lims_full, locs, optimize, s, re_)
        t["spec_kind"] = kind
        out.append(t)
    return out


def tasks(chk):
    rng = random.Random("C08-V-%d" % chk.seed)
    quick = chk.tier == "quick"
    paths = variable_corpus()
    per_font = 10 if quick else 48
    step = 5 if quick else 8
    out = []
    for p in paths:
        seed = rng.getrandbits(32)
        for first in range(0, per_font, step):
            out.append(("corpus", p, seed, step, 7 if quick else 10, first))
    chk.notes["variable_corpus_fonts"] = len(paths)
    return out


def work(task):
    kind = task[0]
    if kind == "corpus":
        _, path, seed, nspecs, nlocs, first = task
        return corpus_traces(path, seed, nspecs, nlocs, first)
    if kind == "batch":
        out = []
        for _, case, D, variant, seed, optimize in task[1]:
            out.append(model_trace(case, D, variant, seed, optimize))
        return out
    raise MachineryError("unknown task " + str(kind))


def replay_traces(t):
    re_ = t.get("re") or {}
    if isinstance(re_, str):
        re_ = json.loads(re_)
    if re_.get("kind") == "model":
        return [model_trace(re_["case"], re_["D"], re_["variant"], re_["seed"], re_["optimize"])]
    if re_.get("kind") == "corpus":
        path = os.path.join(os.path.dirname(common.TESTS), re_["path"])
        data = font_bytes(path)
        lims = [tuple(F(*v) for v in l) for l in re_["lims"]]
        locs = [[F(*v) for v in loc] for loc in re_["locs"]]
        lu = {k: (None if v is None else tuple(v) if isinstance(v, list) else v) for k, v in re_["limits"].items()}
        return [font_trace(data, re_["path"], "corpus", lu, lims, locs, re_["optimize"], re_["seed"], re_)]
    return []


def _chunks(lst, n):
    return [lst[i:i + n] for i in range(0, len(lst), n)]
