"""Tiny variable fonts realised from the lattice cases that TLC generates for C08 (and the
one-glyph font used for instantiateGvarGlyph at function level).

A case is {"vars": [[region, [d1, d2]], ...], "lims": [[l1, l2, l3, dn, dp], ...], "map": m,
"fvs": [box, ...]} on the 1/D lattice (specs/MC_Instancer.tla).  The model font has
  fvar   one axis per lattice axis: default DEF[a], user coordinate of lattice point k =
         DEF[a] + STEP * (k*dn if k < 0 else k*dp); named instances on lattice points
  avar   the case's segment map on the first axis (when map # 1)
  glyf   'a' (4 points), 'a.0', 'a.1' (copies, substitution targets), 'c' (composite of 'a')
  gvar   one TupleVariation per delta set, point deltas derived from (d1, d2)
  HVAR   advances consistent with the phantom-point deltas of gvar; every other font with an
         explicit AdvWidthMap, the others with the implicit glyph-id mapping
  MVAR   xhgt / cpht / undo with deltas d1, d2, d1 - d2
  cvt/cvar  two control values with deltas d1, d2
  GDEF/GPOS pair kerning + single positioning with VariationIndex devices into GDEF's VarStore
  GSUB   feature variations from the case's condition boxes (record q substitutes a -> a.q)
  STAT   axis values on lattice points, name
"""
import io

TAGS = ["aaaa", "bbbb", "cccc"]
DEF = [400, 100, 10]
STEP = 25
NOT = (0, 0, 0)


def user(k, l, a):
    """user coordinate of lattice point k on axis a (l = the case's limit record of that axis)"""
    return DEF[a] + STEP * (k * l[3] if k < 0 else k * l[4])


def user_axis(l, a, D):
    return (user(-D, l, a), DEF[a], user(D, l, a))


def _axes_of(region, D):
    return {TAGS[a]: (t[0] / D, t[1] / D, t[2] / D) for a, t in enumerate(region) if tuple(t) != NOT}


def _base(names):
    from fontTools.fontBuilder import FontBuilder
    from fontTools.pens.ttGlyphPen import TTGlyphPen

    fb = FontBuilder(1000, isTTF=True)
    fb.setupGlyphOrder(names)
    return fb, TTGlyphPen


def glyph_font(vars_, D, naxes):
    """one glyph 'g' with three outline points; vars_ = [[region, 14 numbers]]"""
    from fontTools.ttLib.tables.TupleVariation import TupleVariation

    fb, Pen = _base([".notdef", "g"])
    fb.setupCharacterMap({0x67: "g"})
    pen = Pen(None)
    pen.moveTo((10, 20))
    pen.lineTo((210, 30))
    pen.lineTo((110, 340))
    pen.closePath()
    g = pen.glyph()
    fb.setupGlyf({".notdef": Pen(None).glyph(), "g": g})
    fb.setupHorizontalMetrics({".notdef": (500, 0), "g": (600, 10)})
    fb.setupHorizontalHeader(ascent=800, descent=-200)
    fb.setupNameTable({"familyName": "C08", "styleName": "Regular"})
    fb.setupOS2()
    fb.setupPost()
    fb.setupFvar([(TAGS[a], -1, 0, 1, TAGS[a]) for a in range(naxes)], [])
    tvs = []
    for reg, ds in vars_:
        tvs.append(TupleVariation(_axes_of(reg, D), [(ds[2 * i], ds[2 * i + 1]) for i in range(7)]))
    fb.setupGvar({"g": tvs, ".notdef": []})
    return fb.font


def point_deltas(d1, d2):
    """deltas of the 4 outline points and 4 phantom points of glyph 'a'"""
    return [(d1, d2), (d2, d1), (d1 + d2, 0), (0, -d1), (0, 0), (d1, 0), (0, 0), (0, 0)]


def comp_deltas(d1, d2):
    """composite 'c' = one component: offset delta + 4 phantom points"""
    return [(d2, -d2), (0, 0), (d2, 0), (0, 0), (0, 0)]


def model_font(case, D, variant=0):
    """-> (TTFont reloaded from bytes, meta); variant bit 0: explicit AdvWidthMap, bit 1: gvar
    deltas scaled by 7 (larger deltas, more rounding)"""
    from fontTools.ttLib import TTFont, newTable
    from fontTools.ttLib.tables.TupleVariation import TupleVariation
    from fontTools.ttLib.tables import otTables as ot
    from fontTools.varLib import builder as vb
    from fontTools.varLib import featureVars
    from fontTools.otlLib import builder as ob
    from fontTools.feaLib.builder import addOpenTypeFeaturesFromString

    naxes = len(case["lims"])
    lims = case["lims"]
    names = [".notdef", "a", "a.0", "a.1", "c"]
    fb, Pen = _base(names)
    fb.setupCharacterMap({0x61: "a", 0x63: "c"})
    glyphs = {".notdef": Pen(None).glyph()}
    for n in ("a", "a.0", "a.1"):
        pen = Pen(None)
        pen.moveTo((50, 0))
        pen.lineTo((450, 10))
        pen.lineTo((440, 500))
        pen.lineTo((60, 510))
        pen.closePath()
        glyphs[n] = pen.glyph()
    pen = Pen({n: None for n in names})
    pen.addComponent("a", (1, 0, 0, 1, 30, -20))
    glyphs["c"] = pen.glyph()
    fb.setupGlyf(glyphs)
    fb.setupHorizontalMetrics({".notdef": (500, 0), "a": (520, 50), "a.0": (530, 50), "a.1": (540, 50), "c": (560, 80)})
    fb.setupHorizontalHeader(ascent=800, descent=-200)
    fb.setupNameTable({"familyName": "C08 Model", "styleName": "Regular"})
    fb.setupOS2(sTypoAscender=800, sTypoDescender=-200, sTypoLineGap=0, sxHeight=500, sCapHeight=700)
    fb.setupPost(underlinePosition=-100)
    axes = [(TAGS[a],) + user_axis(lims[a], a, D) + (TAGS[a].upper(),) for a in range(naxes)]
    # named instances on lattice points: default, extremes, half way
    insts = []
    pts = [[0] * naxes]
    for a in range(naxes):
        for k in (-D, D, D // 2, -(D // 2)):
            p = [0] * naxes
            p[a] = k
            pts.append(p)
    if naxes > 1:
        pts.append([D // 2] * naxes)
        pts.append([-D] + [D] * (naxes - 1))
    for p in pts:
        insts.append({"location": {TAGS[a]: user(p[a], lims[a], a) for a in range(naxes)},
                      "stylename": "I" + "_".join(str(v) for v in p)})
    fb.setupFvar(axes, insts)
    font = fb.font
    if case["map"] != 1:
        avar = font["avar"] = newTable("avar")
        avar.majorVersion, avar.minorVersion = 1, 0
        avar.segments = {TAGS[a]: {} for a in range(naxes)}
        avar.segments[TAGS[0]] = {f / D: t / D for f, t in case["avar_knots"]}
    scale = 7 if variant & 2 else 1
    regs = [_axes_of(reg, D) for reg, _ in case["vars"]]
    dss = [(ds[0] * scale, ds[1] * scale) for _, ds in case["vars"]]
    if regs:
        gv = {n: [] for n in names}
        for reg, (d1, d2) in zip(regs, dss):
            gv["a"].append(TupleVariation(dict(reg), point_deltas(d1, d2)))
            gv["a.0"].append(TupleVariation(dict(reg), point_deltas(2 * d1, d2)))
            gv["c"].append(TupleVariation(dict(reg), comp_deltas(d1, d2)))
        fb.setupGvar(gv)
        tags = TAGS[:naxes]
        # HVAR: advance deltas = phantom right.dx - left.dx of gvar
        rl = vb.buildVarRegionList(regs, tags)
        rows = {".notdef": [0] * len(regs), "a": [d1 for d1, _ in dss], "a.0": [2 * d1 for d1, _ in dss],
                "a.1": [0] * len(regs), "c": [d2 for _, d2 in dss]}
        hvar = font["HVAR"] = newTable("HVAR")
        hv = hvar.table = ot.HVAR()
        hv.Version = 0x00010000
        hv.LsbMap = hv.RsbMap = None
        if variant & 1:
            # indirect mapping: shared rows, an unused row, glyph order scrambled
            order = ["c", "a.0", "a"]
            vd = vb.buildVarData(list(range(len(regs))), [rows[n] for n in order] + [[1] * len(regs), [0] * len(regs)], optimize=False)
            hv.VarStore = vb.buildVarStore(rl, [vd])
            idx = {"c": 0, "a.0": 1, "a": 2, ".notdef": 4, "a.1": 4}
            hv.AdvWidthMap = vb.buildVarIdxMap([idx[n] for n in names], names)
        else:
            vd = vb.buildVarData(list(range(len(regs))), [rows[n] for n in names], optimize=False)
            hv.VarStore = vb.buildVarStore(rl, [vd])
            hv.AdvWidthMap = None
        # MVAR
        mvar = font["MVAR"] = newTable("MVAR")
        mv = mvar.table = ot.MVAR()
        mv.Version = 0x00010000
        mv.Reserved = 0
        mv.ValueRecordSize = 8
        mrows = [[d1 for d1, _ in dss], [d2 for _, d2 in dss], [d1 - d2 for d1, d2 in dss]]
        mv.VarStore = vb.buildVarStore(vb.buildVarRegionList(regs, tags), [vb.buildVarData(list(range(len(regs))), mrows, optimize=False)])
        mv.ValueRecord = []
        for i, tag in enumerate(("cpht", "undo", "xhgt")):   # sorted by tag
            r = ot.MetricsValueRecord()
            r.ValueTag = tag
            r.VarIdx = {"xhgt": 0, "cpht": 1, "undo": 2}[tag]
            mv.ValueRecord.append(r)
        mv.ValueRecordCount = len(mv.ValueRecord)
        # cvt / cvar
        cvt = font["cvt "] = newTable("cvt ")
        import array

        cvt.values = array.array("h", [10, 20])
        cvar = font["cvar"] = newTable("cvar")
        cvar.majorVersion, cvar.minorVersion = 1, 0
        cvar.variations = [TupleVariation(dict(reg), [d1, d2]) for reg, (d1, d2) in zip(regs, dss)]
        # GDEF VarStore + GPOS devices
        grows = [[d1 for d1, _ in dss], [d2 for _, d2 in dss], [d1 + d2 for d1, d2 in dss], [-d1 for d1, _ in dss]]
        gstore = vb.buildVarStore(vb.buildVarRegionList(regs, tags), [vb.buildVarData(list(range(len(regs))), grows, optimize=False)])

        def dev(i):
            return vb.buildVarDevTable(i)

        pairs = {("a", "c"): (ob.buildValue({"XAdvance": 10, "XAdvDevice": dev(0)}), None),
                 ("c", "a"): (ob.buildValue({"XAdvance": -20, "XAdvDevice": dev(1)}), None),
                 ("a", "a"): (ob.buildValue({"XAdvance": 5}), None)}
        st1 = ob.buildPairPosGlyphs(pairs, font.getReverseGlyphMap())
        st2 = ob.buildSinglePosSubtable({"a.0": ob.buildValue({"XPlacement": 7, "XPlaDevice": dev(2), "YPlacement": -3, "YPlaDevice": dev(3)})},
                                        font.getReverseGlyphMap())
        gpos = font["GPOS"] = newTable("GPOS")
        gp = gpos.table = ot.GPOS()
        gp.Version = 0x00010000
        gp.LookupList = ot.LookupList()
        gp.LookupList.Lookup = [ob.buildLookup(st1), ob.buildLookup([st2])]
        gp.LookupList.LookupCount = 2
        gp.FeatureList = ot.FeatureList()
        fr = ot.FeatureRecord()
        fr.FeatureTag = "kern"
        fr.Feature = ot.Feature()
        fr.Feature.FeatureParams = None
        fr.Feature.LookupListIndex = [0, 1]
        fr.Feature.LookupCount = 2
        gp.FeatureList.FeatureRecord = [fr]
        gp.FeatureList.FeatureCount = 1
        gp.ScriptList = ot.ScriptList()
        sr = ot.ScriptRecord()
        sr.ScriptTag = "DFLT"
        sr.Script = ot.Script()
        sr.Script.DefaultLangSys = ot.DefaultLangSys()
        sr.Script.DefaultLangSys.ReqFeatureIndex = 0xFFFF
        sr.Script.DefaultLangSys.FeatureIndex = [0]
        sr.Script.DefaultLangSys.FeatureCount = 1
        sr.Script.DefaultLangSys.LookupOrder = None
        sr.Script.LangSysRecord = []
        sr.Script.LangSysCount = 0
        gp.ScriptList.ScriptRecord = [sr]
        gp.ScriptList.ScriptCount = 1
        gdef = font["GDEF"] = newTable("GDEF")
        gd = gdef.table = ot.GDEF()
        gd.Version = 0x00010003
        gd.GlyphClassDef = gd.AttachList = gd.LigCaretList = gd.MarkAttachClassDef = gd.MarkGlyphSetsDef = None
        gd.VarStore = gstore
    else:
        fb.setupGvar({n: [] for n in names})
    if case["fvs"]:
        fea = "".join("lookup L%d { sub a by a.%d; } L%d;\n" % (q, q, q) for q in range(len(case["fvs"])))
        fea += "feature liga { sub a.0 a.1 by a; } liga;\n"
        addOpenTypeFeaturesFromString(font, fea, tables=["GSUB"])
        conds = []
        for q, box in enumerate(case["fvs"]):
            conds.append(({TAGS[a]: (r[0] / D, r[1] / D) for a, r in enumerate(box) if len(r)}, [q]))
        featureVars.addFeatureVariationsRaw(font, font["GSUB"].table, conds, "rvrn")
    # STAT: axis values on lattice points
    stat_axes = []
    for a in range(naxes):
        vals = [{"value": user(k, lims[a], a), "name": "V%d" % k, "flags": 0x2 if k == 0 else 0} for k in (-D, -(D // 2), 0, D // 2, D)]
        stat_axes.append({"tag": TAGS[a], "name": TAGS[a].upper(), "values": vals})
    fb.setupStat(stat_axes)
    buf = io.BytesIO()
    font.save(buf)
    data = buf.getvalue()
    return TTFont(io.BytesIO(data)), data
