"""C08: projection of a (variable or instanced) TTFont to the abstract font that
specs/Trace_C08.tla evaluates: axes, segment maps, shared region list, items (base value +
<<region, delta>> list), named instances, STAT axis values, feature variations, table presence.

Only marshalling happens here (reading decoded tables, making inferred 'gvar' deltas explicit with
fontTools' own iup_delta, converting to integers); evaluation and every verdict are TLC's.

Units: normalised coordinates in F2DOT14 units (integers), values and deltas in 1/1024 font unit
(integers; `inf` counts the deltas of an item that were rounded to that grid)."""
import io
import re
from fractions import Fraction as F

from fontTools.misc.fixedTools import floatToFixed as fl2fi

FX = 1024
MAXI = 2**31 - 1


class OutOfDomain(Exception):
    """the font uses something the abstract font does not model (counted as a skip)"""


def rat(x):
    f = F(x)
    if abs(f.numerator) > MAXI or f.denominator > MAXI:
        raise OutOfDomain("value beyond 31 bits")
    return [f.numerator, f.denominator]


def fx(v):
    """-> (integer in 1/1024 units, 1 if rounded)"""
    f = F(v) * FX
    if f.denominator == 1:
        n, inexact = f.numerator, 0
    else:
        n, inexact = int(round(f)), 1
    if abs(n) > (1 << 29):
        raise OutOfDomain("value beyond 2^19 font units")
    return n, inexact


class Regions:
    def __init__(self, tags):
        self.tags = tags
        self.ids = {}
        self.list = []

    def of_axes(self, axes):
        key = tuple(tuple(fl2fi(v, 14) for v in axes.get(t, (0, 0, 0))) for t in self.tags)
        for t in axes:
            if t not in self.tags:
                raise OutOfDomain("region on an axis that is not in fvar")
        return self._id(key)

    def of_varregion(self, region):
        if len(region.VarRegionAxis) != len(self.tags):
            raise OutOfDomain("VarRegion axis count differs from fvar")
        key = tuple((fl2fi(a.StartCoord, 14), fl2fi(a.PeakCoord, 14), fl2fi(a.EndCoord, 14)) for a in region.VarRegionAxis)
        return self._id(key)

    def _id(self, key):
        i = self.ids.get(key)
        if i is None:
            self.list.append([list(t) for t in key])
            i = self.ids[key] = len(self.list)
        return i


def _store_row(store, regions, major, minor):
    """[(region id, delta)] of one item of an item variation store; [] for NO_VARIATION_INDEX /
    out-of-range indices (fontTools / HarfBuzz policy)"""
    if store is None or major >= len(store.VarData):
        return []
    vd = store.VarData[major]
    if minor >= len(vd.Item):
        return []
    rl = store.VarRegionList.Region
    return [(regions.of_varregion(rl[ri]), d) for ri, d in zip(vd.VarRegionIndex, vd.Item[minor])]


def _item(base, pairs, w=1, nb=1, rel=0, key=None):
    b, binf = fx(base)
    v = []
    inf = binf
    for rid, d in pairs:
        n, inexact = fx(d)
        inf += inexact
        v.append([rid, n])
    return {"b": b, "v": v, "w": w, "nb": nb, "inf": inf, "rel": rel, "key": key}


# ---- OpenType Layout walk -----------------------------------------------------------------------
VR_FIELDS = [("XPlacement", "XPlaDevice"), ("YPlacement", "YPlaDevice"), ("XAdvance", "XAdvDevice"), ("YAdvance", "YAdvDevice")]


def otl_values(table):
    """every positioning value of a GPOS / GDEF table that can carry a VariationIndex, in a
    deterministic structural order: [(value, device or None)]"""
    from fontTools.ttLib.tables import otBase, otConverters, otTables as ot

    out = []

    def emit_vr(vr):
        for vn, dn in VR_FIELDS:
            out.append(((getattr(vr, vn, 0) or 0) if vr is not None else 0, getattr(vr, dn, None) if vr is not None else None))

    def pair_values(subs):
        """pair adjustment lookups by glyph pair (the instancer's merger re-derives the classes of
        format 2, which renumbers the records): every explicitly listed pair, first subtable wins,
        in sorted order"""
        pairs = {}
        for st in subs:
            firsts = list(st.Coverage.glyphs)
            if st.Format == 1:
                for g1, ps in zip(firsts, st.PairSet):
                    for pvr in ps.PairValueRecord:
                        pairs.setdefault((g1, pvr.SecondGlyph), (pvr.Value1, pvr.Value2))
            elif st.Format == 2:
                c1 = st.ClassDef1.classDefs if st.ClassDef1 else {}
                c2 = st.ClassDef2.classDefs if st.ClassDef2 else {}
                for g1 in firsts:
                    row = st.Class1Record[c1.get(g1, 0)]
                    for g2, k2 in c2.items():
                        rec = row.Class2Record[k2]
                        pairs.setdefault((g1, g2), (rec.Value1, rec.Value2))
        for key in sorted(pairs):
            emit_vr(pairs[key][0])
            emit_vr(pairs[key][1])

    def visit(obj):
        if isinstance(obj, otBase.ValueRecord):
            for vn, dn in VR_FIELDS:
                out.append((getattr(obj, vn, 0) or 0, getattr(obj, dn, None)))
            return
        if isinstance(obj, ot.Anchor):
            out.append((obj.XCoordinate, getattr(obj, "XDeviceTable", None)))
            out.append((obj.YCoordinate, getattr(obj, "YDeviceTable", None)))
            return
        if isinstance(obj, ot.CaretValue):
            if obj.Format in (1, 3):
                out.append((obj.Coordinate, getattr(obj, "DeviceTable", None)))
            return
        if isinstance(obj, ot.Lookup):
            subs = [getattr(st, "ExtSubTable", st) for st in obj.SubTable]
            if subs and all(isinstance(st, ot.PairPos) for st in subs):
                pair_values(subs)
                return
        if isinstance(obj, otBase.BaseTable):
            if isinstance(obj, (ot.VarStore, ot.Coverage, ot.ClassDef, ot.FeatureVariations)):
                return
            for conv in obj.getConverters():
                val = getattr(obj, conv.name, None)
                if val is None and isinstance(conv, otConverters.ValueRecord):
                    out.extend([(0, None)] * len(VR_FIELDS))     # an absent value record is all zeros
                else:
                    visit(val)
        elif isinstance(obj, (list, tuple)):
            for x in obj:
                visit(x)

    visit(table)
    return out


def _dev_index(dev):
    if dev is None or getattr(dev, "DeltaFormat", 0) != 0x8000:
        return None
    return dev.StartSize, dev.EndSize


# ---- feature variations -------------------------------------------------------------------------
def _lookup_ids(font, tag, interner):
    """content id of every lookup of GSUB/GPOS, independent of lookup renumbering"""
    from fontTools.misc.xmlWriter import XMLWriter

    table = font[tag].table
    lookups = table.LookupList.Lookup if table.LookupList else []
    xmls = []
    for lk in lookups:
        buf = io.StringIO()
        w = XMLWriter(buf)
        lk.toXML(w, font)
        w.close() if hasattr(w, "close") else None
        xmls.append(buf.getvalue())
    memo = {}

    def cid(i, stack=()):
        if i in memo:
            return memo[i]
        if i in stack or i >= len(xmls):
            return "cycle%d" % i
        s = re.sub(r'<LookupListIndex value="(\d+)"/>', lambda m: '<LookupListIndex ref="%s"/>' % cid(int(m.group(1)), stack + (i,)), xmls[i])
        memo[i] = interner((tag, s))
        return memo[i]

    return [cid(i) for i in range(len(lookups))]


def feature_variations(font, tags, interner):
    """-> {"feat": [[tag id, lookup ids..]], "recs": [{"box": [[axis, lo, hi]], "subs": [[feature, [tag id, ids..]]]}]} (GSUB);
    a feature without lookups does nothing, so TLC compares the active features that have lookups"""
    feat, recs = [], []
    for tag in ("GSUB",):
        if tag not in font:
            continue
        table = font[tag].table
        if not table.FeatureList:
            continue
        ids = _lookup_ids(font, tag, interner)
        off = len(feat)
        for fr in table.FeatureList.FeatureRecord:
            feat.append([interner(("tag", fr.FeatureTag))] + [ids[i] for i in fr.Feature.LookupListIndex])
        fvt = getattr(table, "FeatureVariations", None)
        if fvt is None:
            continue
        for rec in fvt.FeatureVariationRecord:
            box = []
            for c in (rec.ConditionSet.ConditionTable if rec.ConditionSet is not None else []):
                if c.Format != 1:
                    raise OutOfDomain("feature variation condition of format %d" % c.Format)
                if c.AxisIndex >= len(tags):
                    raise OutOfDomain("feature variation condition on a missing axis")
                box.append([c.AxisIndex + 1, fl2fi(c.FilterRangeMinValue, 14), fl2fi(c.FilterRangeMaxValue, 14)])
            subs = []
            for sr in rec.FeatureTableSubstitution.SubstitutionRecord:
                tagid = interner(("tag", table.FeatureList.FeatureRecord[sr.FeatureIndex].FeatureTag))
                subs.append([off + sr.FeatureIndex + 1, [tagid] + [ids[i] for i in sr.Feature.LookupListIndex]])
            recs.append({"box": box, "subs": subs})
    return {"feat": feat, "recs": recs}


def has_gpos_feature_variations(font):
    return "GPOS" in font and getattr(font["GPOS"].table, "FeatureVariations", None) is not None


# ---- CFF2 -----------------------------------------------------------------------------------------
def cff2_points(font, glyph, regions):
    """absolute coordinates of the contour start points and of the last point of a CFF2 glyph as
    (base, per-region deltas, number of blended operands accumulated): the charstring is run with
    every operand a vector (default, delta_1 .. delta_n), positions are sums of relative operands"""
    from fontTools.cffLib.specializer import programToCommands, generalizeCommands

    cff = font["CFF2"].cff
    if not getattr(cff, "_c08_desubr", False):
        cff.desubroutinize()          # as the instancer does; the projected font object is a private copy
        cff._c08_desubr = True
    top = cff.topDictIndex[0]
    cs = top.CharStrings[glyph]
    cs.decompile()
    vs = getattr(top, "VarStore", None)
    store = vs.otVarStore if vs is not None else None

    def nreg(vsindex):
        if store is None:
            return 0
        return store.VarData[vsindex if vsindex is not None else 0].VarRegionCount

    try:
        cmds = generalizeCommands(programToCommands(cs.program, getNumRegions=nreg))
    except Exception as e:
        raise OutOfDomain("CFF2 charstring not generalisable (%s)" % type(e).__name__)
    vsindex = getattr(cs.private, "vsindex", 0) if hasattr(cs, "private") else 0
    pos = [[F(0), {}, 0], [F(0), {}, 0]]  # x, y: base, {region id: delta}, blended operands
    pts = []

    def add(c, arg):
        if isinstance(arg, list):
            n = nreg(vsindex)
            if arg[-1] != 1 or len(arg) != n + 2:
                raise OutOfDomain("CFF2 blend of several operands after generalisation")
            pos[c][0] += F(arg[0])
            vd = store.VarData[vsindex]
            for ri, d in zip(vd.VarRegionIndex, arg[1:1 + n]):
                rid = regions.of_varregion(store.VarRegionList.Region[ri])
                pos[c][1][rid] = pos[c][1].get(rid, F(0)) + F(d)
            pos[c][2] += 1
        else:
            pos[c][0] += F(arg)

    def snap():
        return [(pos[c][0], dict(pos[c][1]), pos[c][2]) for c in (0, 1)]

    for op, args in cmds:
        if op == "vsindex":
            vsindex = args[0]
        elif op == "rmoveto":
            add(0, args[0]); add(1, args[1])
            pts.append(snap())
        elif op == "rlineto":
            add(0, args[0]); add(1, args[1])
        elif op == "rrcurveto":
            for i in range(0, 6, 2):
                add(0, args[i]); add(1, args[i + 1])
        elif op in ("hstem", "vstem", "hstemhm", "vstemhm", "hintmask", "cntrmask", "endchar", ""):
            continue
        else:
            raise OutOfDomain("CFF2 operator %s after generalisation" % op)
    pts.append(snap())
    return pts


# ---- the projection -------------------------------------------------------------------------------
def choose_items(font, rng, max_glyphs=10, max_points=6, max_otl=60):
    """the item keys to project (chosen on the ORIGINAL font)"""
    keys = []
    order = font.getGlyphOrder()
    if "gvar" in font and "glyf" in font:
        gvar = font["gvar"]
        cand = [g for g in order if gvar.variations.get(g)]
        comps = [g for g in cand if font["glyf"][g].isComposite()]
        pick = cand if len(cand) <= max_glyphs else sorted(set(rng.sample(cand, max_glyphs - min(2, len(comps))) + comps[:2]), key=order.index)
        hm = font["hmtx"].metrics
        vm = font["vmtx"].metrics if "vmtx" in font else None
        for g in pick:
            coords, _ = font["glyf"]._getCoordinatesAndControls(g, hm, vm)
            n = len(coords) - 4
            idx = list(range(n)) if n <= max_points else sorted(set([0, n - 1] + rng.sample(range(n), max_points - 2)))
            for i in idx:
                keys.append(("gv", g, i, 0))
                keys.append(("gv", g, i, 1))
            keys.append(("adv", g))
    if "HVAR" in font:
        cand = order if len(order) <= 2 * max_glyphs else sorted(rng.sample(order, 2 * max_glyphs), key=order.index)
        for g in cand:
            keys.append(("hvar", g))
    if "MVAR" in font:
        from fontTools.varLib.mvar import MVAR_ENTRIES

        for rec in font["MVAR"].table.ValueRecord:
            if rec.ValueTag in MVAR_ENTRIES and MVAR_ENTRIES[rec.ValueTag][0] in font:
                keys.append(("mvar", rec.ValueTag))
    if "cvar" in font and "cvt " in font:
        n = len(font["cvt "].values)
        for i in (range(n) if n <= 16 else sorted(rng.sample(range(n), 16))):
            keys.append(("cvt", i))
    for tag in ("GDEF", "GPOS"):
        if tag in font and "GDEF" in font and getattr(font["GDEF"].table, "VarStore", None) is not None:
            vals = otl_values(font[tag].table)
            var = [i for i, (_, dev) in enumerate(vals) if _dev_index(dev) is not None]
            if len(var) > max_otl:
                var = sorted(rng.sample(var, max_otl))
            for i in var:
                keys.append(("otl", tag, i, len(vals)))
    if "CFF2" in font:
        cand = [g for g in order if g != ".notdef"]
        for g in (cand if len(cand) <= max_glyphs else sorted(rng.sample(cand, max_glyphs), key=order.index)):
            keys.append(("cff2", g))
    return keys


def project(font, keys, orig_tags, interner, glyf_has_default_from_gvar=None):
    """-> abstract font (dict); keys as chosen on the original; orig_tags = the original's axis tags
    (STAT axis indices refer to them)"""
    from fontTools.varLib.iup import iup_delta
    from fontTools.varLib.mvar import MVAR_ENTRIES

    tags = [a.axisTag for a in font["fvar"].axes] if "fvar" in font else []
    out = {"tables": sorted(str(t) for t in font.keys() if t != "GlyphOrder"), "tags": tags}
    out["axes"] = [[rat(a.minValue), rat(a.defaultValue), rat(a.maxValue)] for a in font["fvar"].axes] if tags else []
    if "avar" in font:
        avar = font["avar"]
        if getattr(avar, "majorVersion", 1) != 1 or getattr(getattr(avar, "table", None), "VarStore", None) is not None:
            raise OutOfDomain("avar version 2")
        out["avar"] = [[[fl2fi(f, 14), fl2fi(t, 14)] for f, t in sorted(avar.segments.get(t, {}).items())] for t in tags]
        for m in out["avar"]:
            if m and [k[0] for k in m] != sorted(set(k[0] for k in m)):
                raise OutOfDomain("avar map with repeated knots")
    else:
        out["avar"] = []
    out["instances"] = [[rat(i.coordinates[t]) for t in tags] for i in font["fvar"].instances] if tags else []
    regions = Regions(tags)
    items = []
    glyf = font["glyf"] if "glyf" in font else None
    gvar = font["gvar"] if "gvar" in font else None
    hm = font["hmtx"].metrics if "hmtx" in font else {}
    vm = font["vmtx"].metrics if "vmtx" in font else None
    cache = {}

    def glyph_data(g):
        if g in cache:
            return cache[g]
        coords, ctrl = glyf._getCoordinatesAndControls(g, hm, vm)
        tvs = []
        for tv in (gvar.variations.get(g) or []) if gvar is not None else []:
            ds = list(tv.coordinates)
            if len(ds) != len(coords):
                raise OutOfDomain("gvar tuple length differs from glyph")
            inferred = [d is None for d in ds]
            if any(inferred):
                ds = iup_delta(ds, coords, ctrl.endPts)
            tvs.append((regions.of_axes(tv.axes), ds, inferred))
        cache[g] = (coords, tvs)
        return cache[g]

    otl_cache = {}
    cff_cache = {}
    gdef_store = getattr(font["GDEF"].table, "VarStore", None) if "GDEF" in font else None
    for key in keys:
        kind = key[0]
        if kind == "gv":
            _, g, i, c = key
            coords, tvs = glyph_data(g)
            items.append(_item(coords[i][c], [(rid, ds[i][c]) for rid, ds, _ in tvs], key=list(key)))
        elif kind == "adv":
            g = key[1]
            coords, tvs = glyph_data(g)
            n = len(coords)
            items.append(_item(coords[n - 3][0] - coords[n - 4][0], [(rid, ds[n - 3][0] - ds[n - 4][0]) for rid, ds, _ in tvs], w=2, key=list(key)))
        elif kind == "hvar":
            g = key[1]
            pairs = []
            if "HVAR" in font:
                hv = font["HVAR"].table
                if hv.AdvWidthMap is not None:
                    vi = hv.AdvWidthMap.mapping[g]
                else:
                    vi = font.getGlyphID(g)
                pairs = _store_row(hv.VarStore, regions, vi >> 16, vi & 0xFFFF)
            items.append(_item(hm[g][0], pairs, rel=1 if glyf is not None else 0, key=list(key)))
        elif kind == "mvar":
            tag = key[1]
            tt, attr = MVAR_ENTRIES[tag]
            pairs = []
            if "MVAR" in font:
                mv = font["MVAR"].table
                for rec in mv.ValueRecord:
                    if rec.ValueTag == tag:
                        pairs = _store_row(mv.VarStore, regions, rec.VarIdx >> 16, rec.VarIdx & 0xFFFF)
            items.append(_item(getattr(font[tt], attr), pairs, key=list(key)))
        elif kind == "cvt":
            i = key[1]
            pairs = []
            if "cvar" in font:
                for tv in font["cvar"].variations:
                    d = tv.coordinates[i] if i < len(tv.coordinates) else None
                    pairs.append((regions.of_axes(tv.axes), d or 0))
            items.append(_item(font["cvt "].values[i], pairs, key=list(key)))
        elif kind == "otl":
            _, tag, i, n = key
            if tag not in otl_cache:
                otl_cache[tag] = otl_values(font[tag].table) if tag in font else []
            vals = otl_cache[tag]
            if len(vals) != n:
                raise OutOfDomain("layout table restructured by the instancer (value count changed)")
            value, dev = vals[i]
            vi = _dev_index(dev)
            pairs = _store_row(gdef_store, regions, vi[0], vi[1]) if vi is not None else []
            if vi is not None and gdef_store is None:
                raise OutOfDomain("VariationIndex device without GDEF VarStore")
            items.append(_item(value, pairs, key=list(key)))
        elif kind == "cff2":
            g = key[1]
            if g not in cff_cache:
                cff_cache[g] = cff2_points(font, g, regions) if "CFF2" in font else None
            pts = cff_cache[g]
            if pts is None:
                raise OutOfDomain("CFF2 table replaced")
            for j, pt in enumerate(pts):
                for c in (0, 1):
                    base, ds, w = pt[c]
                    items.append(_item(base, sorted(ds.items()), w=max(w, 1), nb=w, key=["cff2", g, j, c]))
    out["items"] = items
    out["regions"] = regions.list
    # STAT axis values (axis index refers to the ORIGINAL fvar, 0 = not an fvar axis)
    stat = []
    if "STAT" in font:
        st = font["STAT"].table
        daxes = [a.AxisTag for a in st.DesignAxisRecord.Axis] if st.DesignAxisRecord else []

        def ai(i):
            t = daxes[i]
            return orig_tags.index(t) + 1 if t in orig_tags else 0

        for av in (st.AxisValueArray.AxisValue if st.AxisValueArray else []):
            if av.Format in (1, 3):
                stat.append([[ai(av.AxisIndex), rat(av.Value)]])
            elif av.Format == 2:
                stat.append([[ai(av.AxisIndex), rat(av.NominalValue)]])
            elif av.Format == 4:
                stat.append([[ai(r.AxisIndex), rat(r.Value)] for r in av.AxisValueRecord])
    out["stat"] = stat
    out["fv"] = feature_variations(font, tags, interner)
    nvar = 0
    for tag in ("GDEF", "GPOS"):
        if tag in font:
            if tag not in otl_cache:
                otl_cache[tag] = otl_values(font[tag].table)
            nvar += sum(1 for _, dev in otl_cache[tag] if _dev_index(dev) is not None)
    out["otlvar"] = nvar + (1 if gdef_store is not None else 0)
    return out
