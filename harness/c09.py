"""C09 -- variation arithmetic is exact.

(M)  MC_Rat / MC_Tent / MC_Model / MC_IUP / MC_VarStore: the semantic modules (Rat, VarSem, Tent,
     Model, IUP, VarStoreSem) and the transcriptions of the code's case analyses satisfy
     the contracts on whole lattices; the cases that fired are reported by TLC itself.
(R)  the same lattices (tents x limits, TLC-generated master sets, small contours and
     stores) are pushed through the REAL functions with exact Fraction inputs; float
     outputs are recovered to exact rationals (DESIGN section 2) and TLC (Trace_C09)
     evaluates the property clauses on the code's outputs.
(V)  corpus inputs: designspace master locations, gvar glyphs, item variation stores.

Python only drives the code and marshals values; every accept/reject verdict on values is
computed by TLC.  (A crash of the real function on an in-domain input and a float output
that is not within 1e-9 of a lattice rational are reported directly.)"""
import copy
import itertools
import json
import os
import random
import time
from fractions import Fraction as F

from . import common
from .common import MachineryError

LEVEL = "model_checking"
MAXI = 2**31 - 1


class Unrecoverable(Exception):
    pass


class TooBig(Exception):
    pass


def rat(x, limit=1 << 16, tol=1e-9):
    """exact [num, den] of an int / Fraction / float (float: nearest rational with
    den <= limit; residual >= tol means it was not a lattice rational)."""
    if isinstance(x, bool):
        raise MachineryError("bool where number expected")
    if isinstance(x, int):
        f = F(x)
    elif isinstance(x, F):
        f = x
    else:
        x = float(x)
        f = F(x).limit_denominator(limit)
        if abs(float(f) - x) >= tol:
            raise Unrecoverable(repr(x))
    if abs(f.numerator) > MAXI or f.denominator > MAXI:
        raise TooBig(str(f))
    return [f.numerator, f.denominator]


def rats(xs, **kw):
    return [rat(x, **kw) for x in xs]


TAGS = ["aaaa", "bbbb", "cccc", "dddd", "eeee", "ffff"]


# --------------------------------------------------------------------------------------
# rebaseTent
# --------------------------------------------------------------------------------------
def well_formed_tent(lo, pk, up, D):
    """domain of the property, in lattice units (mirrors Tent!WellFormedTent, which TLC
    re-checks for every trace)"""
    if not (-2 * D <= lo <= pk <= up <= 2 * D):
        return False
    if pk == 0 or (lo < 0 < up):
        return False
    if lo == pk and not (pk <= -D or pk > D):
        return False
    if pk == up and not (pk >= D or pk < -D):
        return False
    return True


def lattice_tents(D):
    r = range(-2 * D, 2 * D + 1)
    return [(a, b, c) for a in r for b in r for c in r if well_formed_tent(a, b, c, D)]


def lattice_limits(D):
    r = range(-D, D + 1)
    return [(a, b, c) for a in r for b in r if b >= a for c in r if c >= b]


DISTS = [(1, 1), (1, 2), (2, 1)]


def run_tent(case):
    from fontTools.varLib.instancer import NormalizedAxisTripleAndDistances as NA
    from fontTools.varLib.instancer import solver

    t, l, D, P, cmp_ = case
    tent = tuple(F(v, D) for v in t)
    lim = NA(F(l[0], D), F(l[1], D), F(l[2], D), l[3], l[4])
    fn = getattr(solver.rebaseTent, "__wrapped__", solver.rebaseTent)
    tr = {"k": "tent", "D": D, "P": P, "t": list(t), "l": list(l), "cmp": bool(cmp_)}
    try:
        sols = fn(tent, lim)
    except Exception as e:  # in-domain input must not crash
        return {"k": "exc", "of": tr, "what": "rebaseTent raised %s: %s" % (type(e).__name__, e)}
    try:
        tr["sols"] = [rat(s) + [[] if tn is None else rats(tn)] for s, tn in sols]
    except Unrecoverable as e:
        return {"k": "inexact", "of": tr, "what": "rebaseTent output %s is not a lattice rational" % e}
    return tr


def tent_cases(rng, tier):
    D = 4
    tents, lims = lattice_tents(D), lattice_limits(D)
    cases = []
    for dn, dp in DISTS:
        full = tier == "thorough" or (dn, dp) == (1, 1)
        for t in tents:
            for l in lims:
                if full or rng.random() < 0.05:
                    cases.append((t, l + (dn, dp), D, 2 * D, rng.random() < (1.0 if tier == "thorough" else 0.08)))
    # finer dyadic lattices (dyadic, so that Fraction inputs behave exactly like the floats the
    # instancer passes: a non-dyadic Fraction compared with its own float rounding trips asserts)
    for _ in range(12000 if tier == "thorough" else 1200):
        D2 = rng.choice([8, 16])
        while True:
            t = tuple(sorted(rng.randint(-2 * D2, 2 * D2) for _ in range(3)))
            if rng.random() < 0.3:  # one-sided tents at the range edges
                t = rng.choice([(-D2, -D2, t[2] if t[2] > -D2 else 0), (t[0] if t[0] < D2 else 0, D2, D2), t])
            if well_formed_tent(t[0], t[1], t[2], D2):
                break
        l = tuple(sorted(rng.randint(-D2, D2) for _ in range(3)))
        cases.append((t, l + rng.choice(DISTS), D2, 16, rng.random() < 0.2))
    return cases


# --------------------------------------------------------------------------------------
# supportScalar / normalizeValue / piecewiseLinearMap
# --------------------------------------------------------------------------------------
def run_scalar(case):
    from fontTools.varLib import models

    kind = case[0]
    try:
        if kind == "scalar":
            _, reg, locs, D = case
            support = {TAGS[a]: tuple(F(v, D) for v in t) for a, t in enumerate(reg)}
            outs = []
            for loc in locs:
                location = {TAGS[a]: F(v, D) for a, v in enumerate(loc) if v != 0 or (a + len(loc)) % 2}
                outs.append(rat(models.supportScalar(location, support)))
            return {"k": "scalar", "reg": [[[v, D] for v in t] for t in reg],
                    "locs": [[[v, D] for v in loc] for loc in locs], "outs": outs}
        if kind == "norm":
            _, tr, vs, D = case
            triple = tuple(F(v, D) for v in tr)
            outs = [rat(models.normalizeValue(F(v, D), triple)) for v in vs]
            # the dict form: a given axis, and an axis the location does not mention (-> default)
            loc = models.normalizeLocation({"aaaa": F(vs[0], D)}, {"aaaa": triple, "bbbb": triple})
            return {"k": "norm", "tr": [[v, D] for v in tr], "vs": [[v, D] for v in vs], "outs": outs,
                    "dict": [rat(loc["aaaa"]), rat(loc["bbbb"])]}
        if kind == "pwl":
            _, m, vs, D = case
            mapping = {F(a, D): F(b, D) for a, b in m}
            outs = [rat(models.piecewiseLinearMap(F(v, D), mapping)) for v in vs]
            return {"k": "pwl", "m": [[[a, D], [b, D]] for a, b in sorted(m)], "vs": [[v, D] for v in vs], "outs": outs}
    except Unrecoverable as e:
        return {"k": "inexact", "of": {"k": kind, "case": repr(case)[:300]}, "what": "%s output %s is not a lattice rational" % (kind, e)}
    except Exception as e:
        return {"k": "exc", "of": {"k": kind, "case": repr(case)[:300]}, "what": "%s raised %s: %s" % (kind, type(e).__name__, e)}
    raise MachineryError("unknown scalar case " + kind)


def scalar_cases(rng, tier):
    D = 4
    cases = []
    r = range(-D, D + 1)
    evs = list(range(-2 * D, 2 * D + 1))
    # one axis: every triple of the quarter lattice of [-1, 1] (including the ones OpenType ignores)
    for a in r:
        for b in r:
            for c in r:
                cases.append(("scalar", [(a, b, c)], [(v,) for v in range(-D - 2, D + 3)], D))
    # tents reaching beyond +-1, and the half-step points
    for _ in range(300):
        t = tuple(sorted(rng.randint(-2 * D, 2 * D) for _ in range(3)))
        cases.append(("scalar", [t], [(v,) for v in rng.sample(evs, 8)], D))
    for _ in range(3000 if tier == "thorough" else 800):
        n = rng.randint(2, 4)
        reg = []
        for _a in range(n):
            k = rng.random()
            if k < 0.15:
                reg.append((0, 0, 0))
            elif k < 0.25:
                reg.append(tuple(rng.randint(-D, D) for _ in range(3)))  # possibly invalid / straddling
            else:
                reg.append(tuple(sorted(rng.randint(-D, D) for _ in range(3))))
        locs = [tuple(rng.choice([0, 0] + list(r)) for _ in range(n)) for _ in range(6)]
        locs.append(tuple(t[1] for t in reg))
        cases.append(("scalar", reg, locs, D))
    lims = lattice_limits(D)
    for tr in lims:
        cases.append(("norm", tr, list(range(-D - 2, D + 3)), D))
    for _ in range(200):
        D2 = rng.choice([3, 7, 10, 100])
        tr = tuple(sorted(rng.randint(-5 * D2, 5 * D2) for _ in range(3)))
        cases.append(("norm", tr, [rng.randint(-6 * D2, 6 * D2) for _ in range(8)] + list(tr), D2))
    for _ in range(1200 if tier == "thorough" else 400):
        D2 = rng.choice([1, 2, 4, 5])
        n = rng.randint(0, 5)
        keys = rng.sample(range(-2 * D2, 2 * D2 + 1), min(n, 4 * D2 + 1))
        m = [(k, rng.randint(-3 * D2, 3 * D2)) for k in keys]
        if rng.random() < 0.4 and n >= 2:  # avar style: monotone, -1 -> -1, 0 -> 0, 1 -> 1
            ks = sorted(set(keys) | {-D2, 0, D2})
            vals = sorted(rng.randint(-D2, D2) for _ in ks)
            m = [(k, (k if k in (-D2, 0, D2) else v)) for k, v in zip(ks, vals)]
        vs = [rng.randint(-3 * D2, 3 * D2) for _ in range(6)] + [k for k, _ in m][:3]
        cases.append(("pwl", m, vs, D2))
    return cases


# --------------------------------------------------------------------------------------
# VariationModel
# --------------------------------------------------------------------------------------
def dense(loc, tags):
    return [rat(loc.get(t, 0)) for t in tags]


def region_json(support, tags, **kw):
    out = []
    for t in tags:
        tr = support.get(t, (0, 0, 0))
        out.append(rats(tr, **kw))
    return out


def model_trace(locations, tags, rng, eps=(0, 1), cmp_=False, limit=1 << 16, tol=1e-9, nprobes=3, PD=8,
                submask=None, label=None):
    """Run the real VariationModel on `locations` (list of dicts tag -> Fraction) and record
    everything the judge needs."""
    from fontTools.varLib import models

    kw = {"limit": limit, "tol": tol}
    model = models.VariationModel(locations, axisOrder=list(tags))
    inl = locations
    if submask is not None:
        items = [i if keep else None for i, keep in enumerate(submask)]
        model, sub = model.getSubModel(items)
        inl = [locations[i] for i in sub]
    n = len(inl)
    tr = {"k": "model", "n": len(tags), "eps": list(eps), "cmp": bool(cmp_),
          "inl": [dense(l, tags) for l in inl],
          "locs": [dense(l, tags) for l in model.locations],
          "mapping": list(model.mapping),
          "sups": [region_json(s, tags, **kw) for s in model.supports],
          "dw": [[[j] + rat(w, **kw) for j, w in sorted(d.items())] for d in model.deltaWeights]}
    if label:
        tr["src"] = label
    runs = []
    vecs = [[rng.randint(-1000, 1000) for _ in range(n)], [1 if i == rng.randrange(n) else 0 for i in range(n)]]
    for vals in vecs:
        fv = [F(v) for v in vals]
        deltas = model.getDeltas(fv)
        runs.append({"vals": rats(vals), "deltas": rats(deltas, **kw), "_d": deltas, "_v": fv})
    probes = []
    plocs = [dict(l) for l in inl]
    for _ in range(nprobes):
        plocs.append({t: F(rng.randint(-PD, PD), PD) for t in tags if rng.random() < 0.8})
    for loc in plocs:
        p = {"loc": dense(loc, tags), "scalars": rats(model.getScalars(loc), **kw),
             "mscalars": rats(model.getMasterScalars(loc), **kw), "interp": []}
        for run in runs:
            a = model.interpolateFromMasters(loc, run["_v"])
            b = model.interpolateFromDeltas(loc, run["_d"])
            p["interp"].append([[] if a is None else rat(a, **kw), [] if b is None else rat(b, **kw)])
        probes.append(p)
    for run in runs:
        del run["_d"], run["_v"]
    tr["runs"] = runs
    tr["probes"] = probes
    return tr


def run_model(case):
    kind, payload, seed = case
    rng = random.Random(seed)
    try:
        if kind == "lattice":
            pts, D, cmp_, sub = payload
            n = len(pts[0])
            tags = TAGS[:n]
            locs = [{tags[a]: F(v, D) for a, v in enumerate(p) if v != 0 or rng.random() < 0.2} for p in pts]
            rng.shuffle(locs)
            out = [model_trace(locs, tags, rng, cmp_=cmp_, PD=2 * D)]
            if sub and len(locs) >= 3:
                origin = [i for i, l in enumerate(locs) if not any(l.values())][0]
                mask = [i == origin or rng.random() < 0.6 for i in range(len(locs))]
                if not all(mask):
                    out.append(model_trace(locs, tags, rng, cmp_=cmp_, PD=2 * D, submask=mask))
            return out
        if kind == "designspace":
            return [designspace_trace(payload, rng)]
    except Unrecoverable as e:
        return [{"k": "inexact", "of": {"k": "model", "case": repr(payload)[:400]}, "what": "VariationModel output %s is not a lattice rational" % e}]
    except TooBig:
        return [{"k": "skip", "why": "value beyond 31 bits"}]
    raise MachineryError("unknown model case " + kind)


def designspace_trace(path, rng):
    from fontTools.designspaceLib import DesignSpaceDocument
    from fontTools.varLib import models

    try:
        doc = DesignSpaceDocument.fromfile(path)
        axes = [a for a in doc.axes if hasattr(a, "minimum")]
        if not axes or not doc.sources:
            return {"k": "skip", "why": "designspace without continuous axes or sources"}

        def fr(v):
            return F(v).limit_denominator(1 << 12)

        triples = {}
        for a in axes:
            tri = [fr(a.map_forward(v)) for v in (a.minimum, a.default, a.maximum)]
            if not (tri[0] <= tri[1] <= tri[2]):
                return {"k": "skip", "why": "designspace axis map not monotone"}
            triples[a.name] = tuple(tri)
        locs = []
        for s in doc.sources:
            full = {a.name: fr(s.location.get(a.name, a.map_forward(a.default))) for a in axes}
            loc = models.normalizeLocation(full, triples)
            locs.append({k: (v if isinstance(v, F) else F(v)) for k, v in loc.items() if v != 0})
        keys = [tuple(sorted(l.items())) for l in locs]
        if len(set(keys)) != len(keys) or () not in keys:
            return {"k": "skip", "why": "designspace sources not distinct / no default source (discrete axes, layers)"}
        tags = [a.name for a in axes]
    except Exception as e:
        return {"k": "skip", "why": "designspace unreadable: %s" % type(e).__name__}
    if len(tags) > 6 or len(locs) > 24:
        return {"k": "skip", "why": "designspace too large for the quick judge"}
    try:
        return model_trace(locs, tags, rng, eps=(1, 1 << 20), limit=1 << 20, tol=1e-12, nprobes=4, PD=4,
                           label=common.rel(path))
    except Unrecoverable:
        return {"k": "skip", "why": "corpus model output not recoverable as a rational of denominator <= 2^20"}


# --------------------------------------------------------------------------------------
# IUP
# --------------------------------------------------------------------------------------
def delta_json(d):
    return [] if d is None else [int(d[0]), int(d[1])]


def run_iup(case):
    from fontTools.varLib import iup
    from fontTools.ttLib.tables.TupleVariation import TupleVariation

    kind, coords, ends, deltas, tol = case
    base = {"coords": [list(c) for c in coords], "ends": list(ends)}
    try:
        if kind == "iup":
            fd = [None if d is None else (F(d[0]), F(d[1])) for d in deltas]
            fc = [(F(x), F(y)) for x, y in coords]
            out = iup.iup_delta(fd, fc, list(ends))
            return dict(base, k="iup", deltas=[delta_json(d) for d in deltas], out=[[rat(d[0]), rat(d[1])] for d in out])
        if kind == "iupopt":
            opt = iup.iup_delta_optimize([tuple(d) for d in deltas], [tuple(c) for c in coords], list(ends), tolerance=float(tol))
            return dict(base, k="iupopt", deltas=[delta_json(d) for d in deltas], opt=[delta_json(d) for d in opt], tol=rat(tol))
        if kind == "tvopt":
            axes = {"wght": (0.0, 1.0, 1.0)}
            tv = TupleVariation(axes, [tuple(d) for d in deltas])
            full = TupleVariation(axes, [tuple(d) for d in deltas])
            tv.optimize([tuple(c) for c in coords], list(ends), tolerance=float(tol))
            a, b = full.compile(["wght"])
            c, d = tv.compile(["wght"])
            return dict(base, k="tvopt", deltas=[delta_json(x) for x in deltas], opt=[delta_json(x) for x in tv.coordinates],
                        tol=rat(tol), lenfull=len(a) + len(b), lenopt=len(c) + len(d))
    except Unrecoverable as e:
        return {"k": "inexact", "of": dict(base, k=kind), "what": "%s output %s is not a lattice rational" % (kind, e)}
    except Exception as e:
        return {"k": "exc", "of": dict(base, k=kind, deltas=[delta_json(x) for x in deltas], tol=str(tol)),
                "what": "%s raised %s: %s" % (kind, type(e).__name__, e)}
    raise MachineryError("unknown iup case " + kind)


def random_glyph(rng, big=False):
    nc = rng.choice([1, 1, 1, 2, 3]) if not big else rng.randint(1, 4)
    span = rng.choice([2, 3, 4, 6]) if not big else rng.choice([10, 50, 300])
    dm = rng.choice([1, 2, 3]) if not big else rng.choice([3, 20, 100])
    coords, ends, deltas = [], [], []
    for _ in range(nc):
        n = rng.choice([1, 2, 3, 3, 4, 4, 5, 6, 7]) if not big else rng.randint(3, 14)
        style = rng.random()
        for i in range(n):
            coords.append((rng.randint(0, span), rng.randint(0, span)))
            if style < 0.25:  # smooth field: mostly inferable
                deltas.append((coords[-1][0] // 2, -coords[-1][1] // 2))
            elif style < 0.4:
                deltas.append((dm, -dm))
            else:
                deltas.append((rng.randint(-dm, dm), rng.randint(-dm, dm)))
        ends.append(len(coords) - 1)
    for _ in range(4):
        coords.append((rng.randint(0, span), rng.randint(0, span)))
        deltas.append((rng.choice([0, 0, 1, -2]), rng.choice([0, 0, 3])))
    return coords, ends, deltas


def iup_cases(rng, tier):
    cases = []
    N = 1500 if tier == "quick" else 12000
    for i in range(N):
        coords, ends, deltas = random_glyph(rng, big=(i % 5 == 4))
        mask = [rng.random() < rng.choice([0.2, 0.5, 0.8]) for _ in deltas]
        cases.append(("iup", coords, ends, [d if m else None for d, m in zip(deltas, mask)], 0))
        tol = rng.choice([F(0), F(1, 2), F(1), F(1, 2)])
        cases.append(("iupopt", coords, ends, deltas, tol))
        if i % 2 == 0:
            cases.append(("tvopt", coords, ends, deltas, rng.choice([F(0), F(1, 2), F(1)])))
    # every 3-point contour over a tiny lattice with every mask (one coordinate varied, the other mirrored)
    for xs in itertools.product(range(3), repeat=3):
        for ds in itertools.product((-1, 0, 1), repeat=3):
            coords = [(x, 2 - x) for x in xs] + [(0, 0)] * 4
            deltas = [(d, -d) for d in ds] + [(0, 0)] * 4
            m = rng.randrange(8)
            cases.append(("iup", coords, [2], [deltas[i] if (i > 2 or (m >> i) & 1) else None for i in range(7)], 0))
            cases.append(("iupopt", coords, [2], deltas, rng.choice([F(0), F(1, 2), F(1)])))
    return cases


# --------------------------------------------------------------------------------------
# item variation stores
# --------------------------------------------------------------------------------------
class _Axis:
    def __init__(self, tag):
        self.axisTag = tag


def store_json(store):
    regions = []
    for reg in store.VarRegionList.Region:
        regions.append([[rat(F(ax.StartCoord)), rat(F(ax.PeakCoord)), rat(F(ax.EndCoord))] for ax in reg.VarRegionAxis])
    data = []
    for vd in store.VarData:
        data.append({"ri": [int(i) for i in vd.VarRegionIndex], "items": [[int(v) for v in row] for row in vd.Item]})
    return {"regions": regions, "data": data}


def store_from_json(js):
    from fontTools.varLib import builder
    from fontTools.ttLib.tables import otTables as ot

    regs = []
    naxes = len(js["regions"][0]) if js["regions"] else 1
    tags = TAGS[:naxes]
    for reg in js["regions"]:
        regs.append({tags[a]: tuple(float(F(*v)) for v in t) for a, t in enumerate(reg)})
    rl = builder.buildVarRegionList(regs, tags)
    vds = [builder.buildVarData(d["ri"], d["items"], optimize=False) for d in js["data"]]
    return builder.buildVarStore(rl, vds), tags


def all_idx(js):
    return [[d, i] for d, vd in enumerate(js["data"]) for i in range(len(vd["items"]))]


def idx_pair(v):
    return [v >> 16, v & 0xFFFF]


def lattice_locs(rng, naxes, k, D=4, extra=()):
    locs = [[[0, 1]] * naxes]
    for _ in range(k):
        locs.append([rat(F(rng.choice([0] + list(range(-D, D + 1))), D)) for _ in range(naxes)])
    for e in extra:
        locs.append(e)
    return locs


def fixed(x, scale=1 << 14):
    """float -> fixed point [round(x * scale), scale, 1]; TLC allows one unit of slack"""
    v = round(float(x) * scale)
    if abs(v) >= MAXI:
        raise TooBig(repr(x))
    return [v, scale, 1]


def store_ops(store, tags, rng, nlocs=6, src=None, extra_locs=(), exact=True):
    """All operations on one real VarStore -> list of traces."""
    from fontTools.varLib import varStore

    out = []
    naxes = len(tags)
    before = store_json(store)
    axes = [_Axis(t) for t in tags]
    locs = lattice_locs(rng, naxes, nlocs, extra=extra_locs)
    need = all_idx(before)
    base = {"k": "store", "before": before, "locs": locs}
    if src:
        base["src"] = src
    # VarStoreInstancer
    inst = varStore.VarStoreInstancer(store, axes)
    vals = []
    sample = need if len(need) <= 40 else rng.sample(need, 40)
    for li, loc in enumerate(locs):
        inst.setLocation({t: float(F(*v)) for t, v in zip(tags, loc)})
        for d, i in sample:
            v = inst[(d << 16) + i]
            vals.append([d, i, li, rat(v) if exact else fixed(v)])
    vals.append([0xFFFF, 0xFFFF, 0, rat(inst[0xFFFFFFFF])])
    out.append(dict(base, op="eval", after=before, map=[], need=[], vals=vals))
    if len(need) > 400:
        keep_need = rng.sample(need, 400)
    else:
        keep_need = need
    # optimize
    for use_no in (True, False):
        st = copy.deepcopy(store)
        m = st.optimize(use_NO_VARIATION_INDEX=use_no)
        mp = [[d, i] + idx_pair(m[(d << 16) + i]) for d, i in keep_need if ((d << 16) + i) in m]
        out.append(dict(base, op="optimize", after=store_json(st), map=mp, need=keep_need, noidx=use_no))
    # prune_regions after dropping one VarData
    st = copy.deepcopy(store)
    if len(st.VarData) > 1 and rng.random() < 0.7:
        drop = rng.randrange(len(st.VarData))
        del st.VarData[drop]
        st.VarDataCount = len(st.VarData)
        st0 = store_json(st)
        st.prune_regions()
        nd = all_idx(st0)
        nd = nd if len(nd) <= 400 else rng.sample(nd, 400)
        out.append({"k": "store", "before": st0, "locs": locs, "op": "prune", "after": store_json(st),
                    "map": [v + v for v in nd], "need": nd})
    else:
        st.prune_regions()
        out.append(dict(base, op="prune", after=store_json(st), map=[v + v for v in keep_need], need=keep_need))
    # subset_varidxes
    for retain in ((False, True) if need else ()):
        st = copy.deepcopy(store)
        k = rng.randint(1, max(1, len(need)))
        keep = rng.sample(need, min(k, 300))
        adv = set()
        if rng.random() < 0.5:
            adv = {i for d, i in keep if d == 0 and rng.random() < 0.5}
        m = st.subset_varidxes({(d << 16) + i for d, i in keep} | ({0xFFFFFFFF} if rng.random() < 0.3 else set()),
                               optimize=rng.random() < 0.7, retainFirstMap=retain, advIdxes=adv)
        mp = [[d, i] + idx_pair(m[(d << 16) + i]) for d, i in keep if ((d << 16) + i) in m]
        out.append(dict(base, op="subset", after=store_json(st), map=mp, need=keep, retain=retain))
    return out


def run_store(case):
    from fontTools.varLib import models, varStore

    kind, payload, seed = case
    rng = random.Random(seed)
    try:
        if kind == "random":
            naxes = rng.choice([1, 1, 2, 2, 3])
            tags = TAGS[:naxes]
            D = 2
            b = varStore.OnlineVarStoreBuilder(tags)
            rows = []
            builds = []
            for _m in range(rng.randint(1, 3)):
                pts = set()
                for _ in range(rng.randint(1, 4)):
                    p = tuple(rng.choice([0, 0] + list(range(-D, D + 1))) for _ in range(naxes))
                    if any(p):
                        pts.add(p)
                locs = [{}] + [{tags[a]: F(v, D) for a, v in enumerate(p) if v} for p in sorted(pts)]
                model = models.VariationModel(locs, axisOrder=tags)
                b.setModel(model)
                sups = [region_json(s, tags) for s in model.supports[1:]]
                these = []
                for _i in range(rng.randint(1, 5)):
                    mag = rng.choice([1, 3, 100, 100, 200, 40000])
                    ds = [rng.choice([0, 0, rng.randint(-mag, mag)]) for _ in sups]
                    if rng.random() < 0.5:
                        vi = b.storeDeltas([0] + ds if rng.random() < 0.5 else ds)
                    else:  # through the model: master values -> deltas
                        vals = [rng.randint(-300, 300) for _ in locs]
                        _base, vi = b.storeMasters(vals)
                        ds = [int(x) for x in [round(d) for d in model.getDeltas(vals, round=round)][1:]]
                    these.append({"idx": idx_pair(vi), "deltas": ds})
                builds.append((sups, these))
            store = b.finish(optimize=rng.random() < 0.5)
            js = store_json(store)
            out = []
            locs = lattice_locs(rng, naxes, 6, D=4)
            for sups, these in builds:
                if sups:
                    out.append({"k": "store", "op": "build", "before": js, "after": js, "locs": locs, "map": [], "need": [],
                                "sups": sups, "rows": these})
            out += store_ops(store, tags, rng)
            return out
        if kind == "font":
            return font_store_traces(payload, rng)
        if kind == "multi":
            return multi_store_traces(seed)
    except Unrecoverable as e:
        return [{"k": "inexact", "of": {"k": "store", "case": repr(payload)[:200]}, "what": "store output %s is not a lattice rational" % e}]
    except TooBig:
        return [{"k": "skip", "why": "value beyond 31 bits"}]
    raise MachineryError("unknown store case " + kind)


# --------------------------------------------------------------------------------------
# MultiVarStore (VARC): a store of vector items over sparse regions.  It is marshalled as an
# item store with one row per vector component (pure restructuring), then judged as above.
# --------------------------------------------------------------------------------------
def multi_store_json(store, naxes):
    regions = []
    for reg in store.SparseVarRegionList.Region:
        dense_reg = [[[0, 1], [0, 1], [0, 1]] for _ in range(naxes)]
        for ax in reg.SparseVarRegionAxis:
            dense_reg[ax.AxisIndex] = [rat(F(ax.StartCoord)), rat(F(ax.PeakCoord)), rat(F(ax.EndCoord))]
        regions.append(dense_reg)
    data, base, width = [], [], []
    for vd in store.MultiVarData:
        nreg = len(vd.VarRegionIndex)
        rows, b, w = [], [], []
        for values in vd.Item:
            m = len(values) // nreg if nreg else 0
            b.append(len(rows))
            w.append(m)
            for c in range(m):
                rows.append([int(values[k * m + c]) for k in range(nreg)])
        data.append({"ri": [int(i) for i in vd.VarRegionIndex], "items": rows})
        base.append(b)
        width.append(w)
    return {"regions": regions, "data": data}, base, width


def multi_store_traces(seed):
    from fontTools.misc.vector import Vector
    from fontTools.varLib import models, multiVarStore

    rng = random.Random(seed)
    naxes = rng.choice([1, 2, 3])
    tags = TAGS[:naxes]
    D = 2
    b = multiVarStore.OnlineMultiVarStoreBuilder(tags)
    builds = []
    for _m in range(rng.randint(1, 2)):
        pts = set()
        for _ in range(rng.randint(1, 3)):
            p = tuple(rng.choice([0, 0] + list(range(-D, D + 1))) for _ in range(naxes))
            if any(p):
                pts.add(p)
        if not pts:
            continue
        locs = [{}] + [{tags[a]: F(v, D) for a, v in enumerate(p) if v} for p in sorted(pts)]
        model = models.VariationModel(locs, axisOrder=tags)
        b.setModel(model)
        sups = [region_json(s, tags) for s in model.supports[1:]]
        these = []
        for _i in range(rng.randint(1, 4)):
            m = rng.randint(1, 3)
            if rng.random() < 0.5:
                vecs = [Vector([rng.choice([0, rng.randint(-300, 300)]) for _ in range(m)]) for _ in sups]
                vi = b.storeDeltas(vecs)
            else:
                vals = [Vector([rng.randint(-300, 300) for _ in range(m)]) for _ in locs]
                _base, vi = b.storeMasters(vals)
                vecs = [round(d) for d in model.getDeltas(vals, round=round)][1:]
            if vi != 0xFFFFFFFF:
                these.append((vi, [[int(x) for x in v] for v in vecs]))
        builds.append((sups, these))
    store = b.finish()
    if not store.MultiVarData:
        return []
    js, base, width = multi_store_json(store, naxes)
    locs = lattice_locs(rng, naxes, 5, D=4)
    out = []
    for sups, these in builds:
        rows = []
        for vi, vecs in these:
            d, i = vi >> 16, vi & 0xFFFF
            for c in range(width[d][i]):
                rows.append({"idx": [d, base[d][i] + c], "deltas": [v[c] for v in vecs]})
        if rows:
            out.append({"k": "store", "op": "build", "src": "multi", "before": js, "after": js, "locs": locs, "map": [], "need": [],
                        "sups": sups, "rows": rows})
    inst = multiVarStore.MultiVarStoreInstancer(store, [_Axis(t) for t in tags])
    vals = []
    items = [(d, i) for d in range(len(base)) for i in range(len(base[d]))]
    for li, loc in enumerate(locs):
        inst.setLocation({t: float(F(*v)) for t, v in zip(tags, loc)})
        for d, i in items:
            vec = inst[(d << 16) + i]
            if len(vec) != width[d][i]:
                vals.append([d, base[d][i], li, [12345, 1]])   # wrong arity: let the judge see a wrong value
                continue
            for c in range(width[d][i]):
                vals.append([d, base[d][i] + c, li, rat(vec[c])])
    out.append({"k": "store", "op": "eval", "src": "multi", "before": js, "after": js, "locs": locs, "map": [], "need": [], "vals": vals})
    st = copy.deepcopy(store)
    keep = rng.sample(items, rng.randint(1, len(items)))
    m = st.subset_varidxes({(d << 16) + i for d, i in keep})
    js2, base2, width2 = multi_store_json(st, naxes)
    mp, need = [], []
    for d, i in keep:
        key = (d << 16) + i
        for c in range(width[d][i]):
            need.append([d, base[d][i] + c])
            if key in m:
                d2, i2 = m[key] >> 16, m[key] & 0xFFFF
                ok = d2 < len(base2) and i2 < len(base2[d2]) and width2[d2][i2] == width[d][i]
                mp.append([d, base[d][i] + c] + ([d2, base2[d2][i2] + c] if ok else [d2, 60000]))
    out.append({"k": "store", "op": "subset", "src": "multi", "before": js, "after": js2, "locs": locs, "map": mp, "need": need})
    return out


def load_font(path):
    from fontTools.ttLib import TTFont

    if path.endswith(".ttx"):
        f = TTFont()
        f.importXML(path)
        return f
    return TTFont(path, fontNumber=0) if path.endswith((".ttc", ".otc")) else TTFont(path)


def font_store_traces(path, rng):
    out = []
    try:
        font = load_font(path)
        if "fvar" not in font:
            return []
        tags = [a.axisTag for a in font["fvar"].axes]
    except Exception as e:
        return [{"k": "skip", "why": "corpus font unreadable: %s" % type(e).__name__}]
    for tag in ("HVAR", "VVAR", "MVAR", "GDEF", "BASE", "COLR"):
        if tag not in font:
            continue
        try:
            table = font[tag].table
            store = getattr(table, "VarStore", None)
        except Exception:
            out.append({"k": "skip", "why": "corpus table undecodable"})
            continue
        if store is None or not getattr(store, "VarData", None) or store.Format != 1:
            continue
        if len(tags) > 6:
            out.append({"k": "skip", "why": "more than 6 axes"})
            continue
        # evaluate also at region peaks / half way to them
        extra = []
        regs = store.VarRegionList.Region
        for reg in (regs if len(regs) <= 6 else rng.sample(regs, 6)):
            extra.append([rat(F(ax.PeakCoord)) for ax in reg.VarRegionAxis])
            extra.append([rat(F(ax.PeakCoord) / 2) for ax in reg.VarRegionAxis])
        try:
            out += store_ops(copy.deepcopy(store), tags, rng, nlocs=5, src="%s:%s" % (common.rel(path), tag), extra_locs=extra, exact=False)
        except TooBig:
            out.append({"k": "skip", "why": "value beyond 31 bits"})
    return out


# --------------------------------------------------------------------------------------
# corpus gvar glyphs
# --------------------------------------------------------------------------------------
def run_gvar(case):
    from fontTools.misc.roundTools import otRound
    from fontTools.varLib import iup
    from fontTools.ttLib.tables.TupleVariation import TupleVariation

    path, seed, maxglyphs = case
    rng = random.Random(seed)
    out = []
    try:
        font = load_font(path)
        if "gvar" not in font or "glyf" not in font:
            return []
        glyf = font["glyf"]
        gvar = font["gvar"]
        hm = font["hmtx"].metrics
        vm = font["vmtx"].metrics if "vmtx" in font else None
        names = [g for g in font.getGlyphOrder() if gvar.variations.get(g)]
    except Exception as e:
        return [{"k": "skip", "why": "corpus font unreadable: %s" % type(e).__name__}]
    if len(names) > maxglyphs:
        names = sorted(rng.sample(names, maxglyphs))
    for name in names:
        try:
            coords, ctrl = glyf._getCoordinatesAndControls(name, hm, vm)
        except Exception:
            out.append({"k": "skip", "why": "glyph coordinates unavailable"})
            continue
        pts = [(int(x), int(y)) for x, y in coords]
        ends = list(ctrl.endPts)
        if len(pts) > 160:
            out.append({"k": "skip", "why": "glyph with more than 160 points (quick judge)"})
            continue
        src = "%s:%s" % (common.rel(path), name)
        for tv in gvar.variations[name][:3]:
            deltas = list(tv.coordinates)
            if len(deltas) != len(pts):
                out.append({"k": "skip", "why": "gvar tuple length differs from glyph"})
                continue
            try:
                if None in deltas:
                    inf = iup.iup_delta(deltas, pts, ends)
                    out.append({"k": "iup", "coords": [list(p) for p in pts], "ends": ends, "src": src,
                                "deltas": [delta_json(d) for d in deltas],
                                "out": [[rat(d[0], limit=1 << 14), rat(d[1], limit=1 << 14)] for d in inf]})
                else:
                    inf = deltas
                full = [(otRound(d[0]), otRound(d[1])) for d in inf]
                tol = F(1, 2)
                opt = iup.iup_delta_optimize(full, pts, ends, tolerance=0.5)
                out.append({"k": "iupopt", "coords": [list(p) for p in pts], "ends": ends, "src": src,
                            "deltas": [delta_json(d) for d in full], "opt": [delta_json(d) for d in opt], "tol": rat(tol)})
                t2 = TupleVariation(dict(tv.axes), list(full))
                t1 = TupleVariation(dict(tv.axes), list(full))
                t2.optimize(pts, ends, tolerance=0.5)
                tags = sorted(tv.axes)
                a, b = t1.compile(tags)
                c, d = t2.compile(tags)
                out.append({"k": "tvopt", "coords": [list(p) for p in pts], "ends": ends, "src": src,
                            "deltas": [delta_json(x) for x in full], "opt": [delta_json(x) for x in t2.coordinates],
                            "tol": rat(tol), "lenfull": len(a) + len(b), "lenopt": len(c) + len(d)})
            except Unrecoverable:
                out.append({"k": "skip", "why": "corpus iup output not recoverable"})
            except TooBig:
                out.append({"k": "skip", "why": "value beyond 31 bits"})
    return out


# --------------------------------------------------------------------------------------
# driver
# --------------------------------------------------------------------------------------
def _work(task):
    kind, payload = task
    if kind == "tent":
        return [run_tent(c) for c in payload]
    if kind == "scalar":
        return [run_scalar(c) for c in payload]
    if kind == "model":
        out = []
        for c in payload:
            out += run_model(c)
        return out
    if kind == "iup":
        return [run_iup(c) for c in payload]
    if kind == "store":
        out = []
        for c in payload:
            out += run_store(c)
        return out
    if kind == "gvar":
        return run_gvar(payload)
    raise MachineryError("unknown task " + kind)


def chunks(lst, n):
    return [lst[i:i + n] for i in range(0, len(lst), n)]


def variable_corpus():
    fonts = []
    for p in common.corpus_fonts():
        try:
            with open(p, "rb") as f:
                blob = f.read()
            if b"fvar" in blob[:4096]:
                fonts.append(p)
        except OSError:
            pass
    for p in common.corpus_files(".ttx"):
        try:
            with open(p, "rb") as f:
                head = f.read(400000)
            if b"<fvar>" in head and (b"<gvar>" in head or b"VarStore" in head or b"<HVAR>" in head):
                fonts.append(p)
        except OSError:
            pass
    return sorted(set(fonts))


def build_tasks(chk):
    """every task that does not depend on TLC's generated master sets"""
    rng = chk.rng
    tier = chk.tier
    tasks = []
    tc = tent_cases(rng, tier)
    tasks += [("tent", c) for c in chunks(tc, 1500)]
    tasks += [("scalar", c) for c in chunks(scalar_cases(rng, tier), 400)]
    # seeded master sets in 3 and 4 axes (the 1- and 2-axis lattices come from TLC), corpus designspaces
    mcases = []
    for _ in range(4000 if tier == "thorough" else 250):
        n = rng.choice([3, 3, 4])
        D = rng.choice([2, 2, 4])
        k = rng.randint(2, 7)
        pts = {tuple([0] * n)}
        while len(pts) < k + 1:
            style = rng.random()
            if style < 0.4:  # on-axis
                a = rng.randrange(n)
                p = [0] * n
                p[a] = rng.choice([v for v in range(-D, D + 1) if v])
            elif style < 0.8:  # sparse off-axis
                p = [rng.choice([0, 0] + list(range(-D, D + 1))) for _ in range(n)]
            else:  # corner
                p = [rng.choice([-D, D, 0]) for _ in range(n)]
            pts.add(tuple(p))
        mcases.append(("lattice", (sorted(pts), D, rng.random() < 0.3, rng.random() < 0.4), rng.getrandbits(48)))
    for p in common.corpus_files(".designspace"):
        mcases.append(("designspace", p, rng.getrandbits(48)))
    tasks += [("model", c) for c in chunks(mcases, 40)]
    tasks += [("iup", c) for c in chunks(iup_cases(rng, tier), 600)]
    scases = [("random", None, rng.getrandbits(48)) for _ in range(2500 if tier == "thorough" else 200)]
    scases += [("multi", None, rng.getrandbits(48)) for _ in range(600 if tier == "thorough" else 80)]
    fonts = variable_corpus()
    scases += [("font", p, rng.getrandbits(48)) for p in fonts]
    tasks += [("store", c) for c in chunks(scases, 12)]
    for p in fonts:
        tasks.append(("gvar", (p, rng.getrandbits(48), 400 if tier == "thorough" else 25)))
    return tasks, {"tent_cases": len(tc), "seeded_and_corpus_model_cases": len(mcases), "variable_corpus_fonts": len(fonts),
                   "designspaces": len(common.corpus_files(".designspace"))}


def gen_model_tasks(chk, gen_sets):
    rng = chk.rng
    mcases = []
    for pts, D in gen_sets:
        mcases.append(("lattice", (pts, D, rng.random() < (1.0 if chk.tier == "thorough" else 0.1), rng.random() < 0.15),
                       rng.getrandbits(48)))
    return [("model", c) for c in chunks(mcases, 60)]


def run_models_mc(chk):
    """(M) runs (concurrently: they are independent); returns the TLC-generated master sets."""
    from concurrent.futures import ThreadPoolExecutor

    tier = chk.tier
    quick = tier == "quick"
    jobs = [("MC_Rat", "MC_Rat"),
            ("MC_Tent", "MC_Tent" if quick else "MC_Tent_thorough"),
            ("MC_Model", "MC_Model1"),
            ("MC_Model", "MC_Model2" if quick else "MC_Model2_thorough"),
            ("MC_IUP", "MC_IUP" if quick else "MC_IUP_thorough"),
            ("MC_VarStore", "MC_VarStore" if quick else "MC_VarStore_thorough")]
    if not quick:
        jobs.append(("MC_VarStore", "MC_VarStore_vals"))

    def one(job):
        k, (mod, cfg) = job
        time.sleep(0.4 * k)  # chk.tlc numbers its scratch directories at entry
        return chk.tlc(mod, cfg=cfg, label=cfg, timeout=2400, workers=8)

    with ThreadPoolExecutor(len(jobs)) as ex:
        res = dict(zip([c for _, c in jobs], ex.map(one, enumerate(jobs))))
    notes = {}
    for cfg, r in res.items():
        chk.log("%s: %d states in %.0fs" % (cfg, r.distinct, r.wall))
    r = res[jobs[1][1]]
    cases = sorted({p[0] for p in r.prints.get("CASE", [])})
    want = {"mirror", "1", "2", "3a1", "3a2", "4", "4-peak-at-max", "1neg", "2neg"}
    if set(cases) != want:
        raise MachineryError("MC_Tent: cases of the analysis not all exercised: %s" % sorted(want - set(cases)))
    notes["MC_Tent_cases_fired"] = cases
    gen = []
    masks = 0
    for cfg in (jobs[2][1], jobs[3][1]):
        D = 4 if cfg == "MC_Model1" else 2
        for p in res[cfg].prints.get("GEN", []):
            gen.append((sorted(tuple(x) for x in json.loads(p[0])), D))
            masks |= p[1]
    if masks & 0b110111 != 0b110111:
        raise MachineryError("MC_Model: box-splitting branches not all exercised (mask %d)" % masks)
    notes["MC_Model_branch_mask"] = masks
    cases = sorted({p[0] for p in res[jobs[4][1]].prints.get("CASE", [])})
    want = {"no-reference", "explicit", "single-reference", "wrap-around", "same-coord-same-delta",
            "same-coord-diff-delta", "at-or-below-lower", "at-or-above-upper", "between"}
    if set(cases) != want:
        raise MachineryError("MC_IUP: cases not all exercised: %s" % sorted(want - set(cases)))
    notes["MC_IUP_cases_fired"] = cases
    if tier == "thorough":
        # TLC's own expression coverage of the semantic modules on the small configurations
        zero = {}
        for mod, cfg in (("MC_Tent", "MC_Tent"), ("MC_IUP", "MC_IUP"), ("MC_Model", "MC_Model1")):
            r = chk.tlc(mod, cfg=cfg, coverage=True, label=cfg + "-coverage", timeout=1500)
            zero[cfg] = coverage_zero_lines(r.stdout, ("Tent", "IUP", "Model", "VarSem"))
        notes["tlc_coverage_zero_count_expressions"] = zero
    chk.notes.update(notes)
    return gen


def coverage_zero_lines(stdout, modules):
    import re

    out = set()
    for line in stdout.splitlines():
        m = re.search(r"line (\d+), col (\d+) to line (\d+), col (\d+) of module (\w+): (\d+)\s*$", line)
        if m and m.group(5) in modules and int(m.group(6)) == 0:
            out.add("%s:%s" % (m.group(5), m.group(1)))
    return sorted(out)


def describe(t):
    d = {}
    for k, v in t.items():
        s = json.dumps(v, default=repr)
        d[k] = v if len(s) <= 300 else s[:300] + "..."
    return d


def nontrivial_key(t):
    k = t["k"]
    if k == "tent":
        return ("tent", tuple(t["t"]), tuple(t["l"]), t["D"]) if len(t["sols"]) >= 2 else None
    if k == "model":
        return ("model", common.digest(t["inl"])) if len(t["inl"]) >= 3 else None
    if k == "store":
        return ("store", t["op"], common.digest([t["before"], t.get("map")])) if t["before"]["data"] else None
    if k in ("iup", "iupopt", "tvopt"):
        key = t.get("opt", t.get("deltas"))
        return (k, common.digest([t["coords"], t["deltas"], t.get("tol")])) if any(len(d) == 0 for d in key) else None
    if k in ("scalar", "norm", "pwl"):
        return (k, common.digest(t))
    return None


def judge_and_report(chk, traces):
    direct = [t for t in traces if t["k"] in ("exc", "inexact")]
    skips = [t for t in traces if t["k"] == "skip"]
    real = [t for t in traces if t["k"] not in ("exc", "inexact", "skip")]
    for t in skips:
        chk.skip(t["why"])
    for t in direct:
        of = t["of"]
        key = "%s:%s" % (of.get("k", "?"), "exception" if t["k"] == "exc" else "float-recovery")
        chk.reject(key, t["what"], of)
    chk.count(len(real))
    kinds = {}
    for t in real:
        kk = t["k"] + (":" + t["op"] if t["k"] == "store" else "")
        kinds[kk] = kinds.get(kk, 0) + 1
        nk = nontrivial_key(t)
        if nk is not None:
            chk.nontriv(nk)
    chk.notes["cases_per_kind"] = kinds
    seen = set()
    for t in real:
        kk = t["k"] + (":" + t["op"] if t["k"] == "store" else "")
        if kk not in seen and nontrivial_key(t) is not None:
            seen.add(kk)
            chk.sample(describe(t), limit=12)
    # two interleaved halves judged by two concurrent TLC runs (initial states are parsed on one thread each)
    if len(real) > 4000:
        from concurrent.futures import ThreadPoolExecutor

        def half(k):
            time.sleep(0.5 * k)
            return chk.judge("Trace_C09", real[k::2], chunk=45000, timeout=3000, workers=8)

        with ThreadPoolExecutor(2) as ex:
            rej = [x for part in ex.map(half, (0, 1)) for x in part]
    else:
        rej = chk.judge("Trace_C09", real, chunk=45000, timeout=2400, workers=16)
    notes = {}
    nskip = 0
    for t, clause in rej:
        c = clause[0] if clause else "?"
        if c.startswith("skip:"):
            chk.skip(c[5:] + " (" + t["k"] + ")")
            nskip += 1
        elif c.startswith("note:"):
            notes[c] = notes.get(c, 0) + 1
            chk.traces_validated += 1
        elif c.startswith("malformed:"):
            raise MachineryError("trace rejected as malformed (%s): %s" % (c, json.dumps(describe(t))[:600]))
        else:
            chk.reject(c, "%s on %s" % (c, json.dumps(describe(t), default=repr)[:700]), t)
    if notes:
        chk.notes["refactoring_notes"] = notes
    return rej


def run(chk):
    import multiprocessing as mp

    chk.rule = ("one case = one call of a real varLib function on exact inputs (tent x axis limit; region x locations; "
                "master set -> VariationModel with two value vectors and probe locations; contour set x delta vector x "
                "tolerance; variation store x rewrite), judged by TLC on the function's output; non-trivial = tent with >= 2 "
                "solutions, model with >= 3 masters, store with data, IUP case with at least one inferred point")
    t0 = time.time()
    tasks, sizes = build_tasks(chk)
    chk.notes.update(sizes)
    ctx = mp.get_context("fork")
    with ctx.Pool(12) as pool:
        # the real code is driven in worker processes while TLC runs the (M) configurations;
        # the master sets TLC generates there are replayed afterwards
        pending = pool.map_async(_work, tasks, 1)
        gen = run_models_mc(chk)
        chk.log("(M) done in %.0fs; %d TLC-generated master sets" % (time.time() - t0, len(gen)))
        results = pending.get()
        results += pool.map(_work, gen_model_tasks(chk, gen), 1)
    chk.notes["tlc_generated_master_sets"] = len(gen)
    traces = [t for r in results for t in r]
    chk.log("drove the real code: %d traces in %.0fs" % (len(traces), time.time() - t0))
    judge_and_report(chk, traces)
    chk.exhaustive = False
    chk.notes["exhaustive_parts"] = (
        "all well-formed tents x axis limits of the quarter lattice (pre-normalisation distances (1,1); all three "
        "distance pairs in the thorough tier) at every eighth-lattice point of the new range; every master set generated "
        "by MC_Model (1 axis: <= 4 masters on the quarter lattice; 2 axes: <= 3 (quick) / 4 (thorough) masters on the half lattice); "
        "supportScalar on every start/peak/end triple of the quarter lattice")
    chk.assumptions += [
        "float outputs are recovered as the nearest rational with denominator <= 2^16 (2^20 for corpus inputs); exact because "
        "lattice inputs bound the true denominators (DESIGN section 2); a residual >= 1e-9 is reported",
        "iup_delta_optimize decides with float hypot; on integer coordinates |x| < 2^11 the smallest non-zero gap to the "
        "tolerance exceeds float error, so TLC compares exactly",
        "cases whose exact evaluation would exceed 31-bit integers are skipped and counted (skip:overflow)",
        "an index outside a store evaluates to 0 (fontTools / HarfBuzz policy; OpenType leaves it undefined)",
        "MultiVarStore (vector items, sparse regions) is judged as an item store with one row per vector component",
    ]


def replay(chk, rep):
    t = rep["replay"]
    chk.rule = "replay of one recorded case"
    fresh = None
    try:
        k = t.get("k")
        if k == "tent":
            fresh = run_tent((tuple(t["t"]), tuple(t["l"]), t["D"], t["P"], False))
        elif k in ("iup", "iupopt", "tvopt"):
            deltas = [None if len(d) == 0 else tuple(d) for d in t["deltas"]]
            tol = F(*t["tol"]) if "tol" in t else 0
            fresh = run_iup((k, [tuple(c) for c in t["coords"]], t["ends"], deltas, tol))
        elif k == "model":
            tags = TAGS[: t["n"]] if t["n"] <= len(TAGS) else ["ax%d" % i for i in range(t["n"])]
            locs = [{tags[a]: F(*v) for a, v in enumerate(l) if v[0] != 0} for l in t["inl"]]
            fresh = model_trace(locs, tags, random.Random(0), eps=tuple(t["eps"]), limit=1 << 20 if t["eps"][0] else 1 << 16)
        elif k == "store" and t["op"] != "build":
            store, tags = store_from_json(t["before"])
            ts = store_ops(store, tags, random.Random(0))
            fresh = [x for x in ts if x["op"] == t["op"]]
    except Exception as e:
        chk.log("could not re-run the case against the current tree (%s); re-judging the recording" % e)
    fresh = fresh if isinstance(fresh, list) else [fresh] if fresh else []
    if fresh:
        # the verdict of the replay is the CURRENT tree's behaviour on the recorded input
        old = chk.judge("Trace_C09", [t], timeout=900)
        chk.log("the recording itself is %s" % ("rejected: %s" % old[0][1] if old else "accepted"))
        chk.traces_validated = 0
        chk.log("re-running the recorded input against the current tree (%d case(s))" % len(fresh))
        rej = judge_and_report(chk, fresh)
    else:
        chk.log("re-judging the recording (the input cannot be re-run)")
        rej = judge_and_report(chk, [t])
    for tr, clause in rej:
        chk.log("rejected:", clause, json.dumps(describe(tr), default=repr)[:500])

def selftest(chk):
    """vacuity check of the binding: a recorded output corrupted in one field must be rejected"""
    chk.rule = "self-test: corrupted recordings must be rejected by TLC"
    rng = random.Random(1)
    good, bad = [], []
    t = run_tent(((0, 2, 4), (-4, 0, 3, 1, 1), 4, 8, False))
    good.append(t)
    b = copy.deepcopy(t)
    b["sols"][0][0] += 1
    bad.append(b)
    b = copy.deepcopy(t)
    b["sols"] = b["sols"][:-1]
    bad.append(b)
    sc = run_scalar(("scalar", [(0, 2, 4), (-4, -2, 0)], [(1, -1), (2, -3)], 4))
    good.append(sc)
    b = copy.deepcopy(sc)
    b["outs"][0] = [b["outs"][0][0] + 1, b["outs"][0][1]]
    bad.append(b)
    tags = TAGS[:2]
    locs = [{}, {"aaaa": F(1)}, {"aaaa": F(1, 2)}, {"bbbb": F(-1)}, {"aaaa": F(1), "bbbb": F(1)}]
    m = model_trace(locs, tags, rng)
    good.append(m)
    b = copy.deepcopy(m)
    b["runs"][0]["deltas"][2] = [b["runs"][0]["deltas"][2][0] + 1, b["runs"][0]["deltas"][2][1]]
    bad.append(b)
    b = copy.deepcopy(m)
    j = b["locs"].index([[1, 1], [0, 1]])
    b["sups"][j] = [[[0, 1], [1, 1], [1, 1]], [[0, 1], [0, 1], [0, 1]]]   # forget the split against {aaaa: 1/2}
    bad.append(b)
    coords = [(0, 0), (2, 0), (4, 1), (4, 4), (0, 4)] + [(0, 0)] * 4
    deltas = [(0, 0), (2, 1), (4, 0), (1, 3), (0, -2)] + [(0, 0)] * 4
    io = run_iup(("iupopt", coords, [4], deltas, F(1, 2)))
    good.append(io)
    b = copy.deepcopy(io)
    k = [i for i, d in enumerate(b["opt"]) if d][0]
    b["opt"][k] = []
    bad.append(b)
    ii = run_iup(("iup", coords, [4], [deltas[0], None, deltas[2], None, None] + deltas[5:], 0))
    good.append(ii)
    b = copy.deepcopy(ii)
    b["out"][1][0] = [b["out"][1][0][0] + 1, b["out"][1][0][1]]
    bad.append(b)
    for seed in range(7, 40):
        st = run_store(("random", None, seed))
        hit = [x for x in st if x["k"] == "store" and x["op"] == "optimize" and x["after"]["data"] and x["map"]
               and x["after"]["data"][0]["items"] and x["after"]["data"][0]["items"][0]
               and any(e[2:] == [0, 0] for e in x["map"]) and x["after"]["data"][0]["ri"]]
        if hit:
            good += [x for x in st if x["k"] == "store"]
            b = copy.deepcopy(hit[0])
            b["after"]["data"][0]["items"][0][0] += 1
            bad.append(b)
            break
    rej = chk.judge("Trace_C09", good + bad, timeout=900)
    rejected = {id(t) for t, c in rej if not c[0].startswith(("skip:", "note:"))}
    got = {}
    for t, c in rej:
        got[id(t)] = c[0]
    for t in good:
        if id(t) in rejected:
            raise MachineryError("self-test: a genuine recording was rejected: %s %s" % (got[id(t)], describe(t)))
    missed = [t for t in bad if id(t) not in rejected]
    if missed:
        raise MachineryError("self-test: %d corrupted recordings were accepted, e.g. %s" % (len(missed), describe(missed[0])))
    chk.notes["selftest"] = "%d corrupted recordings rejected (%s); %d genuine accepted" % (
        len(bad), sorted({got[id(t)] for t in bad}), len(good))
    chk.log(chk.notes["selftest"])
