"""C10 -- a built variable font reproduces each of its masters.

(M)  MC_Build (1, 2 and 3 axes): every designspace of a small family (axis shapes with and without
     maps, masters on the half lattice incl. intermediate, corner and sparse masters, a few item
     values) is run through the Build actions of specs/Build.tla; the abstract font satisfies
     MasterReproduced, AxisMapping and SparseOK.  Each designspace is exported (GEN).
(R)  exported designspaces are realised as real master TTFonts (harness/c10_fonts.py: TrueType and
     CFF outlines, advances, kerning and mark anchors compiled by feaLib, OS/2 / hhea / post metrics)
     and a DesignSpaceDocument, built by the REAL varLib.build, saved, reloaded and projected
     (harness/c10_project.py); TLC (Trace_C10) evaluates the projected font at every master location.
(V)  every corpus designspace whose masters load (TTX masters of Tests/varLib/data) is built and
     judged the same way; the others are skipped and counted.
HarfBuzz observes outlines and advances of the saved font at the master locations (user
coordinates, through fvar + avar) as additional items judged by the same inequality.

Python drives the code and marshals values; every verdict is TLC's."""
import io
import json
import os
import random
import time
import traceback
from fractions import Fraction as F

from . import common
from .common import MachineryError

LEVEL = "model_checking"
USE_HB = True

HB_SLACK_NOTE = ("HarfBuzz fields: float32 outline arithmetic and F2Dot14 coordinates; judged with the slack "
                 "stated in Trace_C10 (HBTol)")


# --------------------------------------------------------------------------------------------------
# driving one build
# --------------------------------------------------------------------------------------------------
def _save_reload(vf):
    from fontTools.ttLib import TTFont

    buf = io.BytesIO()
    vf.save(buf)
    data = buf.getvalue()
    return data, TTFont(io.BytesIO(data), lazy=False)


def axis_json(a):
    from .c10_project import rat

    return {"min": rat(a.minimum), "def": rat(a.default), "max": rat(a.maximum),
            "map": [[rat(u), rat(d)] for u, d in sorted(a.map)]}


def build_trace(doc, masters, label, gen, optimize, rng, max_glyphs, hb=False, extra=None):
    """run the real varLib.build on `doc` (sources carry fonts) and project the result"""
    from fontTools import varLib
    from .c10_project import (OutOfDomain, Regions, project_advances, project_axes, project_cff, project_gpos,
                              project_gvar, project_mvar, rat)

    tr = {"k": "build", "src": label, "gen": bool(gen), "opt": bool(optimize), "err": "",
          "fvar": [], "avar": [], "regions": [], "items": [], "glyphs": [], "hb": []}
    if extra:
        tr.update(extra)
    skips = {}
    tr["axes"] = [axis_json(a) for a in doc.axes]
    names = [a.name for a in doc.axes]
    srcs = []
    for s in doc.sources:
        loc = []
        dl = getattr(s, "designLocation", None) or {}
        ul = getattr(s, "userLocation", None) or {}
        for n in names:
            if n in dl:
                loc.append(rat(dl[n]))
            elif n in ul:
                loc.append(rat(ul[n]) + [1])
            else:
                loc.append([])
        srcs.append({"loc": loc})
    tr["srcs"] = srcs
    try:
        vf, model, _ = varLib.build(doc, optimize=optimize)
    except Exception as e:
        tr["err"] = type(e).__name__
        tr["errmsg"] = str(e)[:300]
        return tr, skips, None
    data, vf2 = _save_reload(vf)
    try:
        tags, tr["fvar"], tr["avar"] = project_axes(vf2)
    except OutOfDomain as e:
        return {"k": "skip", "why": str(e), "src": label}, skips, None
    regions = Regions(tags)
    tr["flavour"] = "ttf" if "glyf" in vf2 else "otf"
    order = vf2.getGlyphOrder()
    if len(order) > max_glyphs:
        # glyphs some master lacks first, then a seeded sample
        lacking = [g for g in order if any(("glyf" in m and g not in m["glyf"].glyphs) or g not in m["hmtx"].metrics for m in masters)]
        rest = [g for g in order if g not in lacking]
        pick = lacking[: max_glyphs // 2]
        pick += rng.sample(rest, min(len(rest), max_glyphs - len(pick)))
        order = [g for g in order if g in set(pick)]
    tr["nglyphs"] = len(order)
    if "glyf" in vf2:
        tr["glyphs"] = project_gvar(vf2, masters, regions, order, skips)
    elif "CFF2" in vf2:
        tr["glyphs"] = project_cff(vf2, masters, regions, order, skips)
    items = project_advances(vf2, masters, regions, order, skips)
    items += project_advances(vf2, masters, regions, order, skips, tag="VVAR", mtx="vmtx", mapattr="AdvHeightMap")
    items += project_mvar(vf2, masters, regions, skips)
    items += project_gpos(vf2, masters, regions, rng, skips)
    tr["items"] = items
    tr["regions"] = regions.list
    if hb and USE_HB:
        try:
            comps = {g for g in order if "glyf" in vf2 and vf2["glyf"][g].isComposite()}
            tr["hb"] = hb_observe(data, doc, masters, order, comps)
        except Exception as e:  # the observer is optional: never let it decide anything
            skips["HarfBuzz observer failed: %s" % type(e).__name__] = 1
    return tr, skips, data


# --------------------------------------------------------------------------------------------------
# HarfBuzz as an observer of the saved font at the master locations
# --------------------------------------------------------------------------------------------------
def hb_observe(data, doc, masters, names, composites=(), max_glyphs=6):
    """HarfBuzz's view of the saved font at each master's USER location (so the path goes through fvar
    default normalisation and avar), next to its view of the static master itself: advances and the
    drawn outline (coordinates * 1024, rounded).  The user location is found with the designspace's own
    inverse map; TLC re-derives the design location with the forward map and ignores the record if they
    disagree."""
    from .hb import Shaper
    from .c10_project import ADVANCE_SENTINEL, rat

    out = []
    blobs = {}
    for mi, s in enumerate(doc.sources):
        font = masters[mi]
        if not all(t in font for t in ("head", "hhea", "maxp", "hmtx")):
            continue  # a partial master (sparse layer) is not a font HarfBuzz can be asked about
        if id(font) not in blobs:
            try:
                buf = io.BytesIO()
                font.save(buf)
                blobs[id(font)] = buf.getvalue()
            except Exception:
                blobs[id(font)] = None
        if blobs[id(font)] is None:
            continue
        full = s.getFullDesignLocation(doc)
        user = {a.tag: a.map_backward(full[a.name]) for a in doc.axes}
        us = [F(user[a.tag]).limit_denominator(1 << 12) for a in doc.axes]
        if any(abs(float(u) - user[a.tag]) > 1e-9 for u, a in zip(us, doc.axes)):
            continue
        vf = Shaper(data, variations={a.tag: float(u) for u, a in zip(us, doc.axes)})
        ms = Shaper(blobs[id(font)])
        ovf = {vf.glyph_name(i): i for i in range(vf.face.glyph_count)}
        oms = {ms.glyph_name(i): i for i in range(ms.face.glyph_count)}
        rec = {"m": mi + 1, "u": [rat(u) for u in us], "adv": [], "pts": []}
        for g in names[:max_glyphs]:
            if g not in ovf or g not in oms:
                continue
            a_m = int(ms.h_advance(oms[g]))
            if a_m == ADVANCE_SENTINEL:
                continue
            pv, pm = vf.draw_glyph(ovf[g]), ms.draw_glyph(oms[g])
            if not pm and pv:
                continue  # empty in this master: the glyph is not supplied (sparse)
            rec["adv"].append([g, int(vf.h_advance(ovf[g])), a_m])
            if g in composites:
                continue  # a composite accumulates the tolerances of its components: outlines of simple glyphs only
            if "glyf" in font and g in font["glyf"].glyphs:
                gl = font["glyf"][g]
                if gl.numberOfContours > 0 and hasattr(gl, "coordinates") and min(x for x, _ in gl.coordinates) != font["hmtx"].metrics[g][1]:
                    continue  # lsb differs from xMin: HarfBuzz shifts the static master's outline
            q = lambda path: [[int(round(co[i] * 1024)), int(round(co[i + 1] * 1024))] for _, co in path for i in range(0, len(co), 2)]
            if [op for op, _ in pv] != [op for op, _ in pm]:
                rec["pts"].append([g, [[0, 0]], []])  # different path structure: shows as a length mismatch
            else:
                rec["pts"].append([g, q(pv), q(pm)])
        out.append(rec)
    return out


# --------------------------------------------------------------------------------------------------
# (R) generated designspaces
# --------------------------------------------------------------------------------------------------
def drive_gen(case):
    """one exported designspace -> traces (TrueType and CFF masters)"""
    from . import c10_fonts

    out = []
    rng = random.Random(case["seed"])
    for ttf in case["flavours"]:
        label = "gen:%s:%s" % (case["id"], "ttf" if ttf else "otf")
        try:
            doc, fonts = c10_fonts.realise(case, ttf)
            opt = case["optimize"] and ttf
            tr, skips, _ = build_trace(doc, fonts, label, True, opt, rng, 64, hb=case.get("hb", False),
                                       extra={"case": case["id"], "flavour": "ttf" if ttf else "otf"})
            out.append((tr, skips))
        except Exception:
            out.append(({"k": "crash", "src": label, "what": traceback.format_exc()[-1500:]}, {}))
    return out


def gen_cases(chk, gens):
    """sample the exported designspaces of every configuration: a few of every class of the coverage
    mask, then a seeded sample that prefers the designspaces with most masters"""
    rng = chk.rng
    quick = chk.tier == "quick"
    scale = float(os.environ.get("VERIF_C10_DEV_SCALE", "1") or 1)   # development aid only
    if scale != 1:
        chk.notes["DEV_SCALE"] = scale
    by_cfg = {}
    for g in gens:
        js, mask = g[0], g[1]
        cfg = g[2] if len(g) > 2 else "cached"
        by_cfg.setdefault(cfg, []).append((js, mask))
    cases = []
    for cfg, lst in sorted(by_cfg.items()):
        lst.sort()
        want = REPLAY_BUDGET.get(cfg, (100, 1000))[0 if quick else 1]
        want = int(want * scale)
        if want <= 0:
            continue
        chosen = {}
        by_mask = {}
        for i, (js, mask) in enumerate(lst):
            by_mask.setdefault(mask, []).append(i)
        for mask, idxs in sorted(by_mask.items()):
            for i in rng.sample(idxs, min(len(idxs), 2)):
                chosen[i] = True
        rest = [i for i in range(len(lst)) if i not in chosen]
        rest.sort(key=lambda i: (-lst[i][0].count('"loc"'), i))
        big = rest[: max(want * 4, 1)]
        for i in rng.sample(big, min(len(big), max(0, want - len(chosen)))):
            chosen[i] = True
        for i in sorted(chosen):
            js, mask = lst[i]
            d = json.loads(js)
            cid = "%s-%06d" % (cfg.replace("MC_Build", "B") or "B", i)
            cases.append(dict(d, id=cid, mask=mask, seed=rng.getrandbits(40), sparse_style=rng.choice(["subset", "empty"]),
                              class_kern=rng.random() < 0.5, flavours=[True, False], optimize=rng.random() < 0.5,
                              hb=rng.random() < (0.1 if quick else 0.3)))
    return cases


# --------------------------------------------------------------------------------------------------
# (V) corpus designspaces
# --------------------------------------------------------------------------------------------------
def _ttx_index():
    idx = {}
    for p in common.corpus_files(".ttx"):
        d = os.path.dirname(p)
        if os.path.basename(d).startswith("master_") or "master" in os.path.basename(d):
            idx.setdefault(os.path.splitext(os.path.basename(p))[0], []).append(p)
    return idx


def corpus_tasks():
    from fontTools.designspaceLib import DesignSpaceDocument

    idx = _ttx_index()
    tasks, skipped = [], []
    for path in common.corpus_files(".designspace"):
        try:
            doc = DesignSpaceDocument.fromfile(path)
        except Exception as e:
            skipped.append((path, "designspace unreadable: %s" % type(e).__name__))
            continue
        if not doc.sources or not doc.axes:
            skipped.append((path, "designspace without sources or axes"))
            continue
        if any(not hasattr(a, "minimum") for a in doc.axes):
            skipped.append((path, "designspace with discrete axes (several variable fonts)"))
            continue
        if doc.axisMappings:
            skipped.append((path, "designspace with <mappings> (avar 2) not modelled"))
            continue
        if any(s.layerName for s in doc.sources):
            skipped.append((path, "sources are UFO layers (no compiled master in the corpus)"))
            continue
        # candidate master files per source: the file itself, or <stem>.ttx in one of the master_* directories
        cands = []
        for s in doc.sources:
            fn = s.path or s.filename or ""
            stem = os.path.splitext(os.path.basename(fn))[0]
            c = []
            if fn and os.path.isfile(fn) and fn.endswith((".ttx", ".ttf", ".otf")):
                c.append(fn)
            c += idx.get(stem, [])
            cands.append(sorted(set(c)))
        if any(not c for c in cands):
            skipped.append((path, "masters not in the corpus (UFO sources only)"))
            continue
        dirs = sorted({os.path.dirname(p) for c in cands for p in c})
        variants = []
        for d in dirs:
            if all(any(os.path.dirname(p) == d for p in c) for c in cands):
                variants.append([next(p for p in c if os.path.dirname(p) == d) for c in cands])
        if not variants:
            variants = [[c[0] for c in cands]]
        for v in variants:
            tasks.append((path, v))
    return tasks, skipped


def drive_corpus(task):
    from fontTools.designspaceLib import DesignSpaceDocument
    from fontTools.ttLib import TTFont

    path, files, seed, max_glyphs, hb = task
    label = "%s [%s]" % (common.rel(path), os.path.basename(os.path.dirname(files[0])))
    rng = random.Random(seed)
    try:
        doc = DesignSpaceDocument.fromfile(path)
        cache = {}
        fonts = []
        for s, f in zip(doc.sources, files):
            if f not in cache:
                if f.endswith(".ttx"):
                    font = TTFont(recalcBBoxes=False, recalcTimestamp=False)
                    font.importXML(f)
                    buf = io.BytesIO()
                    font.save(buf, reorderTables=None)
                    font = TTFont(io.BytesIO(buf.getvalue()), lazy=False)
                else:
                    font = TTFont(f, lazy=False)
                cache[f] = font
            s.font = cache[f]
            fonts.append(cache[f])
    except Exception as e:
        return [({"k": "skip", "src": label, "why": "masters do not load: %s" % type(e).__name__}, {})]
    out = []
    for opt in (True, False):
        if not opt and "glyf" not in fonts[0]:
            continue
        try:
            # each build gets fresh source objects (build annotates the document)
            d2 = DesignSpaceDocument.fromfile(path)
            for s, f in zip(d2.sources, fonts):
                s.font = f
            tr, skips, _ = build_trace(d2, fonts, label + (" opt" if opt else " noopt"), False, opt, rng, max_glyphs, hb=hb and opt,
                                       extra={"path": path, "files": files})
            out.append((tr, skips))
        except Exception:
            out.append(({"k": "crash", "src": label, "what": traceback.format_exc()[-1500:]}, {}))
    return out


# --------------------------------------------------------------------------------------------------
# (M)
# --------------------------------------------------------------------------------------------------
MC_JOBS = {
    "quick": [("MC_Build", "MC_Build"), ("MC_Build", "MC_Build2"), ("MC_Build", "MC_Build3"), ("MC_Build", "MC_Build_gen"),
              ("MC_Build", "MC_Build_gen4")],
    "thorough": [("MC_Build", "MC_Build_thorough"), ("MC_Build", "MC_Build2_thorough"), ("MC_Build", "MC_Build2b_thorough"),
                 ("MC_Build", "MC_Build2c_thorough"), ("MC_Build", "MC_Build3_thorough"), ("MC_Build", "MC_Build_gen"),
                 ("MC_Build", "MC_Build_gen4"), ("MC_Build", "MC_Build_gen_thorough")],
}
# how many exported designspaces of each configuration are replayed against the real code (quick, thorough)
REPLAY_BUDGET = {"MC_Build": (70, 800), "MC_Build2": (45, 600), "MC_Build3": (45, 500), "MC_Build_gen": (80, 1000),
                 "MC_Build_gen4": (70, 800), "MC_Build_thorough": (80, 800), "MC_Build2_thorough": (50, 600),
                 "MC_Build2b_thorough": (0, 400), "MC_Build2c_thorough": (0, 500), "MC_Build3_thorough": (50, 500),
                 "MC_Build_gen_thorough": (0, 400)}
WANT_MASK = 1 | 2 | 4 | 8 | 16 | 32 | 64


def run_mc(chk):
    cache = os.environ.get("VERIF_C10_GEN_CACHE")   # development aid only: replay without re-running (M)
    if cache and os.path.exists(cache):
        chk.notes["MC_Build"] = "SKIPPED (development run with cached designspaces)"
        with open(cache) as f:
            return [tuple(x) for x in json.load(f)]

    jobs = MC_JOBS[chk.tier]

    # chk.tlc numbers its scratch files from a shared counter at entry: start the runs one after the
    # other, each only once the previous one has taken its number
    res = [None] * len(jobs)
    errs = []

    def one(k):
        mod, cfg = jobs[k]
        try:
            res[k] = chk.tlc(mod, cfg=cfg, label=cfg, timeout=3000, workers=4)
        except BaseException as e:  # re-raised in the main thread
            errs.append(e)

    import threading

    threads = []
    for k in range(len(jobs)):
        n0 = chk._nrun
        th = threading.Thread(target=one, args=(k,))
        th.start()
        threads.append(th)
        t1 = time.time()
        while chk._nrun == n0 and th.is_alive() and time.time() - t1 < 60:
            time.sleep(0.05)
        time.sleep(0.5)
    for th in threads:
        th.join()
    if errs:
        raise errs[0]
    gens = []
    seen = 0
    counts = {}
    for (mod, cfg), r in zip(jobs, res):
        g = r.prints.get("GEN", [])
        chk.log("%s: %d states, %d designspaces exported, %.0fs" % (cfg, r.distinct, len(g), r.wall))
        counts[cfg] = {"states": r.distinct, "designspaces": len(g)}
        for p in g:
            if len(p) != 2 or not isinstance(p[0], str):
                raise MachineryError("%s: unparsable GEN line" % cfg)
            gens.append((p[0], p[1], cfg))
            seen |= p[1]
    if seen & WANT_MASK != WANT_MASK:
        raise MachineryError("MC_Build: designspace classes not all generated (mask %d)" % seen)
    if not any(g[1] & 32 for g in gens) or not any(not (g[1] & 32) for g in gens):
        raise MachineryError("MC_Build: vacuous (no refused / no built designspace)")
    chk.notes["MC_Build"] = counts
    chk.notes["MC_Build_class_mask"] = seen
    return gens


# --------------------------------------------------------------------------------------------------
# judging
# --------------------------------------------------------------------------------------------------
def describe(t):
    d = {}
    for k, v in t.items():
        s = json.dumps(v, default=repr)
        d[k] = v if len(s) <= 240 else s[:240] + "..."
    return d


def replay_of(t):
    if t.get("gen"):
        return {"kind": "gen", "case": t.get("_case"), "flavour": t.get("flavour"), "opt": t.get("opt"), "src": t["src"]}
    return {"kind": "corpus", "path": t.get("path"), "files": t.get("files"), "opt": t.get("opt"), "src": t["src"]}


def strip(t):
    """what TLC needs (the rest stays in Python for replays and messages)"""
    keep = ("k", "src", "gen", "opt", "err", "axes", "srcs", "fvar", "avar", "regions", "items", "glyphs", "hb")
    return {k: t[k] for k in keep if k in t}


def judge_and_report(chk, results):
    traces = []
    for tr, skips in results:
        for why, n in skips.items():
            chk.skip(why, n)
        if tr["k"] == "skip":
            chk.skip(tr["why"])
        elif tr["k"] == "crash":
            raise MachineryError("harness crashed on %s:\n%s" % (tr["src"], tr["what"]))
        else:
            traces.append(tr)
    ncmp = 0
    for t in traces:
        nm = len(t["srcs"])
        ncmp += sum(sum(1 for v in it["v"] if v) for it in t["items"])
        ncmp += sum(sum(2 * g["cmp"] for v in g["m"] if v) for g in t["glyphs"])
        if not t["err"] and nm >= 3:
            chk.nontriv(("build", t["src"], common.digest([t["axes"], t["srcs"], t.get("case")])))
    chk.count(ncmp)
    chk.notes["hb_records"] = chk.notes.get("hb_records", 0) + sum(len(t.get("hb", [])) for t in traces)
    payload = [dict(strip(t), i=i) for i, t in enumerate(traces)]
    rej0 = chk.judge("Trace_C10", payload, chunk=1500, timeout=3000, workers=16, heap="6g")
    rej = [(traces[t["i"]], c) for t, c in rej0]
    notes = {}
    for t, clause in rej:
        v = clause[0] if clause and isinstance(clause[0], list) else clause
        c = v[0] if v else "?"
        if c.startswith("skip:"):
            chk.skip(c[5:])
        elif c.startswith("note:"):
            notes[c] = notes.get(c, 0) + 1
            chk.traces_validated += 1
        elif c.startswith("malformed:"):
            raise MachineryError("trace rejected as malformed (%s): %s" % (v, json.dumps(describe(t))[:800]))
        elif c == "build:exception" and not t.get("gen"):
            chk.skip("corpus designspace does not build (%s)" % t["err"])
        elif c == "build:exception" and len(t["srcs"]) < 2:
            # a designspace with one master has nothing to reproduce across masters: outside the property's domain.
            # (varLib.build raises IndexError in cff.merge_PrivateDicts for a single CFF master; reported, not judged here)
            chk.skip("single-master designspace does not build (%s)" % t["err"])
        elif c == "build:exception":
            chk.reject("build:exception:%s" % t["err"], "varLib.build raised %s (%s) on the valid designspace %s"
                       % (t["err"], t.get("errmsg", ""), t["src"]), replay_of(t))
        else:
            item = v[1] if len(v) > 1 else ""
            kind = item.split(":")[0] if isinstance(item, str) else ""
            if kind == "outline":
                kind = "gvar" if t.get("flavour") == "ttf" else "CFF2"
            key = "%s:%s" % (c, kind) if kind else c
            chk.reject(key, "%s %s on %s (source %s)" % (c, item, t["src"], v[2] if len(v) > 2 else "?"), replay_of(t))
    if notes:
        chk.notes["notes"] = notes
    return rej


def run(chk):
    import multiprocessing as mp

    chk.rule = ("one case = one call of the real varLib.build on a designspace with real master fonts (TLC-exported designspace "
                "realised as TrueType and CFF masters, or a corpus designspace with its TTX masters), projected and judged by "
                "TLC at every master location; evaluations = (item or outline coordinate, master) comparisons; distinct by "
                "designspace + masters; non-trivial = built, with at least 3 masters")
    t0 = time.time()
    quick = chk.tier == "quick"
    tasks, skipped = corpus_tasks()
    for path, why in skipped:
        chk.skip(why)
    rng = chk.rng
    ctasks = [(p, files, rng.getrandbits(40), 40 if quick else 400, True) for p, files in tasks]
    chk.notes["corpus_designspaces"] = {"found": len(common.corpus_files(".designspace")), "with_masters": len({p for p, _ in tasks}),
                                        "builds_attempted": len(ctasks)}
    ctx = mp.get_context("fork")
    with ctx.Pool(10) as pool:
        pending = pool.map_async(drive_corpus, ctasks, 1)
        gens = run_mc(chk)
        cases = gen_cases(chk, gens)
        chk.log("(M) done in %.0fs; %d exported designspaces, %d chosen for replay" % (time.time() - t0, len(gens), len(cases)))
        results = [x for r in pending.get() for x in r]
        chk.log("corpus: %d builds driven (%.0fs)" % (len(results), time.time() - t0))
        gres = pool.map(drive_gen, cases, 4)
    by_id = {c["id"]: c for c in cases}
    for r in gres:
        for tr, skips in r:
            if "case" in tr:
                tr["_case"] = {k: v for k, v in by_id[tr["case"]].items()}
            results.append((tr, skips))
    chk.log("drove the real varLib.build %d times in %.0fs" % (len(results), time.time() - t0))
    kinds = {}
    for tr, _ in results:
        k = ("gen" if tr.get("gen") else "corpus") + ":" + (tr.get("flavour") or ("err" if tr.get("err") else tr["k"]))
        kinds[k] = kinds.get(k, 0) + 1
    chk.notes["builds_per_kind"] = kinds
    for tr, _ in results:
        if tr["k"] == "build" and not tr["err"] and len(tr["srcs"]) >= 3:
            chk.sample({"src": tr["src"], "axes": tr["axes"], "sources": len(tr["srcs"]), "items": len(tr["items"]),
                        "glyphs": len(tr["glyphs"]), "regions": len(tr["regions"])})
    judge_and_report(chk, results)
    chk.exhaustive = False
    chk.notes["exhaustive_parts"] = (
        "MC_Build*: every designspace of the families named in the .cfg files -- quick: 1 axis x 8 axis shapes (plain, scaled, bent, "
        "one-sided both ways, flat segment, two refused shapes) with <= 2 extra masters on the half lattice; 2 axes (one-sided) "
        "with <= 2 extra masters on the half lattice (intermediate and corner masters); 3 axes with <= 2 extra masters on corners "
        "and axis ends; each with every combination of item values {0, 3} and sparse flags; the thorough tier adds two-sided "
        "2-axis families, 3 extra masters, the quarter lattice and bent 3-axis families.  MC_Build_gen* only export designspaces "
        "(two-sided 2-axis half lattice; one-sided 2-axis QUARTER lattice, which gives the fractional delta weights that make "
        "rounding matter; Normalise and its invariants only) for the replay")
    chk.assumptions += [
        "the built font is judged as saved and reloaded; tables are decoded by fontTools' table classes (their codecs are C01/C15's subject)",
        "a font is evaluated at F2Dot14 coordinates: master locations are rounded to F2Dot14 and the derived scalar perturbation "
        "(4e/width per sloped axis, times |delta|) is added to the 1/2 unit; zero on lattice designspaces",
        "gvar tuples optimised with IUP add 1/2 unit times the tuple's scalar (tolerance of iup_delta_optimize, judged by C09)",
        "sparse-master conventions of varLib are part of the domain: glyph absent from a master, empty outline in a non-default "
        "master, advance 0xFFFF, post underline -0x8000, table absent",
        "designspaces with <mappings> (avar 2), discrete axes, UFO layer sources or UFO-only masters are skipped and counted",
        "vertical phantom points, side bearings, ligature carets, BASE, COLR, cvar and feature variations are not compared",
        HB_SLACK_NOTE,
    ]


def replay(chk, rep):
    r = rep["replay"]
    chk.rule = "replay of one recorded build"
    if r["kind"] == "gen" and r.get("case"):
        case = dict(r["case"])
        case["flavours"] = [r["flavour"] == "ttf"]
        case["optimize"] = bool(r["opt"])
        results = drive_gen(case)
        for tr, _ in results:
            tr["_case"] = r["case"]
    elif r["kind"] == "corpus":
        results = [x for x in drive_corpus((r["path"], r["files"], 0, 400, False)) if x[0].get("opt", True) == r["opt"] or x[0]["k"] != "build"]
    else:
        raise MachineryError("replay file without a reproducible input")
    chk.log("re-running %s against the current tree" % r["src"])
    rej = judge_and_report(chk, results)
    for t, clause in rej:
        chk.log("rejected:", clause, t["src"])


def selftest(chk):
    """vacuity check of the binding: recordings corrupted in one field must be rejected by TLC, the
    genuine ones accepted"""
    import copy

    chk.rule = "self-test: corrupted recordings must be rejected by TLC"
    gens = run_mc(chk) if os.environ.get("VERIF_C10_GEN_CACHE") else None
    if gens is None:
        r = chk.tlc("MC_Build", cfg="MC_Build2", label="MC_Build2", timeout=1500)
        gens = [(p[0], p[1]) for p in r.prints.get("GEN", [])]
    rng = random.Random(11)
    pool = [(g[0], g[1]) for g in gens if (g[1] & 4) and (g[1] & 3) and not (g[1] & 32) and len(json.loads(g[0])["srcs"]) >= 3]
    good, bad = [], []
    for k, (js, mask) in enumerate(rng.sample(pool, 3)):
        case = dict(json.loads(js), id="self%d" % k, mask=mask, seed=k, sparse_style=["subset", "empty"][k % 2], class_kern=True,
                    flavours=[True, False], optimize=True, hb=True)
        for tr, _ in drive_gen(case):
            if tr["k"] == "build" and not tr["err"]:
                good.append(strip(tr))

    def mut(t, f, label):
        b = copy.deepcopy(t)
        if f(b) is not False:
            b["src"] = label
            bad.append(b)

    def first_item_with_rows(b):
        return [i for i in b["items"] if i["r"]][0]

    def glyph_with_tuples(b):
        return [g for g in b["glyphs"] if g["tv"]][0]

    for t in good[:2]:
        mut(t, lambda b: b["items"][0].__setitem__("b", b["items"][0]["b"] + 1), "item base + 1")
        mut(t, lambda b: first_item_with_rows(b)["r"][0].__setitem__(1, first_item_with_rows(b)["r"][0][1] + 2), "item delta + 2")
        mut(t, lambda b: first_item_with_rows(b)["r"][0].__setitem__(0, (first_item_with_rows(b)["r"][0][0] + 1) % len(b["regions"])), "item row against the next region")
        mut(t, lambda b: glyph_with_tuples(b)["pts"][0].__setitem__(0, glyph_with_tuples(b)["pts"][0][0] + 2 * glyph_with_tuples(b)["den"]), "outline point + 2")
        mut(t, lambda b: b["fvar"][0][1].__setitem__(0, b["fvar"][0][1][0] + b["fvar"][0][1][1]), "fvar default + 1")
        mut(t, lambda b: (b["hb"][0]["adv"][0].__setitem__(1, b["hb"][0]["adv"][0][1] + 3) if b["hb"] and b["hb"][0]["adv"] else False), "HarfBuzz advance + 3")
        mut(t, lambda b: (b["hb"][0]["pts"][-1][1][0].__setitem__(0, b["hb"][0]["pts"][-1][1][0][0] + 4096) if b["hb"] and b["hb"][0]["pts"] and b["hb"][0]["pts"][-1][1] else False), "HarfBuzz point + 4")

        def avar(b):
            a = [i for i, seg in enumerate(b["avar"]) if len(seg) > 3]
            if not a:
                return False
            b["avar"][a[0]][1][1][0] += 64
        mut(t, avar, "avar knot shifted")

        def sparse(b):
            its = [i for i in b["items"] if any(not v for v in i["v"]) and i["n"].startswith("HVAR")]
            if not its:
                return False
            it = its[0]
            m = [k for k, v in enumerate(it["v"]) if not v][0]
            # a row against every region: one of them peaks at the absent master
            it["r"] = [[r, 0 if any(rr[0] == r for rr in it["r"]) else 7] for r in range(len(b["regions"]))] + it["r"]
        mut(t, sparse, "row at an absent master")
    rej = chk.judge("Trace_C10", [dict(t, i=i) for i, t in enumerate(good + bad)], timeout=1800)
    got = {t["i"]: c for t, c in rej}
    for i, t in enumerate(good):
        if i in got and not str(got[i][0][0]).startswith(("skip:", "note:")):
            raise MachineryError("self-test: a genuine recording was rejected: %s %s" % (got[i], t["src"]))
    missed = [t["src"] for i, t in enumerate(bad, len(good)) if i not in got or str(got[i][0][0]).startswith(("skip:", "note:"))]
    if missed:
        raise MachineryError("self-test: corrupted recordings were accepted: %s" % missed)
    chk.traces_validated = len(good)
    chk.notes["selftest"] = "%d corrupted recordings rejected (%s); %d genuine accepted" % (
        len(bad), sorted({"%s -> %s" % (t["src"], got[i][0][0]) for i, t in enumerate(bad, len(good))}), len(good))
    chk.log(chk.notes["selftest"])
