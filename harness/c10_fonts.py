"""C10 (R): an abstract designspace exported by TLC (MC_Build, GEN lines) realised as real master
TTFonts (FontBuilder + feaLib, in memory) and a DesignSpaceDocument whose sources carry the fonts.

The abstract designspace gives the axes (user triple, map knots), the master design locations, and
per master two small item values: item 1 (supplied by every master) and item 2 (absent in a sparse
master).  Every real quantity of a master is  base + coefficient * item value + noise  (all chosen by
a case-seeded random.Random; |coefficient| <= 15, |noise| <= 30, so that no two outline points, whose base
positions are at least 200 apart, can meet), so masters are compatible by construction and values are
not linear in the location:

  item 1 (every master):  glyph A outline and advance, composite glyph D (TrueType), OS/2 and hhea metrics
  item 2 (non-sparse):    glyph B and the mark glyph outlines and advances, the kerning pairs, the
                          mark-to-base anchors (GPOS compiled by feaLib), post underline metrics

A sparse master is realised in one of the two ways varLib documents: "subset" (the font simply lacks
the glyphs, GPOS/GDEF and carries the post sentinel -0x8000) or "empty" (the glyphs are present but
empty, with the advance sentinel 0xFFFF)."""
import random
from fractions import Fraction as F

from fontTools.designspaceLib import AxisDescriptor, DesignSpaceDocument, SourceDescriptor
from fontTools.feaLib.builder import addOpenTypeFeaturesFromString
from fontTools.fontBuilder import FontBuilder
from fontTools.pens.t2CharStringPen import T2CharStringPen
from fontTools.pens.ttGlyphPen import TTGlyphPen

AXES = [("Weight", "wght"), ("Width", "wdth"), ("Custom", "CUST")]
GROUP1 = ["A", "E"]
GROUP2 = ["B", "acute"]

# outlines: contours of (x, y, oncurve) base points, far enough apart that no two points can meet
A_SHAPE = [[(100, 0, 1), (100, 700, 1), (300, 900, 0), (500, 700, 1), (500, 0, 1)],
           [(200, 200, 1), (400, 200, 1), (400, 500, 1), (200, 500, 1)]]
B_SHAPE = [[(100, 0, 1), (100, 800, 1), (400, 800, 1), (600, 600, 0), (600, 200, 0), (400, 0, 1)]]
M_SHAPE = [[(0, 1000, 1), (200, 1300, 1), (300, 1000, 1)]]
# E moves rigidly (every point by the same offset per master), so that IUP optimisation drops points
E_SHAPE = [[(100, 0, 1), (100, 300, 1), (100, 600, 1), (100, 900, 1), (400, 900, 1), (700, 900, 1), (700, 450, 1), (700, 0, 1), (400, 0, 1)]]
SHAPES = {"A": A_SHAPE, "B": B_SHAPE, "acute": M_SHAPE, "E": E_SHAPE}


def frac(p):
    return F(p[0], p[1])


class Values:
    """base + coef * item value + noise, per named slot and master (deterministic in the case seed)"""

    def __init__(self, seed, vals):
        self.rng = random.Random(seed)
        self.vals = vals  # per master: (v1, v2 or None)
        self.slots = {}

    def get(self, slot, group, base, m, spread=15, noise=30):
        if slot not in self.slots:
            rng = self.rng
            self.slots[slot] = (rng.randint(-spread, spread), [rng.randint(-noise, noise) for _ in self.vals])
        coef, nz = self.slots[slot]
        v = self.vals[m][group - 1]
        if v is None:
            raise KeyError("master %d does not supply group %d" % (m, group))
        return base + coef * v + nz[m]


def _outline(vs, g, group, m):
    if g == "E":
        dx, dy = vs.get("E.dx", 1, 0, m), vs.get("E.dy", 1, 0, m)
        return [[(x + dx, y + dy, on) for x, y, on in c] for c in SHAPES[g]]
    out = []
    for ci, contour in enumerate(SHAPES[g]):
        pts = []
        for pi, (x, y, on) in enumerate(contour):
            pts.append((vs.get("%s.%d.%d.x" % (g, ci, pi), group, x, m), vs.get("%s.%d.%d.y" % (g, ci, pi), group, y, m), on))
        out.append(pts)
    return out


def _draw_tt(pen, contours):
    for pts in contours:
        # start at the first on-curve point; runs of off-curve points end at the next on-curve point
        pen.moveTo(pts[0][:2])
        i = 1
        n = len(pts)
        while i < n:
            if pts[i][2]:
                pen.lineTo(pts[i][:2])
                i += 1
            else:
                run = []
                while i < n and not pts[i][2]:
                    run.append(pts[i][:2])
                    i += 1
                if i < n:
                    run.append(pts[i][:2])
                    i += 1
                    pen.qCurveTo(*run)
                else:
                    run.append(pts[0][:2])
                    pen.qCurveTo(*run)
        pen.closePath()


def _draw_cff(pen, contours):
    for pts in contours:
        pen.moveTo(pts[0][:2])
        i = 1
        n = len(pts)
        while i < n:
            if pts[i][2]:
                pen.lineTo(pts[i][:2])
                i += 1
            else:
                run = []
                while i < n and not pts[i][2]:
                    run.append(pts[i][:2])
                    i += 1
                end = pts[i][:2] if i < n else pts[0][:2]
                i += 1
                if len(run) == 1:
                    run = [run[0], run[0]]
                pen.curveTo(run[0], run[1], end)
        pen.closePath()


def master_font(case, m, ttf, vs):
    """one master TTFont; case["srcs"][m]["vals"] = [[n, d], [n, d] or []]"""
    sparse = vs.vals[m][1] is None
    style = case["sparse_style"] if sparse else None
    present = [".notdef"] + GROUP1 + (["D"] if ttf else []) + ([] if style == "subset" else GROUP2)
    fb = FontBuilder(1000, isTTF=ttf)
    fb.setupGlyphOrder(present)
    cmap = {0x41: "A", 0x42: "B", 0x301: "acute", 0x44: "D", 0x45: "E"}
    fb.setupCharacterMap({cp: g for cp, g in cmap.items() if g in present})
    adv = {".notdef": (vs.get("adv.notdef", 1, 500, m), 0)}
    outlines = {}
    for g in present[1:]:
        group = 1 if g in GROUP1 or g == "D" else 2
        if g == "D":
            adv[g] = (vs.get("adv.D", 1, 650, m), 0)
            continue
        if group == 2 and sparse:  # style "empty": present, no outline, sentinel advance
            outlines[g] = []
            adv[g] = (0xFFFF, 0)
            continue
        outlines[g] = _outline(vs, g, group, m)
        xmin = min(p[0] for c in outlines[g] for p in c)
        adv[g] = (vs.get("adv." + g, group, 700, m), xmin)
    if ttf:
        glyphs = {}
        for g in present:
            pen = TTGlyphPen({n: None for n in present})
            if g == "D":
                pen.addComponent("A", (1, 0, 0, 1, vs.get("D.dx", 1, 50, m), vs.get("D.dy", 1, -30, m)))
            elif g != ".notdef":
                _draw_tt(pen, outlines[g])
            glyphs[g] = pen.glyph()
        fb.setupGlyf(glyphs)
        if "D" in present:
            adv["D"] = (adv["D"][0], adv["A"][1] + vs.get("D.dx", 1, 50, m))
    else:
        cs = {}
        for g in present:
            pen = T2CharStringPen(adv[g][0], None)
            if g != ".notdef":
                _draw_cff(pen, outlines[g])
            cs[g] = pen.getCharString()
        fb.setupCFF("VerifC10-Regular", {"FullName": "VerifC10 Regular"}, cs, {})
    fb.setupHorizontalMetrics(adv)
    fb.setupHorizontalHeader(ascent=vs.get("hhea.ascent", 1, 900, m), descent=vs.get("hhea.descent", 1, -250, m))
    fb.setupNameTable({"familyName": "VerifC10", "styleName": "Regular"})
    fb.setupOS2(sTypoAscender=vs.get("OS2.asc", 1, 800, m), sTypoDescender=vs.get("OS2.desc", 1, -200, m),
                sTypoLineGap=vs.get("OS2.gap", 1, 100, m), usWinAscent=vs.get("OS2.wasc", 1, 950, m),
                usWinDescent=vs.get("OS2.wdesc", 1, 300, m), sxHeight=vs.get("OS2.xh", 1, 500, m),
                sCapHeight=vs.get("OS2.cap", 1, 700, m), yStrikeoutSize=vs.get("OS2.strs", 1, 60, m, spread=3, noise=2),
                yStrikeoutPosition=vs.get("OS2.stro", 1, 300, m), ySubscriptXSize=650, ySuperscriptYOffset=vs.get("OS2.spyo", 1, 350, m))
    if sparse:
        fb.setupPost(underlinePosition=-0x8000, underlineThickness=-0x8000)
    else:
        fb.setupPost(underlinePosition=vs.get("post.undo", 2, -100, m), underlineThickness=vs.get("post.unds", 2, 60, m, spread=3, noise=2))
        k = lambda slot, base: vs.get(slot, 2, base, m)
        fea = ["languagesystem DFLT dflt;",
               "markClass acute <anchor %d %d> @TOP;" % (k("mark.x", 150), k("mark.y", 1000)),
               "feature kern {",
               "  pos A B %d;" % k("kern.AB", -60),
               "  pos B A <%d 0 %d 0>;" % (k("kern.BA.pla", 15), k("kern.BA.adv", 40))]
        if case["class_kern"]:
            fea.append("  pos [B] [B acute] %d;" % k("kern.class", -25))
        fea += ["} kern;",
                "feature mark { pos base A <anchor %d %d> mark @TOP; pos base B <anchor %d %d> mark @TOP; } mark;"
                % (k("base.A.x", 300), k("base.A.y", 920), k("base.B.x", 330), k("base.B.y", 820)),
                "table GDEF { GlyphClassDef [A B E%s], , [acute], ; } GDEF;" % (" D" if ttf else "")]
        addOpenTypeFeaturesFromString(fb.font, "\n".join(fea))
    return fb.font


def realise(case, ttf):
    """case: the abstract designspace (JSON of a GEN line) plus "seed", "sparse_style", "class_kern".
    Returns (DesignSpaceDocument with source.font set, [master fonts])."""
    vals = []
    for s in case["srcs"]:
        v1, v2 = s["vals"]
        vals.append((int(frac(v1)), None if not v2 else int(frac(v2))))
    vs = Values(case["seed"], vals)
    doc = DesignSpaceDocument()
    for i, ax in enumerate(case["axes"]):
        a = AxisDescriptor()
        a.name, a.tag = AXES[i]
        a.minimum, a.default, a.maximum = (_num(frac(ax[k])) for k in ("min", "def", "max"))
        a.map = [(_num(frac(u)), _num(frac(d))) for u, d in ax["map"]]
        doc.addAxis(a)
    fonts = []
    for m, s in enumerate(case["srcs"]):
        src = SourceDescriptor()
        src.name = "master%d" % m
        src.location = {AXES[i][0]: _num(frac(c)) for i, c in enumerate(s["loc"])}
        src.font = master_font(case, m, ttf, vs)
        fonts.append(src.font)
        doc.addSource(src)
    return doc, fonts


def _num(f):
    return int(f) if f.denominator == 1 else float(f)
