"""C10: projection of a built variable font and of its masters to the abstract variable font of
specs/Build.tla (exact rationals, JSON for Trace_C10).

Nothing here decides anything: the functions read tables (fvar, avar, gvar + glyf, CFF2, HVAR/VVAR,
MVAR, GPOS + GDEF) of the font as SAVED AND RELOADED, and the corresponding plain values of every master,
and lay them out as

  regions  [[ [lo, pk, hi] per fvar axis ]]                  every region any table uses (deduplicated)
  items    [{n, b, r: [[region, delta]], v: [value or [] per source]}]      scalar items
  glyphs   [{n, den, pts, ends, tv: [{r, d}], m: [points or [] per source]}] outline items

`[]` as a master value means: this master does not supply the item (glyph not in the master, empty
outline in a non-default master, advance sentinel 0xFFFF, post sentinel -0x8000, table absent) -- the
conventions varLib documents for sparse masters."""
from fractions import Fraction as F

MAXI = 2**31 - 1

# OpenType MVAR value tags (OpenType spec, 'MVAR' "Value tags")
MVAR_TAGS = {
    "hasc": ("OS/2", "sTypoAscender"), "hdsc": ("OS/2", "sTypoDescender"), "hlgp": ("OS/2", "sTypoLineGap"),
    "hcla": ("OS/2", "usWinAscent"), "hcld": ("OS/2", "usWinDescent"), "vasc": ("vhea", "ascent"),
    "vdsc": ("vhea", "descent"), "vlgp": ("vhea", "lineGap"), "hcrs": ("hhea", "caretSlopeRise"),
    "hcrn": ("hhea", "caretSlopeRun"), "hcof": ("hhea", "caretOffset"), "vcrs": ("vhea", "caretSlopeRise"),
    "vcrn": ("vhea", "caretSlopeRun"), "vcof": ("vhea", "caretOffset"), "xhgt": ("OS/2", "sxHeight"),
    "cpht": ("OS/2", "sCapHeight"), "sbxs": ("OS/2", "ySubscriptXSize"), "sbys": ("OS/2", "ySubscriptYSize"),
    "sbxo": ("OS/2", "ySubscriptXOffset"), "sbyo": ("OS/2", "ySubscriptYOffset"), "spxs": ("OS/2", "ySuperscriptXSize"),
    "spys": ("OS/2", "ySuperscriptYSize"), "spxo": ("OS/2", "ySuperscriptXOffset"), "spyo": ("OS/2", "ySuperscriptYOffset"),
    "strs": ("OS/2", "yStrikeoutSize"), "stro": ("OS/2", "yStrikeoutPosition"), "unds": ("post", "underlineThickness"),
    "undo": ("post", "underlinePosition"),
}
POST_SENTINEL = -0x8000
ADVANCE_SENTINEL = 0xFFFF


class OutOfDomain(Exception):
    """the font uses something the projection does not model (counted as a skip)"""


def fr(x):
    """exact value of an int / Fraction / float"""
    if isinstance(x, F):
        return x
    if isinstance(x, int):
        return F(x)
    return F(float(x))


def rat(x):
    f = fr(x)
    if abs(f.numerator) > MAXI or f.denominator > MAXI:
        raise OutOfDomain("value beyond 31 bits")
    return [f.numerator, f.denominator]


def integer(x):
    """items are design-unit integers"""
    f = fr(x)
    if f.denominator != 1 or abs(f.numerator) > MAXI:
        raise OutOfDomain("item value that is not a 31-bit integer")
    return int(f)


def glyph_mag(rec):
    """largest |coordinate| + sum over tuples of the largest |delta| (overflow guard of the integer path)"""
    big = 0
    for p in rec["pts"]:
        big = max(big, abs(p[0]), abs(p[1]))
    for m in rec["m"]:
        for p in m:
            big = max(big, abs(p[0]), abs(p[1]))
    for tv in rec["tv"]:
        big += max([max(abs(d[0]), abs(d[1])) for d in tv["d"] if d] + [0])
    return min(big, MAXI)


class Regions:
    def __init__(self, tags):
        self.tags = tags
        self.index = {}
        self.list = []

    def add(self, support):
        """support: {tag: (lo, pk, hi)} (axes not mentioned do not participate)"""
        key = tuple(tuple(fr(v) for v in support.get(t, (0, 0, 0))) for t in self.tags)
        i = self.index.get(key)
        if i is None:
            i = self.index[key] = len(self.list)
            self.list.append([[rat(v) for v in tent] for tent in key])
        return i

    def store(self, varstore):
        """region index map of an ItemVariationStore"""
        out = []
        for reg in varstore.VarRegionList.Region:
            sup = {}
            for tag, ax in zip(self.tags, reg.VarRegionAxis):
                sup[tag] = (ax.StartCoord, ax.PeakCoord, ax.EndCoord)
            out.append(self.add(sup))
        return out


def store_rows(varstore, rmap, outer, inner):
    if outer == 0xFFFF and inner == 0xFFFF:
        return []
    if outer >= len(varstore.VarData) or inner >= len(varstore.VarData[outer].Item):
        raise OutOfDomain("variation index outside its store")
    vd = varstore.VarData[outer]
    return [[rmap[ri], integer(d)] for ri, d in zip(vd.VarRegionIndex, vd.Item[inner]) if d]


def dev_index(dev):
    if dev is not None and getattr(dev, "DeltaFormat", 0) == 0x8000:
        return (dev.StartSize, dev.EndSize)
    return None


# ------------------------------------------------------------------------------------------------
# axes
# ------------------------------------------------------------------------------------------------
def project_axes(vf):
    fvar = [[rat(a.minValue), rat(a.defaultValue), rat(a.maxValue)] for a in vf["fvar"].axes]
    tags = [a.axisTag for a in vf["fvar"].axes]
    avar = [[] for _ in tags]
    if "avar" in vf:
        if getattr(vf["avar"], "majorVersion", 1) != 1 or getattr(vf["avar"], "table", None) is not None and getattr(vf["avar"].table, "VarStore", None) is not None:
            raise OutOfDomain("avar version 2 (designspace <mappings>)")
        for i, t in enumerate(tags):
            seg = vf["avar"].segments.get(t, {})
            avar[i] = [[rat(k), rat(v)] for k, v in sorted(seg.items())]
    return tags, fvar, avar


# ------------------------------------------------------------------------------------------------
# TrueType outlines
# ------------------------------------------------------------------------------------------------
def tt_points(font, g):
    """([(x, y)] incl. the two horizontal phantom points, ends, empty?) or None if the font lacks g"""
    glyf = font["glyf"]
    if g not in glyf.glyphs or g not in font["hmtx"].metrics:
        return None
    gl = glyf[g]
    if gl.isComposite():
        pts = []
        for c in gl.components:
            if not hasattr(c, "x"):
                raise OutOfDomain("composite positioned by point matching")
            pts.append((c.x, c.y))
        ends = list(range(len(pts)))
        empty = False
    elif gl.numberOfContours == 0 or not hasattr(gl, "coordinates"):
        pts, ends, empty = [], [], True
    else:
        pts = [(int(x), int(y)) for x, y in gl.coordinates]
        ends = [int(e) for e in gl.endPtsOfContours]
        empty = False
    if empty:
        xmin = 0
    else:
        allc = gl.getCoordinates(glyf)[0]
        xmin = min(int(x) for x, _ in allc) if len(allc) else 0
    adv, lsb = font["hmtx"].metrics[g]
    left = xmin - lsb
    return pts + [(left, 0), (left + adv, 0)], ends, empty, adv


def project_gvar(vf, masters, regions, names, skips):
    out = []
    gvar = vf["gvar"] if "gvar" in vf else None
    for g in names:
        try:
            dflt = tt_points(vf, g)
            if dflt is None:
                continue
            pts, ends, dempty, _adv = dflt
            n = len(pts) + 2  # with the vertical phantom points (not compared)
            tvs = []
            for tv in (gvar.variations.get(g, []) if gvar is not None else []):
                if len(tv.coordinates) != n:
                    raise OutOfDomain("gvar tuple length differs from the glyph")
                tvs.append({"r": regions.add(tv.axes),
                            "d": [[] if d is None else [int(d[0]), int(d[1])] for d in tv.coordinates]})
            ms = []
            for i, m in enumerate(masters):
                mp = tt_points(m, g) if "glyf" in m else None
                if mp is None:
                    ms.append([])
                elif not dempty and mp[2]:
                    ms.append([])  # empty outline in a non-default master = glyph missing (sparse)
                elif mp[3] == ADVANCE_SENTINEL:
                    # metrics do not participate: the outline does, the phantom points cannot be stated
                    ms.append([])
                    skips["gvar: master glyph with the advance sentinel"] = skips.get("gvar: master glyph with the advance sentinel", 0) + 1
                else:
                    ms.append([list(p) for p in mp[0]])
            rec = {"n": g, "den": 1, "pts": [list(p) for p in pts] + [[0, 0], [0, 0]], "ends": ends,
                   "cmp": len(pts), "tv": tvs, "m": ms}
            rec["mag"] = glyph_mag(rec)
            out.append(rec)
        except OutOfDomain as e:
            skips["gvar: " + str(e)] = skips.get("gvar: " + str(e), 0) + 1
    return out


# ------------------------------------------------------------------------------------------------
# CFF / CFF2 outlines
# ------------------------------------------------------------------------------------------------
def _cff_top(font):
    tag = "CFF2" if "CFF2" in font else "CFF "
    return font[tag].cff.topDictIndex[0]


def cff_path(cs, nregions_of):
    """absolute points of a charstring: [(kind, [x0, dx_1..dx_k], [y0, dy_1..dy_k])], vsindex.
    Blend operands carry one delta per region; plain operands none."""
    from fontTools.cffLib.specializer import generalizeCommands, programToCommands

    cs.decompile()
    try:
        cmds = generalizeCommands(programToCommands(list(cs.program), getNumRegions=nregions_of))
    except Exception as e:
        raise OutOfDomain("charstring the specializer cannot generalise (%s)" % type(e).__name__)
    vsindex = 0
    k = None
    x = y = None
    pts = []

    def operand(a):
        if isinstance(a, list):
            if a[-1] != 1:
                raise OutOfDomain("nested blend")
            return [fr(v) for v in a[:-1]]
        return [fr(a)]

    def addv(acc, o):
        if len(o) > len(acc):
            acc = acc + [F(0)] * (len(o) - len(acc))
        return [a + (o[i] if i < len(o) else 0) for i, a in enumerate(acc)]

    cx, cy = [F(0)], [F(0)]
    for op, args in cmds:
        if op == "vsindex":
            vsindex = int(args[0])
        elif op in ("rmoveto", "rlineto"):
            cx, cy = addv(cx, operand(args[0])), addv(cy, operand(args[1]))
            pts.append(("M" if op == "rmoveto" else "L", cx, cy))
        elif op == "rrcurveto":
            for j in range(3):
                cx, cy = addv(cx, operand(args[2 * j])), addv(cy, operand(args[2 * j + 1]))
                pts.append(("C%d" % j, cx, cy))
        elif op in ("", "endchar", "hstem", "vstem", "hstemhm", "vstemhm", "hintmask", "cntrmask"):
            continue
        else:
            raise OutOfDomain("charstring operator %s" % op)
    return pts, vsindex


def drawn_path(font, g):
    """[(kind, x, y)] of a master glyph as its charstring draws it (subroutines resolved)"""
    from fontTools.pens.recordingPen import RecordingPen

    pen = RecordingPen()
    try:
        # varLib.build leaves its merging extractor installed on the masters' charstrings
        _cff_top(font).CharStrings[g].__dict__.pop("outlineExtractor", None)
        font.getGlyphSet()[g].draw(pen)
    except Exception as e:
        raise OutOfDomain("master charstring cannot be drawn (%s)" % type(e).__name__)
    out = []
    for op, args in pen.value:
        if op == "moveTo":
            out.append(("M", args[0][0], args[0][1]))
        elif op == "lineTo":
            out.append(("L", args[0][0], args[0][1]))
        elif op == "curveTo":
            if len(args) != 3:
                raise OutOfDomain("curve with %d points" % len(args))
            out += [("C%d" % j, a[0], a[1]) for j, a in enumerate(args)]
        elif op in ("closePath", "endPath"):
            continue
        else:
            raise OutOfDomain("pen operator %s" % op)
    return out


def unmerge_lines(mpts, kinds):
    """The charstring specializer (no topology preservation) writes two consecutive lines along the same
    axis as one; the master keeps both.  Where a run of lines is longer in the master than in the built
    font by exactly the number of such interior points, drop them (same outline, canonical form).
    Anything else is left alone (and shows as a structure mismatch / ambiguity)."""
    def runs(ks):
        out, i = [], 0
        while i < len(ks):
            if ks[i] == "L":
                j = i
                while j < len(ks) and ks[j] == "L":
                    j += 1
                out.append((i, j))
                i = j
            else:
                out.append((i, i + 1))
                i += 1
        return out

    mk = [p[0] for p in mpts]
    rm, rv = runs(mk), runs(kinds)
    if len(rm) != len(rv):
        return mpts
    drop = set()
    for (a, b), (c, d) in zip(rm, rv):
        if mk[a] != kinds[c]:
            return mpts
        extra = (b - a) - (d - c)
        if extra == 0:
            continue
        if mk[a] != "L" or extra < 0 or a == 0:
            return mpts
        cand = []
        for j in range(a, b - 1):
            (x0, y0), (x1, y1), (x2, y2) = mpts[j - 1][1:], mpts[j][1:], mpts[j + 1][1:]
            if (y0 == y1 == y2) or (x0 == x1 == x2):
                cand.append(j)
        if len(cand) != extra:
            raise OutOfDomain("line merging of the specializer cannot be undone unambiguously")
        drop |= set(cand)
    return [p for j, p in enumerate(mpts) if j not in drop]


def project_cff(vf, masters, regions, names, skips):
    out = []
    top = _cff_top(vf)
    css = top.CharStrings
    store = top.VarStore.otVarStore if getattr(top, "VarStore", None) is not None else None
    rmap = regions.store(store) if store is not None else []
    for g in names:
        try:
            if g not in css.keys():
                continue
            cs = css[g]
            pts, vsindex = cff_path(cs, cs.getNumRegions)
            ris = [rmap[i] for i in store.VarData[vsindex].VarRegionIndex] if store is not None and store.VarData else []
            nreg = max([len(p[1]) - 1 for p in pts] + [len(p[2]) - 1 for p in pts] + [0])
            if nreg > len(ris):
                raise OutOfDomain("blend with more deltas than regions")
            den = 1
            for _, xs, ys in pts:
                for v in xs + ys:
                    den = max(den, v.denominator)
            if den > 65536 or any((v * den).denominator != 1 for _, xs, ys in pts for v in xs + ys):
                raise OutOfDomain("charstring operand finer than 16.16")

            def sc(v):
                w = v * den
                if abs(w.numerator) > MAXI:
                    raise OutOfDomain("value beyond 31 bits")
                return int(w)

            tvs = []
            for k in range(nreg):
                d = [[sc(xs[k + 1]) if k + 1 < len(xs) else 0, sc(ys[k + 1]) if k + 1 < len(ys) else 0] for _, xs, ys in pts]
                if any(a or b for a, b in d):
                    tvs.append({"r": ris[k], "d": d + [[0, 0]] * 4})
            kinds = [p[0] for p in pts]
            dempty = not pts
            ms = []
            for i, m in enumerate(masters):
                if "CFF " not in m and "CFF2" not in m:
                    ms.append([])
                    continue
                mcs = _cff_top(m).CharStrings
                if g not in mcs.keys():
                    ms.append([])
                    continue
                mpts = drawn_path(m, g)
                if not mpts and not dempty:
                    ms.append([])
                    continue
                if [p[0] for p in mpts] != kinds:
                    mpts = unmerge_lines(mpts, kinds)
                if [p[0] for p in mpts] != kinds:
                    ms.append([[12345678, 12345678]])  # a different path structure: shows as a point-count mismatch
                    continue
                ms.append([[sc(fr(x)), sc(fr(y))] for _, x, y in mpts])
            ends = [i - 1 for i, kd in enumerate(kinds) if kd == "M" and i > 0] + ([len(kinds) - 1] if kinds else [])
            rec = {"n": g, "den": den, "pts": [[sc(xs[0]), sc(ys[0])] for _, xs, ys in pts] + [[0, 0]] * 4, "ends": ends,
                   "cmp": len(pts), "tv": tvs, "m": ms}
            rec["mag"] = glyph_mag(rec)
            out.append(rec)
        except OutOfDomain as e:
            skips["cff: " + str(e)] = skips.get("cff: " + str(e), 0) + 1
    return out


# ------------------------------------------------------------------------------------------------
# HVAR / VVAR, MVAR
# ------------------------------------------------------------------------------------------------
def project_advances(vf, masters, regions, names, skips, tag="HVAR", mtx="hmtx", mapattr="AdvWidthMap"):
    if tag not in vf or mtx not in vf:
        return []
    table = vf[tag].table
    rmap = regions.store(table.VarStore)
    amap = getattr(table, mapattr, None)
    order = vf.getGlyphOrder()
    out = []
    for g in names:
        if g not in vf[mtx].metrics:
            continue
        try:
            if amap is not None:
                vi = amap.mapping[g]
                outer, inner = vi >> 16, vi & 0xFFFF
            else:
                outer, inner = 0, order.index(g)
            vals = []
            for i, m in enumerate(masters):
                if mtx not in m or g not in m[mtx].metrics or m[mtx].metrics[g][0] == ADVANCE_SENTINEL:
                    vals.append([])
                else:
                    vals.append([integer(m[mtx].metrics[g][0])])
            out.append({"n": "%s:%s" % (tag, g), "b": integer(vf[mtx].metrics[g][0]), "r": store_rows(table.VarStore, rmap, outer, inner), "v": vals})
        except OutOfDomain as e:
            skips["%s: %s" % (tag, e)] = skips.get("%s: %s" % (tag, e), 0) + 1
    return out


def project_mvar(vf, masters, regions, skips):
    recs = {}
    rmap = []
    if "MVAR" in vf:
        rmap = regions.store(vf["MVAR"].table.VarStore)
        for r in vf["MVAR"].table.ValueRecord:
            recs[r.ValueTag] = r.VarIdx
    out = []
    for tag, (tbl, field) in sorted(MVAR_TAGS.items()):
        if tbl not in vf or not hasattr(vf[tbl], field):
            continue
        vals = []
        for m in masters:
            if tbl not in m or not hasattr(m[tbl], field):
                vals.append([])
            elif tag in ("unds", "undo") and getattr(m[tbl], field) == POST_SENTINEL:
                vals.append([])
            else:
                vals.append([getattr(m[tbl], field)])
        try:
            vals = [v if not v else [integer(v[0])] for v in vals]
            rows = []
            if tag in recs:
                rows = store_rows(vf["MVAR"].table.VarStore, rmap, recs[tag] >> 16, recs[tag] & 0xFFFF)
            out.append({"n": "MVAR:" + tag, "b": integer(getattr(vf[tbl], field)), "r": rows, "v": vals})
        except OutOfDomain as e:
            skips["MVAR: " + str(e)] = skips.get("MVAR: " + str(e), 0) + 1
    return out


# ------------------------------------------------------------------------------------------------
# GPOS (values located by what they position, not by where they sit in the table)
# ------------------------------------------------------------------------------------------------
VR_FIELDS = [("XPlacement", "XPlaDevice"), ("YPlacement", "YPlaDevice"), ("XAdvance", "XAdvDevice"), ("YAdvance", "YAdvDevice")]


def _subtables(lookup):
    for st in lookup.SubTable:
        if lookup.LookupType == 9:
            yield st.ExtensionLookupType, st.ExtSubTable
        else:
            yield lookup.LookupType, st


def _valrec(vr):
    """{field: (value, variation index or None)}"""
    out = {}
    for f, d in VR_FIELDS:
        out[f] = (getattr(vr, f, 0) or 0, dev_index(getattr(vr, d, None))) if vr is not None else (0, None)
    return out


def _anchor(a):
    if a is None:
        return None
    return {"x": (a.XCoordinate, dev_index(getattr(a, "XDeviceTable", None)) if a.Format == 3 else None),
            "y": (a.YCoordinate, dev_index(getattr(a, "YDeviceTable", None)) if a.Format == 3 else None)}


def pair_value(lookup, g1, g2):
    """the adjustment a PairPos lookup makes to the pair (OpenType: first subtable that applies)"""
    for typ, st in _subtables(lookup):
        if typ != 2 or g1 not in st.Coverage.glyphs:
            continue
        if st.Format == 1:
            ps = st.PairSet[st.Coverage.glyphs.index(g1)]
            for pvr in ps.PairValueRecord:
                if pvr.SecondGlyph == g2:
                    return _valrec(getattr(pvr, "Value1", None)), _valrec(getattr(pvr, "Value2", None))
            continue
        c1 = st.ClassDef1.classDefs.get(g1, 0) if st.ClassDef1 else 0
        c2 = st.ClassDef2.classDefs.get(g2, 0) if st.ClassDef2 else 0
        rec = st.Class1Record[c1].Class2Record[c2]
        return _valrec(getattr(rec, "Value1", None)), _valrec(getattr(rec, "Value2", None))
    return _valrec(None), _valrec(None)


def pair_candidates(lookup):
    out = []
    for typ, st in _subtables(lookup):
        if typ != 2:
            continue
        if st.Format == 1:
            for g1, ps in zip(st.Coverage.glyphs, st.PairSet):
                out += [(g1, pvr.SecondGlyph) for pvr in ps.PairValueRecord]
        else:
            cd1 = st.ClassDef1.classDefs if st.ClassDef1 else {}
            cd2 = st.ClassDef2.classDefs if st.ClassDef2 else {}
            firsts = {}
            for g in st.Coverage.glyphs:
                firsts.setdefault(cd1.get(g, 0), g)
            seconds = {}
            for g, c in sorted(cd2.items()):
                seconds.setdefault(c, g)
            for c1, g1 in sorted(firsts.items()):
                for c2, g2 in sorted(seconds.items()):
                    out.append((g1, g2))
    return out


def attach_value(lookup, base, mark):
    """(mark anchor, base anchor) a MarkBasePos / MarkMarkPos lookup uses for the pair, or None"""
    for typ, st in _subtables(lookup):
        if typ == 4:
            mc, bc, ma, ba = st.MarkCoverage, st.BaseCoverage, st.MarkArray, st.BaseArray.BaseRecord
            get = lambda rec, c: rec.BaseAnchor[c]
        elif typ == 6:
            mc, bc, ma, ba = st.Mark1Coverage, st.Mark2Coverage, st.Mark1Array, st.Mark2Array.Mark2Record
            get = lambda rec, c: rec.Mark2Anchor[c]
        else:
            continue
        if mark not in mc.glyphs or base not in bc.glyphs:
            continue
        mr = ma.MarkRecord[mc.glyphs.index(mark)]
        b = get(ba[bc.glyphs.index(base)], mr.Class)
        if b is None:
            continue
        return _anchor(mr.MarkAnchor), _anchor(b)
    return None


def attach_candidates(lookup):
    out = []
    for typ, st in _subtables(lookup):
        if typ == 4:
            out += [(b, m) for b in st.BaseCoverage.glyphs for m in st.MarkCoverage.glyphs]
        elif typ == 6:
            out += [(b, m) for b in st.Mark2Coverage.glyphs for m in st.Mark1Coverage.glyphs]
    return out


def single_value(lookup, g):
    for typ, st in _subtables(lookup):
        if typ != 1 or g not in st.Coverage.glyphs:
            continue
        return _valrec(st.Value if st.Format == 1 else st.Value[st.Coverage.glyphs.index(g)])
    return _valrec(None)


def cursive_value(lookup, g):
    for typ, st in _subtables(lookup):
        if typ != 3 or g not in st.Coverage.glyphs:
            continue
        rec = st.EntryExitRecord[st.Coverage.glyphs.index(g)]
        return _anchor(rec.EntryAnchor), _anchor(rec.ExitAnchor)
    return None


def project_gpos(vf, masters, regions, rng, skips, per_lookup=40):
    if "GPOS" not in vf or vf["GPOS"].table.LookupList is None:
        return []
    lookups = vf["GPOS"].table.LookupList.Lookup
    store = vf["GDEF"].table.VarStore if "GDEF" in vf and getattr(vf["GDEF"].table, "VarStore", None) is not None else None
    rmap = regions.store(store) if store is not None else []
    mlook = []
    for m in masters:
        if "GPOS" not in m or m["GPOS"].table.LookupList is None:
            mlook.append(None)
        else:
            ml = m["GPOS"].table.LookupList.Lookup
            mlook.append(ml if len(ml) == len(lookups) else "differs")
    if any(x == "differs" for x in mlook):
        skips["GPOS: masters with a different number of lookups"] = skips.get("GPOS: masters with a different number of lookups", 0) + 1
        return []
    items = []

    def emit(name, vfv, mvs):
        """vfv: (value, varidx); mvs: per master value or None"""
        if vfv is None and all(v is None for v in mvs):
            return
        if vfv is None:
            vfv = (0, None)
        base, vi = vfv
        if vi is None and all(v is None or v == base for v in mvs):
            if base == 0:
                return
        try:
            if vi is not None and store is None:
                raise OutOfDomain("variation index without GDEF store")
            rows = store_rows(store, rmap, vi[0], vi[1]) if vi is not None else []
            items.append({"n": name, "b": integer(base), "r": rows, "v": [[] if v is None else [integer(v)] for v in mvs]})
        except OutOfDomain as e:
            skips["GPOS: " + str(e)] = skips.get("GPOS: " + str(e), 0) + 1

    def pick(c):
        c = sorted(set(c))
        return c if len(c) <= per_lookup else sorted(rng.sample(c, per_lookup))

    for li, lk in enumerate(lookups):
        types = {t for t, _ in _subtables(lk)}
        try:
            if types == {2}:
                for g1, g2 in pick(pair_candidates(lk)):
                    v = pair_value(lk, g1, g2)
                    ms = [None if ml is None else pair_value(ml[li], g1, g2) for ml in mlook]
                    for side in (0, 1):
                        for f, _ in VR_FIELDS:
                            emit("GPOS:pair:%d:%s:%s:%s%d" % (li, g1, g2, f, side + 1), v[side][f],
                                 [None if mv is None else mv[side][f][0] for mv in ms])
            elif types <= {4, 6} and types:
                for b, mk in pick(attach_candidates(lk)):
                    v = attach_value(lk, b, mk)
                    ms = [None if ml is None else attach_value(ml[li], b, mk) for ml in mlook]
                    for ai, an in enumerate(("mark", "base")):
                        for c in ("x", "y"):
                            emit("GPOS:attach:%d:%s:%s:%s.%s" % (li, b, mk, an, c), None if v is None else v[ai][c],
                                 [None if mv is None else mv[ai][c][0] for mv in ms])
            elif types == {1}:
                gl = pick([g for _, st in _subtables(lk) for g in st.Coverage.glyphs])
                for g in gl:
                    v = single_value(lk, g)
                    ms = [None if ml is None else single_value(ml[li], g) for ml in mlook]
                    for f, _ in VR_FIELDS:
                        emit("GPOS:single:%d:%s:%s" % (li, g, f), v[f], [None if mv is None else mv[f][0] for mv in ms])
            elif types == {3}:
                gl = pick([g for _, st in _subtables(lk) for g in st.Coverage.glyphs])
                for g in gl:
                    v = cursive_value(lk, g)
                    ms = [None if ml is None else cursive_value(ml[li], g) for ml in mlook]
                    for ai, an in enumerate(("entry", "exit")):
                        for c in ("x", "y"):
                            emit("GPOS:cursive:%d:%s:%s.%s" % (li, g, an, c), None if v is None or v[ai] is None else v[ai][c],
                                 [None if mv is None or mv[ai] is None else mv[ai][c][0] for mv in ms])
            elif types & {1, 2, 3, 4, 5, 6}:
                key = "GPOS: lookup kind not compared (%s)" % sorted(types)
                skips[key] = skips.get(key, 0) + 1
        except (AttributeError, IndexError, TypeError) as e:
            key = "GPOS: lookup shape not handled by the projection (%s)" % type(e).__name__
            skips[key] = skips.get(key, 0) + 1
    return items
