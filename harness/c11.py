"""C11 — compiled feature files do what their rules say.

(M) MC_FeaSem: TLC enumerates feature-file programs (abstract syntax of FeaSem.tla) from a
    program-builder machine over glyphs a..e + marks m n, checks FeaSem/OTLSem internal laws on
    every one of them and emits them (GEN) — exhaustively for small programs, by seeded
    simulation for larger ones.
(R) every emitted program is printed as FEA text by the small printer below (cross-checked:
    the projection of feaLib's parse tree must be the program), compiled with the real
    addOpenTypeFeaturesFromString onto a FontBuilder font, saved, and observed twice:
    HarfBuzz shapes every input glyph sequence up to length 3 (4 thorough) over the program's
    glyphs, and otl_project reads the tables back structurally.
(V) Trace_C11: TLC computes Shape(Meaning(program), seq) and requires equality with HarfBuzz
    and with OTLSem on the projected tables, plus PrintParseFixedPoint on interned ids.
    The 163 corpus .fea files go through the fixed-point clauses; those inside FeaSem's subset
    also through the shaping judge with probe sequences derived from their own rules."""
import io
import itertools
import json
import os
import re

from . import common
from .common import MachineryError

LEVEL = "model_checking"

GLYPHS = ["a", "b", "c", "d", "e", "m", "n"]  # abstract ids 1..7 == glyph ids in the test font
NG = len(GLYPHS)
ADV = [500 + 10 * (i + 1) for i in range(NG)]
FLAGNAMES = [(1, "RightToLeft"), (2, "IgnoreBaseGlyphs"), (4, "IgnoreLigatures"), (8, "IgnoreMarks")]


# smoke-test knob for the thorough tier only (scales the number of programs); registered commands leave it at 1
SCALE = float(os.environ.get("C11_SCALE", "1") or 1)

# FeaSem folds over statements recursively; give TLC's worker threads a deep stack
JVM_ENV = {"JAVA_TOOL_OPTIONS": "-Xss64m"}


_START = __import__("threading").Lock()


def tlc_staggered(chk, *a, **kw):
    """chk.tlc from several threads: Check.tlc numbers its scratch files in its first statements, so
    concurrent calls are started at least 0.4 s apart (the runs themselves overlap)."""
    import threading

    _START.acquire()
    threading.Timer(0.4, _START.release).start()
    return chk.tlc(*a, **kw)


class Unsupported(Exception):
    pass


# ---------------------------------------------------------------------------
# the trusted printer: abstract program -> FEA text
# ---------------------------------------------------------------------------
class Printer:
    def __init__(self, names):
        self.names = names  # abstract id -> glyph name (index 0 unused)

    def g(self, i):
        return self.names[i]

    def ge(self, x):
        t, v = x["t"], x["v"]
        if t == "g":
            return self.g(v[0])
        if t == "c":
            return "[" + " ".join(self.g(i) for i in v) + "]"
        if t == "r":
            return "@C%d" % v[0]
        raise MachineryError("printer: glyph expression %r" % (x,))

    def ve(self, x):
        t, v = x["t"], x["v"]
        if t == "n":
            return "%d" % v[0]
        if t == "v":
            return "<%d %d %d %d>" % tuple(v)
        if t == "r":
            return "<V%d>" % v[0]
        raise MachineryError("printer: value expression %r" % (x,))

    @staticmethod
    def anchor(a):
        return "<anchor NULL>" if not a else "<anchor %d %d>" % tuple(a)

    def marks(self, as_):
        if not as_:
            return "<anchor NULL>"
        return " ".join("%s mark @M%d" % (self.anchor(x["a"]), x["m"]) for x in as_)

    def ctx(self, st, with_values):
        parts = [self.ge(x) for x in st["pre"]]
        for it in st["inp"]:
            if isinstance(it, dict) and "g" in it:
                s = self.ge(it["g"]) + "'"
                if with_values and it.get("v", {"t": "0"})["t"] != "0":
                    s += " " + self.ve(it["v"])
                for n in it.get("ref", []):
                    s += " lookup L%d" % n
            else:
                s = self.ge(it) + "'"
            parts.append(s)
        parts += [self.ge(x) for x in st["suf"]]
        return " ".join(parts)

    def body(self, stmts, ind):
        out = []
        for st in stmts:
            k = st["k"]
            if k == "flag":
                names = [n for bit, n in FLAGNAMES if st["f"] & bit]
                if st["ma"]:
                    names.append("MarkAttachmentType " + self.ge(st["ma"][0]))
                if st["mf"]:
                    names.append("UseMarkFilteringSet " + self.ge(st["mf"][0]))
                s = "lookupflag %s;" % (" ".join(names) if names else "0")
            elif k == "script":
                s = "script %s;" % st["s"].strip()
            elif k == "lang":
                s = "language %s%s;" % (st["l"].strip(), "" if st["inc"] else " exclude_dflt")
            elif k == "lookup":
                s = "lookup L%d {\n%s\n%s} L%d;" % (st["n"], self.body(st["body"], ind + "  "), ind, st["n"])
            elif k == "ref":
                s = "lookup L%d;" % st["n"]
            elif k == "subtable":
                s = "subtable;"
            elif k == "cls":
                s = "@C%d = [%s];" % (st["n"], " ".join(self.g(i) for i in st["gs"]))
            elif k == "mcls":
                s = "markClass [%s] %s @M%d;" % (" ".join(self.g(i) for i in st["gs"]), self.anchor(st["a"]), st["n"])
            elif k == "vr":
                s = "valueRecordDef <%d %d %d %d> V%d;" % (tuple(st["v"]) + (st["n"],))
            elif k == "sub":
                s = "sub %s by %s;" % (" ".join(self.ge(x) for x in st["i"]), " ".join(self.ge(x) for x in st["o"]))
            elif k == "alt":
                s = "sub %s from %s;" % (self.ge(st["i"]), self.ge(st["o"]))
            elif k == "csub":
                s = "sub " + self.ctx(st, False)
                if st["by"]:
                    s += " by " + " ".join(self.ge(x) for x in st["by"])
                s += ";"
            elif k == "isub":
                s = "ignore sub %s;" % self.ctx(st, False)
            elif k == "rsub":
                s = "rsub %s by %s;" % (self.ctx({"pre": st["pre"], "inp": [st["i"]], "suf": st["suf"]}, False), self.ge(st["o"]))
            elif k == "pos1":
                s = "pos %s %s;" % (self.ge(st["g"]), self.ve(st["v"]))
            elif k == "pos2":
                e = "enum " if st["enum"] else ""
                if st["v2"]["t"] == "0":
                    s = "%spos %s %s %s;" % (e, self.ge(st["g1"]), self.ge(st["g2"]), self.ve(st["v1"]))
                else:
                    s = "%spos %s %s %s %s;" % (e, self.ge(st["g1"]), self.ve(st["v1"]), self.ge(st["g2"]), self.ve(st["v2"]))
            elif k == "curs":
                s = "pos cursive %s %s %s;" % (self.ge(st["g"]), self.anchor(st["en"]), self.anchor(st["ex"]))
            elif k in ("mkb", "mkm"):
                s = "pos %s %s %s;" % ("base" if k == "mkb" else "mark", self.ge(st["g"]), self.marks(st["as"]))
            elif k == "mkl":
                s = "pos ligature %s %s;" % (self.ge(st["g"]), " ligComponent ".join(self.marks(c) for c in st["comps"]))
            elif k == "cpos":
                s = "pos %s;" % self.ctx(st, True)
            elif k == "ipos":
                s = "ignore pos %s;" % self.ctx(st, False)
            else:
                raise MachineryError("printer: statement kind %r" % k)
            out.append(ind + s)
        return "\n".join(out)

    def program(self, prog):
        out = []
        for st in prog:
            k = st["k"]
            if k == "ls":
                out.append("languagesystem %s %s;" % (st["s"].strip(), st["l"].strip()))
            elif k == "gdef":
                cl = lambda gs: ("[" + " ".join(self.g(i) for i in gs) + "]") if gs else ""
                out.append("table GDEF {\n  GlyphClassDef %s, %s, %s, ;\n} GDEF;" % (cl(st["b"]), cl(st["l"]), cl(st["m"])))
            elif k == "feature":
                out.append("feature %s {\n%s\n} %s;" % (st["t"], self.body(st["body"], "  "), st["t"]))
            else:
                out.append(self.body([st], ""))
        return "\n".join(out) + "\n"


# ---------------------------------------------------------------------------
# projection of feaLib's parse tree into the abstract syntax
# ---------------------------------------------------------------------------
class AstProj:
    def __init__(self, gid):
        self.gid = gid  # glyph name -> abstract id
        self.cls, self.mcls, self.vrs, self.lks = {}, {}, {}, {}

    def intern(self, table, name):
        """names printed by Printer (L3, C1, M2, V1) keep their number; other names are interned"""
        prefix = {id(self.cls): "C", id(self.mcls): "M", id(self.vrs): "V", id(self.lks): "L"}[id(table)]
        m = re.fullmatch(prefix + r"(\d{1,3})", name)
        if m:
            return int(m.group(1))
        if name not in table:
            table[name] = 1000 + len(table)
        return table[name]

    def gl(self, name):
        if name not in self.gid:
            raise Unsupported("glyph outside the glyph map")
        return self.gid[name]

    def ge(self, node):
        from fontTools.feaLib import ast

        if isinstance(node, ast.GlyphName):
            return {"t": "g", "v": [self.gl(node.glyph)]}
        if isinstance(node, ast.GlyphClassName):
            return {"t": "r", "v": [self.intern(self.cls, node.glyphclass.name)]}
        if isinstance(node, (ast.GlyphClass, ast.MarkClassName)):
            gs = list(node.glyphSet())
            if not gs:
                raise Unsupported("empty glyph class")
            return {"t": "c", "v": [self.gl(g) for g in gs]}
        raise Unsupported("glyph expression %s" % type(node).__name__)

    def ve(self, v):
        from fontTools.feaLib import ast

        if v is None:
            return {"t": "0", "v": []}
        if not isinstance(v, ast.ValueRecord):
            raise Unsupported("value %s" % type(v).__name__)
        if v.vertical:
            raise Unsupported("vertical value record")
        if any(getattr(v, a) for a in ("xPlaDevice", "yPlaDevice", "xAdvDevice", "yAdvDevice")):
            raise Unsupported("device table")
        vals = [v.xPlacement, v.yPlacement, v.xAdvance, v.yAdvance]
        if any(x is not None and not isinstance(x, int) for x in vals):
            raise Unsupported("variable scalar / non-integer value")
        if all(x is None for x in vals):
            raise Unsupported("NULL value record")
        if vals[0] is None and vals[1] is None and vals[3] is None:
            return {"t": "n", "v": [vals[2]]}
        return {"t": "v", "v": [x or 0 for x in vals]}

    def anchor(self, a):
        if a is None:
            return []
        if a.xDeviceTable or a.yDeviceTable:
            raise Unsupported("anchor device table")
        if not isinstance(a.x, int) or not isinstance(a.y, int):
            raise Unsupported("variable anchor")
        return [a.x, a.y]

    def marks(self, marks):
        return [{"a": self.anchor(a), "m": self.intern(self.mcls, mc.name)} for a, mc in marks]

    def refs(self, lookups):
        out = []
        for ls in lookups:
            out.append([] if not ls else [self.intern(self.lks, l.name) for l in ls])
        return out

    def body(self, stmts, infeature):
        from fontTools.feaLib import ast

        out = []
        for st in stmts:
            if isinstance(st, ast.Comment):
                continue
            if isinstance(st, ast.LookupFlagStatement):
                out.append({"k": "flag", "f": st.value & 0xF, "mf": [self.ge(st.markFilteringSet)] if st.markFilteringSet is not None else [],
                            "ma": [self.ge(st.markAttachment)] if st.markAttachment is not None else []})
                if st.value & ~0xF:
                    raise Unsupported("lookupflag bits beyond the named ones")
            elif isinstance(st, ast.ScriptStatement):
                out.append({"k": "script", "s": st.script})
            elif isinstance(st, ast.LanguageStatement):
                if st.required:
                    raise Unsupported("required feature")
                out.append({"k": "lang", "l": st.language, "inc": bool(st.include_default)})
            elif isinstance(st, ast.LookupBlock):
                if not infeature:
                    raise Unsupported("nested lookup outside feature")
                out.append({"k": "lookup", "n": self.intern(self.lks, st.name), "body": self.body(st.statements, True)})
            elif isinstance(st, ast.LookupReferenceStatement):
                out.append({"k": "ref", "n": self.intern(self.lks, st.lookup.name)})
            elif isinstance(st, ast.SubtableStatement):
                if not out or out[-1]["k"] not in ("pos2", "subtable"):
                    raise Unsupported("subtable statement outside pair positioning")
                out.append({"k": "subtable"})
            elif isinstance(st, ast.GlyphClassDefinition):
                out.append({"k": "cls", "n": self.intern(self.cls, st.name), "gs": [self.gl(g) for g in st.glyphSet()]})
            elif isinstance(st, ast.MarkClassDefinition):
                out.append({"k": "mcls", "n": self.intern(self.mcls, st.markClass.name), "gs": [self.gl(g) for g in st.glyphSet()], "a": self.anchor(st.anchor)})
            elif isinstance(st, ast.ValueRecordDefinition):
                v = self.ve(st.value)
                out.append({"k": "vr", "n": self.intern(self.vrs, st.name), "v": v["v"] if v["t"] == "v" else [0, 0, v["v"][0], 0]})
            elif isinstance(st, ast.AnchorDefinition):
                continue  # named anchors are resolved by the parser
            elif isinstance(st, ast.SingleSubstStatement):
                if st.prefix or st.suffix or st.forceChain:
                    out.append({"k": "csub", "pre": [self.ge(x) for x in st.prefix], "inp": [{"g": self.ge(x), "ref": []} for x in st.glyphs],
                                "suf": [self.ge(x) for x in st.suffix], "by": [self.ge(x) for x in st.replacements]})
                else:
                    out.append({"k": "sub", "i": [self.ge(x) for x in st.glyphs], "o": [self.ge(x) for x in st.replacements]})
            elif isinstance(st, ast.MultipleSubstStatement):
                rep = [self.ge(x) for x in st.replacement]
                if not rep or any(len(x["v"]) != 1 or x["t"] != "g" for x in rep):
                    raise Unsupported("multiple substitution with classes / deletion")
                if st.prefix or st.suffix or st.forceChain:
                    out.append({"k": "csub", "pre": [self.ge(x) for x in st.prefix], "inp": [{"g": self.ge(st.glyph), "ref": []}],
                                "suf": [self.ge(x) for x in st.suffix], "by": rep})
                else:
                    out.append({"k": "sub", "i": [self.ge(st.glyph)], "o": rep})
            elif isinstance(st, ast.LigatureSubstStatement):
                rep = {"t": "g", "v": [self.gl(st.replacement)]}
                if st.prefix or st.suffix or st.forceChain:
                    out.append({"k": "csub", "pre": [self.ge(x) for x in st.prefix], "inp": [{"g": self.ge(x), "ref": []} for x in st.glyphs],
                                "suf": [self.ge(x) for x in st.suffix], "by": [rep]})
                else:
                    out.append({"k": "sub", "i": [self.ge(x) for x in st.glyphs], "o": [rep]})
            elif isinstance(st, ast.AlternateSubstStatement):
                if st.prefix or st.suffix:
                    raise Unsupported("contextual alternate substitution")
                out.append({"k": "alt", "i": self.ge(st.glyph), "o": self.ge(st.replacement)})
            elif isinstance(st, ast.ChainContextSubstStatement):
                out.append({"k": "csub", "pre": [self.ge(x) for x in st.prefix],
                            "inp": [{"g": self.ge(g), "ref": r} for g, r in zip(st.glyphs, self.refs(st.lookups))],
                            "suf": [self.ge(x) for x in st.suffix], "by": []})
            elif isinstance(st, ast.IgnoreSubstStatement):
                for pre, gl, suf in st.chainContexts:
                    out.append({"k": "isub", "pre": [self.ge(x) for x in pre], "inp": [self.ge(x) for x in gl], "suf": [self.ge(x) for x in suf]})
            elif isinstance(st, ast.ReverseChainSingleSubstStatement):
                out.append({"k": "rsub", "pre": [self.ge(x) for x in st.old_prefix], "i": self.ge(st.glyphs[0]),
                            "suf": [self.ge(x) for x in st.old_suffix], "o": self.ge(st.replacements[0])})
            elif isinstance(st, ast.SinglePosStatement):
                if st.prefix or st.suffix or st.forceChain:
                    out.append({"k": "cpos", "pre": [self.ge(x) for x in st.prefix],
                                "inp": [{"g": self.ge(g), "ref": [], "v": self.ve(v)} for g, v in st.pos],
                                "suf": [self.ge(x) for x in st.suffix]})
                else:
                    for g, v in st.pos:
                        out.append({"k": "pos1", "g": self.ge(g), "v": self.ve(v)})
            elif isinstance(st, ast.PairPosStatement):
                out.append({"k": "pos2", "g1": self.ge(st.glyphs1), "g2": self.ge(st.glyphs2), "v1": self.ve(st.valuerecord1),
                            "v2": self.ve(st.valuerecord2), "enum": bool(st.enumerated)})
            elif isinstance(st, ast.CursivePosStatement):
                out.append({"k": "curs", "g": self.ge(st.glyphclass), "en": self.anchor(st.entryAnchor), "ex": self.anchor(st.exitAnchor)})
            elif isinstance(st, ast.MarkBasePosStatement):
                out.append({"k": "mkb", "g": self.ge(st.base), "as": self.marks(st.marks)})
            elif isinstance(st, ast.MarkMarkPosStatement):
                out.append({"k": "mkm", "g": self.ge(st.baseMarks), "as": self.marks(st.marks)})
            elif isinstance(st, ast.MarkLigPosStatement):
                out.append({"k": "mkl", "g": self.ge(st.ligatures), "comps": [self.marks(c or []) for c in st.marks]})
            elif isinstance(st, ast.ChainContextPosStatement):
                out.append({"k": "cpos", "pre": [self.ge(x) for x in st.prefix],
                            "inp": [{"g": self.ge(g), "ref": r, "v": {"t": "0", "v": []}} for g, r in zip(st.glyphs, self.refs(st.lookups))],
                            "suf": [self.ge(x) for x in st.suffix]})
            elif isinstance(st, ast.IgnorePosStatement):
                for pre, gl, suf in st.chainContexts:
                    out.append({"k": "ipos", "pre": [self.ge(x) for x in pre], "inp": [self.ge(x) for x in gl], "suf": [self.ge(x) for x in suf]})
            else:
                raise Unsupported("statement %s" % type(st).__name__)
        return out

    def program(self, ff):
        from fontTools.feaLib import ast

        out = []
        for st in ff.statements:
            if isinstance(st, ast.Comment):
                continue
            if isinstance(st, ast.LanguageSystemStatement):
                out.append({"k": "ls", "s": st.script, "l": st.language})
            elif isinstance(st, ast.TableBlock):
                if st.name != "GDEF":
                    continue  # other tables do not take part in layout
                for s2 in st.statements:
                    if isinstance(s2, ast.GlyphClassDefStatement):
                        if s2.componentGlyphs is not None and s2.componentGlyphs.glyphSet():
                            raise Unsupported("GDEF component class")
                        f = lambda c: [self.gl(g) for g in c.glyphSet()] if c is not None else []
                        out.append({"k": "gdef", "b": f(s2.baseGlyphs), "l": f(s2.ligatureGlyphs), "m": f(s2.markGlyphs)})
                    elif isinstance(s2, (ast.Comment, ast.AttachStatement, ast.LigatureCaretByIndexStatement, ast.LigatureCaretByPosStatement)):
                        continue
                    else:
                        raise Unsupported("GDEF statement %s" % type(s2).__name__)
            elif isinstance(st, ast.FeatureBlock):
                if st.name in ("aalt", "size") or st.name in __import__("harness.hb", fromlist=["x"]).PLAIN_TAG_BLACKLIST:
                    raise Unsupported("feature %s" % st.name)
                out.append({"k": "feature", "t": st.name, "body": self.body(st.statements, True)})
            elif isinstance(st, ast.LookupBlock):
                out.append({"k": "lookup", "n": self.intern(self.lks, st.name), "body": self.body(st.statements, False)})
            else:
                out += self.body([st], False)
        return out


VE_KEYS = ("v1", "v2")


def _is_ve_slot(parent, key):
    """does parent[key] hold a value expression (rather than a glyph expression / number list)?"""
    return key in VE_KEYS or (key == "v" and isinstance(parent.get("v"), dict))


def canon(prog):
    """Resolve value-record names (feaLib's parser does that while parsing)."""
    vrs = {}

    def collect(x):
        if isinstance(x, list):
            for y in x:
                collect(y)
        elif isinstance(x, dict):
            if x.get("k") == "vr":
                vrs[x["n"]] = x["v"]
            for v in x.values():
                collect(v)

    def fix(x):
        if isinstance(x, list):
            return [fix(y) for y in x]
        if isinstance(x, dict):
            out = {}
            for k, v in x.items():
                if _is_ve_slot(x, k) and isinstance(v, dict) and v.get("t") == "r":
                    out[k] = {"t": "v", "v": list(vrs[v["v"][0]])}
                else:
                    out[k] = fix(v)
            return out
        return x

    collect(prog)
    return fix(prog)


# ---------------------------------------------------------------------------
# real code: parse, print back, compile, save
# ---------------------------------------------------------------------------
_BASE = {}


def base_font(order, advs, axes=False):
    from fontTools.fontBuilder import FontBuilder
    from fontTools.pens.ttGlyphPen import TTGlyphPen

    key = (tuple(order), axes)
    if key not in _BASE:
        fb = FontBuilder(1000, isTTF=True)
        fb.setupGlyphOrder(list(order))
        fb.setupCharacterMap({})
        pen = TTGlyphPen(None)
        pen.moveTo((0, 0))
        pen.lineTo((100, 0))
        pen.lineTo((100, 100))
        pen.closePath()
        g = pen.glyph()
        fb.setupGlyf({n: g for n in order})
        fb.setupHorizontalMetrics({n: (advs.get(n, 600), 0) for n in order})
        fb.setupHorizontalHeader(ascent=800, descent=-200)
        fb.setupNameTable({"familyName": "C11", "styleName": "Regular"})
        fb.setupOS2()
        fb.setupPost()
        if axes:
            fb.setupFvar([("wght", 200, 200, 1000, "Weight"), ("wdth", 100, 100, 200, "Width")], [])
        bio = io.BytesIO()
        fb.font.save(bio)
        _BASE[key] = bio.getvalue()
    return _BASE[key]


def compile_fea(text, order, advs, axes=False, filename=None):
    """Compile FEA text onto a fresh copy of the base font, save, return the bytes."""
    from fontTools.ttLib import TTFont
    from fontTools.feaLib.builder import addOpenTypeFeaturesFromString, addOpenTypeFeatures

    font = TTFont(io.BytesIO(base_font(order, advs, axes)))
    if filename:
        addOpenTypeFeatures(font, filename)
    else:
        addOpenTypeFeaturesFromString(font, text)
    bio = io.BytesIO()
    font.save(bio)
    return bio.getvalue()


def layout_tables(data):
    from fontTools.ttLib import TTFont

    f = TTFont(io.BytesIO(data), lazy=True)
    return {tag: (bytes(f.reader[tag]) if tag in f.reader else b"") for tag in ("GSUB", "GPOS", "GDEF")}


def parse(text, glyphnames, filename=None, followIncludes=True):
    from fontTools.feaLib.parser import Parser

    src = filename if filename else io.StringIO(text)
    return Parser(src, glyphNames=glyphnames, followIncludes=followIncludes).parse()


def all_seqs(alphabet, maxlen):
    out = []
    for n in range(1, maxlen + 1):
        out += [list(s) for s in itertools.product(alphabet, repeat=n)]
    return out


def mentioned(prog):
    """glyph ids a program mentions anywhere (through named classes too)"""
    found = set()
    classes = {}

    def collect(x):
        if isinstance(x, list):
            for y in x:
                collect(y)
        elif isinstance(x, dict):
            if x.get("k") == "cls":
                classes[x["n"]] = x["gs"]
            for v in x.values():
                collect(v)

    def walk(x):
        if isinstance(x, list):
            for y in x:
                walk(y)
        elif isinstance(x, dict):
            if x.get("k") in ("cls", "mcls"):
                found.update(x["gs"])
            if x.get("k") == "gdef":
                found.update(x["b"] + x["l"] + x["m"])
            for k, v in x.items():
                if _is_ve_slot(x, k):
                    continue
                if isinstance(v, dict) and set(v.keys()) == {"t", "v"}:
                    found.update(classes.get(v["v"][0], []) if v["t"] == "r" else v["v"])
                else:
                    walk(v)

    def walk_top(x):
        # glyph expressions also occur as list elements (pre / suf / i / o / by / mf / ma)
        if isinstance(x, list):
            for y in x:
                walk_top(y)
        elif isinstance(x, dict):
            if set(x.keys()) == {"t", "v"}:
                found.update(classes.get(x["v"][0], []) if x["t"] == "r" else x["v"])
                return
            if x.get("k") in ("cls", "mcls"):
                found.update(x["gs"])
            if x.get("k") == "gdef":
                found.update(x["b"] + x["l"] + x["m"])
            for k, v in x.items():
                if _is_ve_slot(x, k) or k in ("v",):
                    continue
                walk_top(v)

    collect(prog)
    walk_top(prog)
    return {g for g in found if isinstance(g, int)}


def mentioned_via_classes(prog):
    """glyphs reached through named-class references inside rules"""
    classes = {st["n"]: st["gs"] for st in prog if st["k"] == "cls"}
    found = set()

    def walk(x):
        if isinstance(x, list):
            for y in x:
                walk(y)
        elif isinstance(x, dict):
            for k, v in x.items():
                if _is_ve_slot(x, k):
                    continue
                if isinstance(v, dict) and set(v.keys()) == {"t", "v"} and v["t"] == "r":
                    found.update(classes.get(v["v"][0], []))
                else:
                    walk(v)
            if set(x.keys()) == {"t", "v"} and x["t"] == "r" and isinstance(x["v"], list):
                found.update(classes.get(x["v"][0], []))

    walk([st for st in prog if st["k"] in ("feature", "lookup")])
    return found


def scripts_langs(prog):
    ss, ll = {"DFLT"}, {"dflt"}

    def walk(x):
        if isinstance(x, list):
            for y in x:
                walk(y)
        elif isinstance(x, dict):
            if x.get("k") == "ls":
                ss.add(x["s"])
                ll.add(x["l"])
            elif x.get("k") == "script":
                ss.add(x["s"])
            elif x.get("k") == "lang":
                ll.add(x["l"])
            for v in x.values():
                walk(v)

    walk(prog)
    return sorted(ss), sorted(ll)


def feature_tags(prog):
    return sorted({st["t"] for st in prog if st["k"] == "feature"})


def has_kind(prog, kinds):
    def walk(x):
        if isinstance(x, list):
            return any(walk(y) for y in x)
        if isinstance(x, dict):
            return x.get("k") in kinds or any(walk(v) for v in x.values())
        return False

    return walk(prog)


def fixed_point(text, names, order, advs, filename=None):
    """parse -> asFea -> parse -> asFea, and both texts compiled; returns the fp record (ids are
    interned per trace: equal ids <=> equal values) plus the first compilation's bytes."""
    from fontTools.feaLib.error import FeatureLibError

    ff1 = parse(text, names, filename)
    a1 = ff1.asFea()
    ff2 = parse(a1, names)
    a2 = ff2.asFea()
    ids = common.Interner()
    comp = []
    err = []
    for src, fn in ((text, filename), (a1, None)):
        data = None
        for axes in (False, True):
            try:
                data = compile_fea(src, order, advs, axes=axes, filename=fn)
                break
            except (FeatureLibError, KeyError, AssertionError, AttributeError, ValueError, TypeError) as e:
                err.append("%s: %s" % (type(e).__name__, str(e)[:200]))
        comp.append(data)
    tabs = []
    if comp[0] is not None and comp[1] is not None:
        t1, t2 = layout_tables(comp[0]), layout_tables(comp[1])
        for i, tag in enumerate(("GSUB", "GPOS", "GDEF")):
            tabs.append([i + 1, ids(t1[tag]), ids(t2[tag])])
    fp = {"a1": ids(a1), "a2": ids(a2), "c1": comp[0] is not None, "c2": comp[1] is not None, "tabs": tabs}
    return fp, comp[0], ff1, err, (a1, a2)


def observe(data, prog, gid_of, abs_of, universe, seqs, alts=(1,)):
    """HarfBuzz observations and table projection for one compiled program."""
    from fontTools.ttLib import TTFont
    from . import hb as H
    from .otl_project import project_layout

    font = TTFont(io.BytesIO(data))
    names = font.getGlyphOrder()
    gmap = {names[gid_of[a]]: a for a in universe}
    proj, unsupported = project_layout(font, gmap)
    sh = H.Shaper(data)
    tags = feature_tags(prog)
    present = set()
    for tb in ("gsub", "gpos"):
        present |= {r[2] for r in proj[tb]["fl"]}
    ss, ll = scripts_langs(prog)
    # (script, language) pairs: every one the program mentions, one absent language (falls back to the script's
    # default LangSys) and one absent script (falls back to DFLT); feature subsets only at the first pairs
    pairs = [("DFLT", "dflt")]
    for s in ss:
        if s != "DFLT":
            pairs += [(s, l) for l in ll]
    if len(ss) > 1 or len(ll) > 1:
        first = ([s for s in ss if s != "DFLT"] or ["DFLT"])[0]
        pairs += [(first, "ZZZ "), ("cyrl", "dflt")]
    configs = []
    singles = [[t] for t in tags] if len(tags) > 1 else []
    for i, (s, l) in enumerate(pairs):
        for fs in [tags] + (singles if i < 2 else []):
            for alt in alts:
                configs.append((s, l, fs, alt))
    probes = []
    for s, l, fs, alt in configs:
        feats = {t: (alt if t in fs else 0) for t in set(tags) | present}
        out = []
        for q in seqs:
            res = sh.shape_rel([gid_of[a] for a in q], feats, s, l)
            gl = [abs_of.get(r[0], 0) for r in res]
            adj = [[i + 1, r[1], r[2], r[3], r[4]] for i, r in enumerate(res) if r[1] or r[2] or r[3] or r[4]]
            out.append([] if (gl == q and not adj) else [gl, adj])  # [] = "unchanged": most probes, keeps the JSON small
        probes.append({"s": s, "l": l, "fs": fs, "alt": alt, "hb": out})
    return proj, unsupported, probes


# ---------------------------------------------------------------------------
# generated programs
# ---------------------------------------------------------------------------
def gen_case(arg):
    """worker: one generated abstract program -> trace dict (or an error record)"""
    from fontTools.feaLib.error import FeatureLibError

    prog, maxlen, seed, cap = arg
    names = [None] + GLYPHS
    order = [".notdef"] + GLYPHS
    advs = {n: ADV[i] for i, n in enumerate(GLYPHS)}
    text = Printer(names).program(prog)
    try:
        fp, data, ff, err, _ = fixed_point(text, order, order, advs)
    except FeatureLibError as e:
        return {"error": "parse: %s" % str(e)[:300], "text": text, "prog": prog}
    if data is None:
        return {"error": "compile: %s" % (err[0] if err else "?"), "text": text, "prog": prog}
    gid = {n: i + 1 for i, n in enumerate(GLYPHS)}
    try:
        ast_abs = AstProj(gid).program(ff)
    except Unsupported as e:
        return {"error": "ast-projection: %s" % e, "text": text, "prog": prog}
    # probe alphabet: the glyphs the rules mention, one glyph they do not, and a mark when GDEF has marks
    rel = sorted(mentioned([st for st in prog if st["k"] in ("feature", "lookup", "cls")]) - mentioned([st for st in prog if st["k"] == "cls"])
                 | mentioned_via_classes(prog))
    gdefs = [st for st in prog if st["k"] == "gdef"]
    marks = gdefs[0]["m"] if gdefs else []
    fresh = [g for g in range(1, NG + 1) if g not in rel and g not in marks]
    alphabet = rel + fresh[:1]
    if marks and not any(g in alphabet for g in marks):
        alphabet.append(marks[0])
    if maxlen > 3 and has_kind(prog, {"flag"}) and has_kind(prog, {"sub", "csub"}):
        maxlen = 3  # HarfBuzz's ligature-component bookkeeping is only provably inert up to length 3
    seqs = all_seqs(sorted(alphabet), min(maxlen, 2))
    import random
    rng = random.Random("%d-%s" % (seed, common.digest(prog)))
    for n in range(3, maxlen + 1):  # longer sequences: all of them, or a seeded sample of `cap`
        longer = [list(q) for q in itertools.product(sorted(alphabet), repeat=n)]
        if len(longer) > cap:
            longer = [longer[i] for i in sorted(rng.sample(range(len(longer)), cap))]
        seqs += longer
    alts = (1, 2) if has_kind(prog, {"alt"}) else (1,)
    ident = {i: i for i in range(1, NG + 1)}
    proj, unsupported, probes = observe(data, prog, ident, ident, list(range(1, NG + 1)), seqs, alts)
    if unsupported:
        return {"error": "projection-unsupported: %r" % (unsupported[:2],), "text": text, "prog": prog}
    ids = common.Interner()
    return {"sem": True, "prog": prog, "cprog": ids(json.dumps(canon(prog), sort_keys=True)), "ast": ids(json.dumps(ast_abs, sort_keys=True)),
            "nG": NG, "adv": ADV, "proj": proj, "seqs": seqs, "probes": probes, "fp": fp, "text": text}


def generate(chk):
    """Programs from the TLC program-builder machine: the exhaustive small configuration (with the
    internal laws as invariant) and, concurrently, NSLICES single-worker simulation runs (each
    deterministic for the seed; slice i starts from every NSLICES-th preamble)."""
    import time
    from concurrent.futures import ThreadPoolExecutor

    thorough = chk.tier == "thorough"
    nsl = 8
    num, depth = (140, 30) if not thorough else (max(20, int(1500 * SCALE)), 32)

    def exhaustive():
        return tlc_staggered(chk, "MC_FeaSem", cfg="MC_FeaSem_full" if thorough else "MC_FeaSem", workers=8, env=JVM_ENV,
                       label="MC_FeaSem exhaustive (laws + GEN)", timeout=2400)

    def slice_(i):
        return tlc_staggered(chk, "MC_FeaSem", cfg="MC_FeaSem_sim", simulate="num=%d" % num, depth=depth, workers=1, heap="2g",
                       env=dict(JVM_ENV, C11_SLICE=i, C11_NSLICES=nsl), label="MC_FeaSem simulation slice %d (GEN)" % i, timeout=2400)

    with ThreadPoolExecutor(nsl + 1) as ex:
        f0 = ex.submit(exhaustive)
        fs = [ex.submit(slice_, i) for i in range(nsl)]
        r = f0.result()
        sims = [f.result() for f in fs]
    small = list(dict.fromkeys(p[0] for p in r.prints.get("GEN", [])))
    chk.notes["mc_exhaustive"] = {"distinct_states": r.distinct, "complete_programs": len(small), "depth": r.depth, "wall_s": round(r.wall, 1)}
    chk.log("MC_FeaSem exhaustive: %d states, %d complete programs, laws hold" % (r.distinct, len(small)))
    seen = set(small)
    big = []
    for rs in sims:
        for p in rs.prints.get("GEN", []):
            if p[0] not in seen:
                seen.add(p[0])
                big.append(p[0])
    simstates = sum(int(m.group(1)) for x in sims for m in [re.search(r"The number of states generated: (\d+)", x.stdout)] if m)
    chk.transitions += simstates
    chk.notes["mc_simulation"] = {"slices": nsl, "walks_per_slice": num, "depth": depth, "complete_programs": len(big),
                                  "states_generated": simstates}
    chk.log("MC_FeaSem simulation: %d further complete programs" % len(big))
    return [json.loads(x) for x in small], [json.loads(x) for x in big]


def nontrivial_gen(t):
    """a generated case is non-trivial if some probe sequence is changed by shaping"""
    for pr in t["probes"]:
        if any(pr["hb"]):
            return True
    return False


# ---------------------------------------------------------------------------
# corpus
# ---------------------------------------------------------------------------
def test_glyph_order():
    glyphs = """
        .notdef space slash fraction semicolon period comma ampersand
        quotedblleft quotedblright quoteleft quoteright
        zero one two three four five six seven eight nine
        zero.oldstyle one.oldstyle two.oldstyle three.oldstyle
        four.oldstyle five.oldstyle six.oldstyle seven.oldstyle
        eight.oldstyle nine.oldstyle onequarter onehalf threequarters
        onesuperior twosuperior threesuperior ordfeminine ordmasculine
        A B C D E F G H I J K L M N O P Q R S T U V W X Y Z
        a b c d e f g h i j k l m n o p q r s t u v w x y z
        A.sc B.sc C.sc D.sc E.sc F.sc G.sc H.sc I.sc J.sc K.sc L.sc M.sc
        N.sc O.sc P.sc Q.sc R.sc S.sc T.sc U.sc V.sc W.sc X.sc Y.sc Z.sc
        A.alt1 A.alt2 A.alt3 B.alt1 B.alt2 B.alt3 C.alt1 C.alt2 C.alt3
        a.alt1 a.alt2 a.alt3 a.end b.alt c.mid d.alt d.mid
        e.begin e.mid e.end m.begin n.end s.end z.end
        Eng Eng.alt1 Eng.alt2 Eng.alt3
        A.swash B.swash C.swash D.swash E.swash F.swash G.swash H.swash
        I.swash J.swash K.swash L.swash M.swash N.swash O.swash P.swash
        Q.swash R.swash S.swash T.swash U.swash V.swash W.swash X.swash
        Y.swash Z.swash
        f_l c_h c_k c_s c_t f_f f_f_i f_f_l f_i o_f_f_i s_t f_i.begin
        a_n_d T_h T_h.swash germandbls ydieresis yacute breve
        grave acute dieresis macron circumflex cedilla umlaut ogonek caron
        damma hamza sukun kasratan lam_meem_jeem noon.final noon.initial
        by feature lookup sub table uni0327 uni0328 e.fina
        idotbelow idotless iogonek acutecomb brevecomb ogonekcomb dotbelowcomb
    """.split()
    glyphs.extend("cid{:05d}".format(cid) for cid in range(800, 1001 + 1))
    return glyphs


def glyph_names_in(ff):
    """every glyph name a parse tree mentions"""
    from fontTools.feaLib import ast

    found = []
    seen = set()

    def add(n):
        if isinstance(n, str) and n not in seen:
            seen.add(n)
            found.append(n)

    def walk(x, depth=0):
        if depth > 24 or x is None:
            return
        if isinstance(x, ast.GlyphName):
            add(x.glyph)
        elif isinstance(x, (ast.GlyphClass, ast.GlyphClassName, ast.MarkClassName)):
            for g in x.glyphSet():
                add(g)
        elif isinstance(x, (list, tuple)):
            for y in x:
                walk(y, depth + 1)
        elif isinstance(x, ast.MarkClass):
            for g in x.glyphs:
                add(g)
        elif isinstance(x, ast.Element):
            for k, v in vars(x).items():
                if k in ("location", "lookup", "lookups"):  # references to lookup blocks, not glyphs
                    continue
                if isinstance(v, str) and k in ("replacement", "glyph"):
                    add(v)
                else:
                    walk(v, depth + 1)

    walk(ff)
    return found


def rule_probes(prog, resolve, marks, limit):
    """probe sequences derived from a program's own rules"""
    out = []
    seen = set()

    def add(q):
        q = [g for g in q if g]
        if q and len(q) <= 8 and tuple(q) not in seen and len(out) < limit:
            seen.add(tuple(q))
            out.append(q)

    def picks(ges):
        sets = [resolve(x) for x in ges]
        if not all(sets):
            return []
        res = [[s[0] for s in sets], [s[-1] for s in sets]]
        if len(sets) <= 3:
            for combo in itertools.islice(itertools.product(*[s[:3] for s in sets]), 12):
                res.append(list(combo))
        return res

    def with_marks(q):
        add(q)
        if marks and len(q) >= 2:
            add(q[:1] + [marks[0]] + q[1:])
        if len(q) <= 3:
            add(q + q[:1])
            add(q[-1:] + q)

    def walk(stmts):
        for st in stmts:
            k = st["k"]
            if k in ("lookup", "feature"):
                walk(st["body"])
            elif k == "sub":
                for q in picks(st["i"]):
                    with_marks(q)
                for q in picks(st["o"][:1]):
                    add(q)
            elif k == "alt":
                for q in picks([st["i"]]):
                    with_marks(q)
            elif k in ("csub", "cpos"):
                for q in picks(st["pre"] + [it["g"] for it in st["inp"]] + st["suf"]):
                    with_marks(q)
                for q in picks([it["g"] for it in st["inp"]]):
                    add(q)
            elif k in ("isub", "ipos"):
                for q in picks(st["pre"] + st["inp"] + st["suf"]):
                    with_marks(q)
            elif k == "rsub":
                for q in picks(st["pre"] + [st["i"]] + st["suf"]):
                    with_marks(q)
            elif k == "pos1":
                for q in picks([st["g"]]):
                    with_marks(q)
            elif k == "pos2":
                for q in picks([st["g1"], st["g2"]]):
                    with_marks(q)
                    add(q + q)
            elif k == "curs":
                gs = resolve(st["g"])
                for g in gs[:3]:
                    add([g, g])
                    add([g, gs[0], gs[-1]])
            elif k in ("mkb", "mkm", "mkl"):
                for g in resolve(st["g"])[:3]:
                    for m in marks[:4]:
                        add([g, m])
                        add([g, m, marks[0]])
                        add([marks[-1], g, m])

    walk(prog)
    return out


EXTRA_FEA = {'vertical-named-short-record': '\nvalueRecordDef -30 SHORTH;\nvalueRecordDef <0 -10 0 -40> FULLV;\nfeature kern { pos A B <SHORTH>; pos A C -20; } kern;\nfeature vkrn { pos A B <SHORTH>; pos A C <FULLV>; pos B C -25; } vkrn;\nfeature vpal { pos A <SHORTH>; pos B <FULLV>; pos C -15; } vpal;\nfeature vhal { pos D <SHORTH>; } vhal;\n', 'lookupflags': '\n@TOP = [acutecomb gravecomb];\ntable GDEF { GlyphClassDef [A B C D], [f_i], [acutecomb gravecomb cedilla], ; } GDEF;\nfeature liga {\n  lookupflag IgnoreMarks; sub f i by f_i;\n  lookupflag UseMarkFilteringSet @TOP; sub A B by C;\n  lookupflag MarkAttachmentType @TOP RightToLeft; sub C D by A;\n  lookupflag 0; sub D D by B;\n} liga;\n', 'languages': '\nlanguagesystem DFLT dflt; languagesystem latn dflt; languagesystem latn TRK; languagesystem grek dflt;\nfeature locl {\n  script latn; language TRK exclude_dflt; sub i by A;\n  language dflt; sub B by C;\n  script grek; sub C by D;\n} locl;\nfeature liga { sub f i by f_i; script latn; language TRK; sub f f by B; } liga;\n', 'class-backtrack-many-rules': "@K1 = [A B]; @K2 = [C D]; @K3 = [E F]; @K4 = [G H];\nfeature calt {\n  sub @K1 @K2 a' by b;\n  sub @K2 @K1 c' by d;\n  sub @K1 @K3 e' by f;\n  sub @K3 @K1 g' by h;\n  sub @K2 @K3 i' by j;\n  sub @K3 @K2 k' by l;\n  sub @K1 @K4 m' by n;\n  sub @K4 @K1 a' by c;\n  sub @K2 @K4 e' by g;\n} calt;\n"}


def corpus_case(path):
    """worker: one corpus .fea file -> trace dict"""
    from fontTools.feaLib.error import FeatureLibError

    rel = common.rel(path) if os.sep + "extra-fea" + os.sep not in path else "extra-fea/" + os.path.basename(path)
    base = test_glyph_order()
    try:
        try:
            ff0 = parse(None, base, filename=path)
            order = list(base)
        except FeatureLibError:
            ff0 = parse(None, (), filename=path)
            order = None
        extra = [g for g in glyph_names_in(ff0) if g not in set(base)]
        order = base + extra
        if extra:
            ff0 = parse(None, order, filename=path)
    except Exception as e:
        return {"skip": "corpus file does not parse stand-alone (%s)" % type(e).__name__, "file": rel}
    advs = {n: 400 + (i % 37) * 10 for i, n in enumerate(order)}
    try:
        text = open(path, encoding="utf-8").read()
        fp, data, ff, err, (a1, a2) = fixed_point(text, order, order, advs, filename=path)
    except FeatureLibError as e:
        # the file parsed, its printed form must parse as well
        return {"sem": False, "file": rel, "fp": {"a1": 1, "a2": 2, "c1": False, "c2": False, "tabs": []},
                "note": "asFea output does not parse: %s" % str(e)[:200]}
    t = {"sem": False, "file": rel, "fp": fp, "compiled": data is not None, "compile_err": err[:1]}
    if data is None:
        return t
    # inside FeaSem's subset?
    used = glyph_names_in(ff)
    gorder = {n: i for i, n in enumerate(order)}
    universe_names = [g for g in used if g in gorder]
    spare = [g for g in order[1:] if g not in set(universe_names)][:2]
    universe_names += spare
    gid = {n: i + 1 for i, n in enumerate(universe_names)}
    try:
        prog = AstProj(gid).program(ff)
        if not any(st["k"] == "feature" for st in prog):
            raise Unsupported("no feature block")
        if has_kind(prog, {"mkb", "mkm", "mkl"}) and has_kind(prog, {"sub", "csub"}):
            raise Unsupported("mark attachment together with substitutions (HarfBuzz ligature-component bookkeeping)")
    except Unsupported as e:
        t["unsupported"] = str(e)
        return t
    n = len(universe_names)
    classes = {}

    def resolve(ge):
        if ge["t"] == "r":
            return classes.get(ge["v"][0], [])
        return list(ge["v"])

    def collect(stmts):
        for st in stmts:
            if st["k"] == "cls":
                classes[st["n"]] = st["gs"]
            elif st["k"] in ("lookup", "feature"):
                collect(st["body"])

    collect(prog)
    marks = []
    for st in prog:
        if st["k"] == "gdef":
            marks += st["m"]
        if st["k"] == "mcls":
            marks += st["gs"]
    marks = sorted(set(marks))
    seqs = rule_probes(prog, resolve, marks, 260)
    for a in range(1, min(n, 6) + 1):
        seqs.append([a])
    gid_of = {gid[nm]: gorder[nm] for nm in universe_names}
    abs_of = {v: k for k, v in gid_of.items()}
    proj, unsupported, probes = observe(data, prog, gid_of, abs_of, sorted(gid_of), seqs)
    if unsupported:
        t["unsupported"] = "projection: %r" % (unsupported[:1],)
        return t
    if len(probes) > 6:
        probes = probes[:6]
    t.update({"sem": True, "prog": prog, "cprog": 0, "ast": 0, "nG": n,
              "adv": [advs[nm] for nm in universe_names], "proj": proj, "seqs": seqs, "probes": probes})
    return t


# ---------------------------------------------------------------------------
def strip(t):
    """what TLC needs"""
    keep = ("sem", "prog", "cprog", "ast", "nG", "adv", "proj", "seqs", "probes", "fp")
    return {k: t[k] for k in keep if k in t}


def judge(chk, traces, label, parallel=4):
    """Batch validation by Trace_C11.  Deserialising the trace file is single-threaded in TLC, so the
    batch is split into `parallel` balanced parts judged by concurrent TLC processes."""
    import time
    from concurrent.futures import ThreadPoolExecutor

    if not traces:
        return []
    nparts = max(1, min(parallel, (len(traces) + 39) // 40), (len(traces) + 599) // 600)   # at most 600 traces per TLC process
    parts = [traces[i::nparts] for i in range(nparts)]
    workers = max(2, 16 // min(nparts, parallel))

    def one(i):
        part = parts[i]
        r = tlc_staggered(chk, "Trace_C11", traces=[strip(t) for t in part], timeout=2400, label="%s part %d/%d" % (label, i + 1, nparts),
                    heap="4g", env=JVM_ENV, workers=workers)
        if r.distinct < 2 * len(part):
            raise MachineryError("Trace_C11 judged %d states for %d traces" % (r.distinct, len(part)))
        return r

    with ThreadPoolExecutor(min(nparts, parallel)) as ex:
        results = list(ex.map(one, range(nparts)))
    rejected = []
    for part, r in zip(parts, results):
        dets = {p[0]: p[1] for p in r.prints.get("DET", [])}
        rej = {p[0]: p[1] for p in r.rej}
        for tid, clause in sorted(rej.items()):
            rejected.append((part[tid - 1], clause, dets.get(tid)))
        chk.traces_validated += len(part) - len(rej)
    return rejected


def report(chk, rejected, kind):
    for t, clause, det in rejected:
        if clause.startswith("machinery:"):
            raise MachineryError("%s on %s: %r\n%s" % (clause, t.get("file") or "generated program", det, t.get("text", "")))
        what = "%s: %s; detail=%r" % (t.get("file") or ("generated program:\n" + t.get("text", "")), clause, det)
        key = clause if kind == "gen" else "%s@%s" % (clause, t.get("file"))
        chk.reject(key, what, {"kind": kind, "file": t.get("file"), "prog": t.get("prog"), "text": t.get("text"), "clause": clause, "detail": det})


def run(chk):
    chk.rule = ("one case = (feature-file program, script/language/feature configuration, input glyph sequence); programs are "
                "reachable states of the MC_FeaSem builder machine (all of the small configuration + seeded simulation walks) "
                "and the corpus .fea files; a program is non-trivial if shaping changes at least one probe sequence "
                "(glyphs or positions)")
    thorough = chk.tier == "thorough"
    small, big = generate(chk)
    maxlen = 4 if thorough else 3
    cap = 150 if thorough else 64
    n_small, n_big = (int(2000 * SCALE), int(4000 * SCALE)) if thorough else (250, 500)
    chk.rng.shuffle(small)
    chk.rng.shuffle(big)
    progs = small[:n_small] + big[:n_big]
    chk.notes["program_counts"] = {"generated_small": len(small), "generated_simulation": len(big), "run_through_real_code": len(progs),
                             "max_sequence_length": maxlen, "longer_sequences_sampled_above": cap}
    chk.log("compiling and observing %d generated programs" % len(progs))
    results = common.pmap(gen_case, [(p, maxlen, chk.seed, cap) for p in progs], procs=14, chunksize=8)
    traces = []
    for t in results:
        if "error" in t:
            key = "generated:" + t["error"].split(":")[0]
            chk.reject(key, "valid generated program is not accepted: %s\n%s" % (t["error"], t["text"]),
                       {"kind": "gen", "prog": t["prog"], "text": t["text"], "error": t["error"]})
            continue
        traces.append(t)
        ncases = len(t["seqs"]) * len(t["probes"])
        chk.count(ncases)
        if nontrivial_gen(t):
            chk.nontriv(common.digest(t["prog"]))
    for t in traces[:3]:
        chk.sample({"fea": t["text"], "probes": len(t["probes"]), "sequences": len(t["seqs"]),
                    "example": {"seq": t["seqs"][-1], "harfbuzz": t["probes"][0]["hb"][-1]}})
    chk.log("%d generated programs observed (%d probe sequences)" % (len(traces), chk.evaluations))

    # corpus
    files = common.corpus_files(".fea")
    # grammar corners the corpus does not hold (named value records used in vertical features, mark filtering sets,
    # language exclusion): written to scratch files and judged like corpus files (print/parse fixed point, same tables)
    xdir = os.path.join(chk.work, "extra-fea")
    os.makedirs(xdir, exist_ok=True)
    for name, text in sorted(EXTRA_FEA.items()):
        xp = os.path.join(xdir, name + ".fea")
        with open(xp, "w") as fh:
            fh.write(text)
        files.append(xp)
    res = common.pmap(corpus_case, files, procs=14)
    ctraces = []
    stats = {"files": len(files), "fixed_point_judged": 0, "compiled": 0, "shaping_judged": 0}
    for t in res:
        if "skip" in t:
            chk.skip(t["skip"])
            continue
        stats["fixed_point_judged"] += 1
        if t.get("compiled"):
            stats["compiled"] += 1
        else:
            chk.skip("corpus file does not compile stand-alone on the test glyph set (fixed point judged on text only)")
        if t["sem"]:
            stats["shaping_judged"] += 1
            chk.count(len(t["seqs"]) * len(t["probes"]))
            if nontrivial_gen(t):
                chk.nontriv("corpus:" + t["file"])
        elif "unsupported" in t:
            chk.skip("corpus file outside FeaSem's subset: " + re.sub(r"\s+", " ", t["unsupported"])[:80])
        ctraces.append(t)
    chk.notes["corpus"] = stats
    chk.log("corpus: %r" % stats)
    for t in traces:
        t["kind"] = "gen"
    for t in ctraces:
        t["kind"] = "corpus"
    chk.log("judging %d generated programs and %d corpus files" % (len(traces), len(ctraces)))
    rejected = judge(chk, ctraces + traces, "Trace_C11")
    report(chk, [r for r in rejected if r[0]["kind"] == "corpus"], "corpus")
    report(chk, [r for r in rejected if r[0]["kind"] == "gen"], "gen")
    chk.exhaustive = False
    chk.assumptions += [
        "HarfBuzz 12 (uharfbuzz) is an observer only; probes are restricted to configurations where it is plain OpenType: glyph-id "
        "input via plane-15 PUA code points, explicit features (ss01/ss02 for generated programs; corpus features enabled explicitly, "
        "default-on features absent from the probe disabled), LTR, explicit script/language; named deviation HBZeroMarks is part of "
        "OTLSem mode 'hb'; probes whose script is neither present nor covered by DFLT are not compared (HarfBuzz's 'latn' fallback)",
        "generated programs never mix mark attachment / cursive rules with substitutions, and ligature rules under an ignore flag are "
        "probed up to length 3 only, because HarfBuzz's ligature-component bookkeeping is not part of the OpenType specification",
        "FeaSem follows the feature file specification as implemented by the current reference compilers where the text is silent: "
        "SingleSubPromotion, greedy class-pair subtable formation, in-line contextual actions as anonymous nested lookups",
        "lookupflag statements are generated only where their scope is unambiguous (not restated, not combined with script/language "
        "statements in the same feature, not inside nested lookup blocks)",
        "corpus files are compiled on the glyph set of Tests/feaLib/builder_test.py extended by the glyph names they mention",
    ]


def replay(chk, rep):
    r = rep["replay"]
    chk.log("replaying %s case against the current tree" % r.get("kind"))
    if r.get("kind") == "gen":
        t = gen_case((r["prog"], 3, chk.seed, 400))
        if "error" in t:
            chk.reject("generated:" + t["error"].split(":")[0], t["error"] + "\n" + t["text"], r)
            return
        report(chk, judge(chk, [t], "Trace_C11 replay"), "gen")
    else:
        path = os.path.join(os.path.dirname(common.TESTS), r["file"])
        t = corpus_case(path)
        if "skip" in t:
            chk.skip(t["skip"])
            return
        report(chk, judge(chk, [t], "Trace_C11 replay"), "corpus")
