"""C12 -- rewriting a CFF charstring never changes what it draws.

(M) MC_T2Sem: TLC enumerates small generalised Type 2 programs from a builder machine
    (plus run-structured long programs), checks the internal laws of the T2Sem machine
    (generalised form == specialised twin, stack bound, header bookkeeping, Canon laws,
    hand-transcribed TN5177 examples) and exports every program.
(R) every exported program (both forms) and grammar-generated random programs (all operator
    forms, fractional operands, CFF2 blends) go through the REAL rewritings at function level
    (programToCommands/commandsToProgram, generalizeProgram, specializeProgram +-
    preserveTopology and maxstack, T2CharString.compile/decompile, T2OutlineExtractor ->
    T2CharStringPen) and, packed into small CFF fonts with local/global subroutines, through
    desubroutinize, remove_hints, CFF->CFF2, CFF2->CFF (optimizeWidths), recompile, cffsubr.
(V) every charstring of every CFF/CFF2 corpus font through the same rewritings.
Judge: Trace_C12 -- TLC interprets the original and each rewritten token list with T2Sem and
decides OutputLegal / SamePath / SameWidth / SamePathRegion.  Python only drives the real
code and converts operands to scaled integers.

Rejections whose cause is a defect already written up in /verif/findings/C12 are reported under a
stable root-cause key (root_cause(): the observable signature of that one defect, established by
observation of the real code -- never a verdict); every other rejection is keyed by
"<rewriting>:<clause>".  Nothing is excluded: once a defect is fixed the same inputs pass the
ordinary clauses.  C12_PHASES=func,built,corpus (development aid) restricts a run to some phases."""
import io
import json
import logging
import os
import random
import re
import time
from fractions import Fraction

from . import common
from .common import MachineryError

LEVEL = "model_checking"
TLC_WORKERS = 8
MC_REPLAY_QUICK = 5000
MC_REPLAY_THOROUGH = 120000
JAVA_ENV = {"JAVA_TOOL_OPTIONS": "-Xss32m -XX:ParallelGCThreads=6"}   # deep (but finite) recursion of the interpreter on long programs

RAW_BEFORE = ("callsubr", "callgsubr", "blend", "vsindex")
FUNC_DW, FUNC_NW = 7, 3  # Private widths used when a bare program is drawn through the pen


class Skip(Exception):
    pass


def _load_optable():
    """the token encoding table is read from the specification (single source of truth)"""
    with open(os.path.join(common.SPECS, "T2Sem.tla")) as f:
        txt = f.read()
    m = re.search(r"OpNames == <<(.*?)>>", txt, re.S)
    names = re.findall(r'"([a-z0-9]+)"', m.group(1))
    base = int(re.search(r"OpBase == (\d+)", txt).group(1))
    off = int(re.search(r"MaskBase == OpBase \+ (\d+)", txt).group(1))
    return names, base, base + off


OPNAMES, OPBASE, MASKBASE = _load_optable()
OPCODE = {n: OPBASE + i + 1 for i, n in enumerate(OPNAMES)}


def _bias(n):  # TN5177 section 4.7; used only to select which subroutines are sent to TLC
    return 107 if n < 1240 else 1131 if n < 33900 else 32768


# --------------------------------------------------------------------------------------
# python program <-> JSON
def enc_prog(p):
    return [{"m": bytes(t).hex()} if isinstance(t, (bytes, bytearray)) else t for t in p]


def dec_prog(p):
    return [bytes.fromhex(t["m"]) if isinstance(t, dict) else t for t in p]


def _isnum(t):
    return isinstance(t, (int, float)) and not isinstance(t, bool)


def _bits(x):
    """fractional bits of a number (every float is dyadic); > 16 means not a 16.16 operand"""
    if isinstance(x, int):
        return 0
    d = Fraction(x).denominator
    b = d.bit_length() - 1
    if d != 1 << b:
        raise Skip("non-dyadic operand")
    return b


def prog_bits(p):
    return max([_bits(t) for t in p if _isnum(t)] or [0])


def exec_sum(p, ls, gs, nls, ngs, depth=0, memo=None):
    """sum of |operand| over all executed tokens (syntactic: follows literal subr calls);
    bounds every coordinate the machine can reach.  Pure data sizing, no semantics."""
    if depth > 10:
        raise Skip("subroutine nesting > 10")
    s = 0
    for i, t in enumerate(p):
        if isinstance(t, int) and not isinstance(t, bool):
            s += abs(t)
        elif _isnum(t):
            s += abs(Fraction(t))
        elif t in ("callsubr", "callgsubr"):
            if i == 0 or not isinstance(p[i - 1], int):
                raise Skip("computed subroutine index")
            if t == "callsubr":
                sub = ls.get(p[i - 1] + _bias(nls))
            else:
                sub = gs.get(p[i - 1] + _bias(ngs))
            if sub is not None:
                s += exec_sum(sub, ls, gs, nls, ngs, depth + 1)
    return s


def to_tokens(p, k):
    out = []
    n = len(p)
    for i, t in enumerate(p):
        if isinstance(t, str):
            out.append(OPCODE.get(t, OPCODE["unknown"]))
        elif isinstance(t, (bytes, bytearray)):
            out.append(MASKBASE + len(t))
        elif _isnum(t):
            if i + 1 < n and isinstance(p[i + 1], str) and p[i + 1] in RAW_BEFORE:
                if int(t) != t:
                    raise Skip("non-integer control operand")
                v = int(t)
            elif isinstance(t, int):
                v = t << k
            else:
                v = int(Fraction(t) * (1 << k))
            if abs(v) >= OPBASE:
                raise Skip("coordinates exceed 30 bits at the required scale")
            out.append(v)
        else:
            raise Skip("unexpected token type %s" % type(t).__name__)
    return out


def mk_side(fmt, p, ls=None, nls=0, gs=None, ngs=0, rg=(), vsi=0, dw=0, nw=0):
    return {"fmt": fmt, "p": list(p), "ls": dict(ls or {}), "nls": nls, "gs": dict(gs or {}), "ngs": ngs,
            "rg": list(rg), "vsi": vsi, "dw": dw, "nw": nw}


def mk_out(name, side, strict=0, lim=None, wm="same", adv=0, end=0, nl=0):
    o = dict(side)
    o.update({"t": name, "strict": strict, "lim": lim if lim is not None else (513 if side["fmt"] == "cff2" else 48),
              "wm": wm, "adv": adv, "end": end, "nl": nl, "raised": 0})
    return o


def mk_raised(name, exc):
    o = mk_side("cff", [])
    o.update({"t": name, "strict": 0, "lim": 48, "wm": "skip", "adv": 0, "end": 0, "nl": 0, "raised": 1,
              "exc": repr(exc)[:160]})
    return o


def finalize(tr):
    """python-level trace -> JSON-able trace with integer tokens at a common power-of-two scale"""
    sides = [tr["in"]] + [o for o in tr["outs"] if not o.get("raised")]
    k = 0
    for sd in sides:
        k = max(k, prog_bits(sd["p"]), _bits(sd["dw"]), _bits(sd["nw"]), _bits(sd.get("adv", 0)))
        for sub in list(sd["ls"].values()) + list(sd["gs"].values()):
            k = max(k, prog_bits(sub))
    if k > 16:
        raise Skip("operand finer than 16.16")
    for sd in sides:
        s = exec_sum(sd["p"], sd["ls"], sd["gs"], sd["nls"], sd["ngs"])
        s += abs(Fraction(sd["dw"])) + abs(Fraction(sd["nw"])) + abs(Fraction(sd.get("adv", 0)))
        if s * (1 << k) >= OPBASE:
            raise Skip("coordinates exceed 30 bits at the required scale")

    progs, index = [], {}

    def add(sd):
        # positional (see Trace_C12: PFmt, PProg, PLs, PNls, PGs, PNgs, PRg, PVsi)
        d = [sd["fmt"], to_tokens(sd["p"], k),
             [[i, to_tokens(q, k)] for i, q in sorted(sd["ls"].items())], sd["nls"],
             [[i, to_tokens(q, k)] for i, q in sorted(sd["gs"].items())], sd["ngs"],
             list(sd["rg"]), sd["vsi"]]
        key = json.dumps(d, separators=(",", ":"))
        if key not in index:
            progs.append(d)
            index[key] = len(progs)
        return index[key]

    def sc(v):
        return int(Fraction(v) * (1 << k))

    add(tr["in"])
    out = {"progs": progs, "dw": sc(tr["in"]["dw"]), "nw": sc(tr["in"]["nw"]), "nl": 0, "outs": [],
           "meta": tr.get("meta", {}), "scale": k}
    for o in tr["outs"]:
        # positional (see Trace_C12: OName, OIdx, OStrict, OLim, OWm [, ODw, ONw, OAdv, OEnd, ONl, ORaised])
        d = [o["t"], 1 if o["raised"] else add(o), o["strict"], o["lim"], o["wm"]]
        ext = [sc(o["dw"]), sc(o["nw"]), sc(o["adv"]), o["end"], o["nl"], o["raised"]]
        if ext != [out["dw"], out["nw"], 0, 0, 0, 0]:
            d += ext
        if o.get("exc"):
            out.setdefault("exc", {})[o["t"]] = o["exc"]
        out["nl"] = max(out["nl"], o["nl"])
        out["outs"].append(d)
    return out


# --------------------------------------------------------------------------------------
# function-level rewritings (real code)
class _Priv(object):
    """the little of a Private DICT that T2CharString needs to run a bare program"""

    def __init__(self, fmt, rg, vsi):
        self._cff2 = fmt == "cff2"
        self.rg, self.vsi = rg, vsi
        self.nominalWidthX = None if self._cff2 else FUNC_NW
        self.defaultWidthX = None if self._cff2 else FUNC_DW

    @property
    def in_cff2(self):
        return self._cff2

    def getNumRegions(self, vi=None):
        return self.rg[self.vsi if vi is None else vi]


def longest_num_run(p):
    best = cur = 0
    for t in p:
        if _isnum(t):
            cur += 1
            best = max(best, cur)
        elif isinstance(t, (bytes, bytearray)):
            pass
        elif t != "blend":
            cur = 0
    return best


def func_outs(prog, fmt, rg, vsi, rng, pen=True):
    """run one bare program through every function-level rewriting of the real code"""
    from fontTools.cffLib import specializer as sp
    from fontTools.misc.psCharStrings import T2CharString
    from fontTools.pens.t2CharStringPen import T2CharStringPen
    from fontTools.pens.basePen import NullPen, MissingComponentError

    cff2 = fmt == "cff2"
    gnr = (lambda vi: rg[vi]) if cff2 else None
    fl = 513 if cff2 else 48
    has_blend = "blend" in prog
    nl = max(rg) if (cff2 and has_blend and rg) else 0
    outs = []

    def side(p):
        return mk_side(fmt, p, rg=rg, vsi=vsi, dw=FUNC_DW, nw=FUNC_NW)

    def attempt(name, fn, **kw):
        try:
            p = fn()
        except Exception as e:  # judged by TLC: "Raised" if the original is well-formed
            outs.append(mk_raised(name, e))
            return None
        outs.append(mk_out(name, side(p), **kw))
        return p

    attempt("commands", lambda: sp.commandsToProgram(sp.programToCommands(list(prog), gnr)), strict=1, nl=nl)
    g = attempt("generalize", lambda: sp.generalizeProgram(list(prog), gnr), strict=1, nl=nl)
    attempt("specialize", lambda: sp.specializeProgram(list(prog), gnr, maxstack=fl), lim=fl, nl=nl)
    attempt("specialize-topo", lambda: sp.specializeProgram(list(prog), gnr, preserveTopology=True, maxstack=fl),
            strict=1, lim=fl, nl=nl)
    if g is not None:
        need = longest_num_run(g) + 1
        if cff2 and has_blend:
            cands = []
        else:
            cands = [m for m in (8, 10, 13, 24, 25, 30, 47, 49, 60, 100, 513) if m >= need and m != fl]
        for m in rng.sample(cands, min(2, len(cands))):
            attempt("specialize-max%d" % m, lambda: sp.specializeProgram(list(prog), gnr, maxstack=m), lim=m, nl=nl)
        if cands:
            m = rng.choice(cands)
            attempt("specialize-topo-max%d" % m,
                    lambda: sp.specializeProgram(list(prog), gnr, preserveTopology=True, maxstack=m), strict=1, lim=m, nl=nl)
    def recompile():
        cs = T2CharString(program=list(prog), private=_Priv(fmt, rg, vsi))
        cs.compile(isCFF2=cff2)
        cs2 = T2CharString(bytecode=cs.bytecode, private=_Priv(fmt, rg, vsi))
        cs2.decompile()
        return cs2.program

    attempt("compile-decompile", recompile, strict=1, nl=nl)

    if pen and (cff2 or (prog and prog[-1] == "endchar")):
        def via_pen():
            cs = T2CharString(program=list(prog), private=_Priv(fmt, rg, vsi))
            cs.draw(NullPen())
            width = None if cff2 else cs.width
            tp = T2CharStringPen(width, {}, roundTolerance=0, CFF2=cff2)
            T2CharString(program=list(prog), private=_Priv(fmt, rg, vsi)).draw(tp)
            return tp.getCharString().program

        try:
            p = via_pen()
            o = mk_out("pen", mk_side(fmt, p, rg=rg, vsi=vsi, dw=0, nw=0), lim=fl, wm="none" if cff2 else "adv",
                       end=0 if cff2 else 1)
            outs.append(o)
        except MissingComponentError:
            pass
        except Exception as e:
            outs.append(mk_raised("pen", e))
    if g is not None:
        # specialising the generalised program must land on the same drawing too (kept last)
        attempt("respecialize", lambda: sp.specializeProgram(list(g), gnr, maxstack=fl), lim=fl, nl=nl)
    return outs


WIDTH_OP_NAMES = ("hstem", "hstemhm", "vstem", "vstemhm", "cntrmask", "hintmask", "hmoveto", "vmoveto", "rmoveto",
                  "endchar")


def p2c_reports_width(prog, fmt, rg):
    """Observation used only to LABEL a rejection with its root cause (never a verdict): does the real
    programToCommands report a width command ("", [w]) in front of the first stack-clearing operator
    of this CFF2 program?  (CFF2 charstrings have no width, so on a well-formed one it never should.)
    Counted as: more ""-commands in front of that operator than the one implicit-vstem group a mask
    operator with operands directly in front of it accounts for."""
    if fmt != "cff2":
        return 0
    from fontTools.cffLib import specializer as sp

    try:
        cmds = sp.programToCommands(list(prog), lambda vi: rg[vi])
    except Exception:
        return 0
    j = next((i for i, c in enumerate(cmds) if c[0] in WIDTH_OP_NAMES), None)
    i = next((i for i, t in enumerate(prog) if isinstance(t, str) and t in WIDTH_OP_NAMES), None)
    if j is None or i is None or prog[i] != cmds[j][0]:
        return 0
    expected = 0
    if prog[i] in ("hintmask", "cntrmask") and i > 0 and (_isnum(prog[i - 1]) or prog[i - 1] == "blend"):
        expected = 1
    return 1 if sum(1 for c in cmds[:j] if c[0] == "") > expected else 0


def func_trace(prog, fmt, rg, vsi, rng, meta, pen=True):
    outs = func_outs(prog, fmt, rg, vsi, rng, pen=pen)
    meta = dict(meta)
    if fmt == "cff2":
        # root-cause labelling data: [original, generalised program (fed to "respecialize")]
        g = next((o["p"] for o in outs if o["t"] == "generalize" and not o["raised"]), None)
        meta["p2cw"] = [p2c_reports_width(prog, fmt, rg), p2c_reports_width(g, fmt, rg) if g is not None else 0]
    tr = {"in": mk_side(fmt, prog, rg=rg, vsi=vsi, dw=FUNC_DW, nw=FUNC_NW), "outs": outs, "meta": meta}
    return tr


# --------------------------------------------------------------------------------------
# whole-font rewritings (real code)
def cff_tag(font):
    return "CFF " if "CFF " in font else "CFF2" if "CFF2" in font else None


def subr_program(s):
    if isinstance(s, list):
        return list(s)
    if s.needsDecompilation():
        raise Skip("subroutine reached only outside glyph execution")
    return list(s.program)


def closure(prog, lsubrs, gsubrs):
    L, G = {}, {}
    nl, ng = len(lsubrs), len(gsubrs)
    todo = [prog]
    while todo:
        p = todo.pop()
        for i, t in enumerate(p):
            if isinstance(t, str) and t in ("callsubr", "callgsubr"):
                if i == 0 or not isinstance(p[i - 1], int):
                    raise Skip("computed subroutine index")
                if t == "callsubr":
                    idx, tgt, src = p[i - 1] + _bias(nl), L, lsubrs
                else:
                    idx, tgt, src = p[i - 1] + _bias(ng), G, gsubrs
                if idx in tgt or not (0 <= idx < len(src)):
                    continue
                sp_ = subr_program(src[idx])
                tgt[idx] = sp_
                todo.append(sp_)
    return L, G


def glyph_sides(font):
    """[(glyphName, side | Skip-reason)] in charset order; decompiles everything"""
    tag = cff_tag(font)
    cff = font[tag].cff
    td = cff.topDictIndex[0]
    cs = td.CharStrings
    fmt = "cff2" if tag == "CFF2" else "cff"
    names = font.getGlyphOrder() if fmt == "cff2" else list(td.charset)
    items = []
    for name in names:
        if name not in cs:
            continue
        c, _sel = cs.getItemAndSelector(name)
        c.decompile()
        items.append((name, c))
    rg_all = []
    if fmt == "cff2" and hasattr(td, "VarStore"):
        rg_all = [vd.VarRegionCount for vd in td.VarStore.otVarStore.VarData]
    out = []
    for name, c in items:
        try:
            priv = c.private
            lsubrs = getattr(priv, "Subrs", [])
            gsubrs = c.globalSubrs if c.globalSubrs is not None else []
            L, G = closure(c.program, lsubrs, gsubrs)
            if fmt == "cff":
                dw, nw = priv.defaultWidthX, priv.nominalWidthX
            else:
                dw = nw = 0
            vsi = getattr(priv, "vsindex", 0) if fmt == "cff2" else 0
            out.append((name, mk_side(fmt, c.program, L, len(lsubrs), G, len(gsubrs), rg_all, vsi, dw, nw)))
        except Skip as e:
            out.append((name, str(e)))
    return out


def all_int_side(sd):
    progs = [sd["p"]] + list(sd["ls"].values()) + list(sd["gs"].values())
    return all(int(t) == t for p in progs for t in p if _isnum(t))


def load_font(data):
    from fontTools.ttLib import TTFont

    return TTFont(io.BytesIO(data), recalcBBoxes=False, recalcTimestamp=False)


def save_font(font):
    b = io.BytesIO()
    font.save(b)
    return b.getvalue()


def font_rewrites(data, want=None, with_subr=True, orig=None):
    """original sides and, per rewriting, the sides after it.
    returns (orig: [(name, side)], rew: {rewriting: [(name, side)] | Exception}, adv: {name: advance})
    `orig` is given for fonts the harness built itself (the programs it put in, not what the real
    decompiler reads back)"""
    from fontTools.cffLib.CFFToCFF2 import convertCFFToCFF2
    from fontTools.cffLib.CFF2ToCFF import convertCFF2ToCFF

    f0 = load_font(data)
    tag = cff_tag(f0)
    if orig is None:
        orig = glyph_sides(f0)
    adv = {}
    try:
        if "hmtx" in f0:
            m = f0["hmtx"].metrics
            adv = {n: m[n][0] for n, _ in orig if n in m}
    except Exception:   # corpus fonts without maxp / hhea: no advance widths to compare against
        adv = {}
    rew = {}

    def run(name, fn):
        if want is not None and name not in want:
            return
        try:
            rew[name] = fn()
        except Skip:
            raise
        except Exception as e:
            rew[name] = e

    def desub():
        f = load_font(data)
        f[tag].cff.desubroutinize()
        return glyph_sides(f)

    def dehint():
        f = load_font(data)
        f[tag].cff.remove_hints()
        return glyph_sides(f)

    def recompile():
        f = load_font(data)
        glyph_sides(f)  # decompile every charstring so that save() recompiles from programs
        return glyph_sides(load_font(save_font(f)))

    def to_cff2():
        f = load_font(data)
        convertCFFToCFF2(f)
        rew["_cff2_bytes"] = save_font(f)
        return glyph_sides(f)

    def to_cff(src, preload):
        def fn():
            f = load_font(src())
            if preload:
                # materialise every Private DICT (and its Subrs INDEX) while the font is still CFF2
                for fd in f["CFF2"].cff.topDictIndex[0].FDArray:
                    getattr(fd.Private, "Subrs", None)
            convertCFF2ToCFF(f)
            return glyph_sides(load_font(save_font(f)))
        return fn

    def subr():
        import cffsubr

        f = load_font(data)
        cffsubr.subroutinize(f, keep_glyph_names=True)
        return glyph_sides(f)

    run("desubroutinize", desub)
    run("remove_hints", dehint)
    run("recompile", recompile)
    def both_to_cff(src):
        run("cff2-to-cff", to_cff(src, False))
        if isinstance(rew.get("cff2-to-cff"), Exception) and "Variable CFF2 font" not in str(rew["cff2-to-cff"]):
            # controlled experiment: the same conversion with every Private DICT read while the font is
            # still CFF2.  It keeps the rest of the conversion under test, and a failure that goes away
            # with it is the lazy-Private-read defect (root_cause), any other failure keeps its own key
            run("cff2-to-cff-pre", to_cff(src, True))

    if tag == "CFF ":
        run("cff-to-cff2", to_cff2)
        if isinstance(rew.get("cff-to-cff2"), list):
            both_to_cff(lambda: rew["_cff2_bytes"])
    else:
        both_to_cff(lambda: data)
    rew.pop("_cff2_bytes", None)
    if with_subr and HAVE_CFFSUBR:
        run("subroutinize", subr)
    return orig, rew, adv


OUT_SPEC = {  # rewriting -> judge parameters
    "desubroutinize": dict(strict=1, wm="adv"),
    "remove_hints": dict(strict=1, wm="adv"),
    "recompile": dict(strict=1, wm="adv"),
    "cff-to-cff2": dict(strict=1, wm="none"),
    "cff2-to-cff": dict(strict=0, wm="abs", end=1),   # may specialise programs deeper than 48
    "cff2-to-cff-pre": dict(strict=0, wm="abs", end=1),
    "subroutinize": dict(strict=0, wm="adv"),   # tx re-encodes the charstrings it subroutinises
}


REWRITE_ORDER = ["desubroutinize", "remove_hints", "recompile", "subroutinize", "cff-to-cff2", "cff2-to-cff-pre",
                 "cff2-to-cff"]
PARTS = {"base": {"desubroutinize"}, "hints": {"remove_hints", "recompile"}, "subr": {"subroutinize"},
         "chain": {"cff-to-cff2", "cff2-to-cff", "cff2-to-cff-pre"}}


def keep_indices(label, n, cap):
    """the glyph indices of a font that this tier looks at (all of them when cap is None)"""
    if cap is None or n <= cap:
        return set(range(n))
    return set([0] + _rng_for(_CTX["seed"], "keep", label).sample(range(1, n), cap - 1))


def font_traces(data, label, rng, want=None, with_subr=True, func_sample=None, pen=True, cap=None, pre=None,
                orig=None):
    """all traces of one font: one font-level trace per glyph and one function-level trace
    per glyph on its desubroutinised program.  returns (traces, skips{reason: n}, notes)"""
    skips = {}

    def skip(r, n=1):
        skips[r] = skips.get(r, 0) + n

    orig, rew, adv = pre if pre is not None else font_rewrites(data, want, with_subr, orig=orig)
    rew = {k: rew[k] for k in REWRITE_ORDER if k in rew}
    traces = []
    notes = {}
    for name, res in rew.items():
        if isinstance(res, Exception):
            notes[name] = repr(res)[:200]
    variable = any(sd["rg"] for _n, sd in [x for x in orig if x] if isinstance(sd, dict))
    after = {}
    for name, res in rew.items():
        if isinstance(res, list):
            after[name] = res
    keep = keep_indices(label, len(orig), cap)
    if len(keep) < len(orig):
        skip("glyph not in this tier's sample of a big font", len(orig) - len(keep))
    for gi, entry in enumerate(orig):
        if gi not in keep or entry is None:
            continue
        gname, sd = entry
        if not isinstance(sd, dict):
            skip("input: " + sd)
            continue
        outs = []
        for rname, res in rew.items():
            if isinstance(res, Exception):
                if rname == "subroutinize":
                    skip("subroutinize: external tx/cffsubr rejected the font (%s)" % type(res).__name__)
                    continue
                if rname.startswith("cff2-to-cff") and variable:
                    skip("cff2-to-cff: variable font (documented ValueError)")
                    continue
                outs.append(mk_raised(rname, res))
                continue
            if gi >= len(res) or res[gi] is None:
                outs.append(mk_raised(rname, KeyError("glyph missing after rewriting")))
                continue
            n2, sd2 = res[gi]
            if not isinstance(sd2, dict):
                skip("output: " + sd2)
                continue
            kw = dict(OUT_SPEC[rname])
            if rname == "subroutinize" and not all_int_side(sd):
                skip("subroutinize: glyph has fractional operands, which the external tx tool rounds to 2 decimals")
                continue
            if rname.startswith("cff2-to-cff"):
                if gname not in adv:
                    continue
                kw["adv"] = adv[gname]
            nl = max(sd["rg"]) if (sd["rg"] and sd2["rg"] and not rname.startswith("cff2-to-cff")) else 0
            outs.append(mk_out(rname, sd2, nl=nl, **kw))
        traces.append({"in": sd, "outs": outs, "meta": {"kind": "font", "font": label, "glyph": gname,
                                                        "adv": adv.get(gname)}})
    # function-level rewritings on the desubroutinised programs
    des = after.get("desubroutinize")
    if des:
        idxs = [i for i in range(len(des)) if i in keep]
        if func_sample is not None and len(idxs) > func_sample:
            idxs = sorted(rng.sample(idxs, func_sample))
            skip("function-level rewritings: glyph not in this tier's sample of a big font", len(des) - len(idxs))
        for gi in idxs:
            if des[gi] is None:
                continue
            gname, sd = des[gi]
            if not isinstance(sd, dict):
                continue
            if sd["fmt"] == "cff2" and sd["vsi"] != 0 and "vsindex" not in sd["p"]:
                skip("function-level: Private vsindex != 0 (programToCommands starts from vsindex 0)")
                continue
            if sd["ls"] or sd["gs"] or "callsubr" in sd["p"] or "callgsubr" in sd["p"]:
                continue
            traces.append(func_trace(sd["p"], sd["fmt"], sd["rg"], sd["vsi"], rng,
                                     {"kind": "font-func", "font": label, "glyph": gname}, pen=pen))
    done = []
    for tr in traces:
        try:
            done.append(finalize(tr))
        except Skip as e:
            skip("scale: " + str(e))
    return done, skips, notes


# --------------------------------------------------------------------------------------
# generators: grammar-based random programs (python, seeded) and subroutine extraction
# the ends of the operand encodings of TN5177 section 3.2 (1 byte: -107..107, 2 bytes: +-108..+-1131, 3 bytes: shortint)
ENC_BOUNDS = (107, 108, 1131, 1132, -107, -108, -1131, -1132, 363, 364, -363, -364, 619, 620, 875, 876)


def rand_val(rng, frac):
    r = rng.random()
    if r < 0.28:
        return 0
    if r < 0.75:
        v = rng.randint(-6, 6)
    elif r < 0.93:
        v = rng.randint(-300, 300)
    elif r < 0.96:
        return rng.choice(ENC_BOUNDS)
    else:
        v = rng.randint(-1500, 1500)
    if frac and rng.random() < 0.35:
        return v + rng.choice([0.5, 0.25, -0.75, 0.125, 1 / 65536, 0.0625])
    return v


def rand_program(rng, fmt, rg=(), allow_flex=True):
    """a well-formed Type 2 / CFF2 program straight from the operator grammar of TN5177"""
    cff2 = fmt == "cff2"
    lim = 513 if cff2 else 48
    frac = rng.random() < 0.25
    big = cff2 and rng.random() < 0.3
    k = rg[0] if rg else 0
    V = lambda: rand_val(rng, frac)
    prog = []
    budget = [lim - 1]

    def emit(args, op, blendable=True):
        toks = []
        if cff2 and k and blendable and rng.random() < 0.6:
            i = 0
            depth = 0
            while i < len(args):
                if rng.random() < 0.5:
                    n = rng.randint(1, min(len(args) - i, 6))
                    if depth + n * (k + 1) + 1 >= lim - 2:
                        toks.append(args[i]); depth += 1; i += 1
                        continue
                    toks += args[i:i + n]
                    for _ in range(n * k):
                        toks.append(rng.choice([0, 0, 1, -2, 5, rand_val(rng, frac)]))
                    toks += [n, "blend"]
                    depth += n
                    i += n
                else:
                    toks.append(args[i]); depth += 1; i += 1
        else:
            toks = list(args)
        prog.extend(toks)
        prog.append(op)

    first_extra = []
    if not cff2 and rng.random() < 0.5:
        first_extra = [rng.choice([0, 5, 20, 250, 601, 1400, rng.randint(0, 2000)])]
    nh = 0
    masks = False
    if rng.random() < 0.45:
        masks = rng.random() < 0.6
        n = rng.randint(1, 5)
        emit(first_extra + [rng.randint(-50, 50) for _ in range(2 * n)], "hstemhm" if masks else "hstem", False)
        first_extra = []
        nh += n
        r = rng.random()
        if r < 0.5:
            n = rng.randint(1, 5)
            emit([rng.randint(-50, 50) for _ in range(2 * n)], "vstemhm" if masks else "vstem", False)
            nh += n
        elif masks and r < 0.85:
            n = rng.randint(1, 4)   # implicit vstem in front of the first mask operator
            prog.extend(rng.randint(-50, 50) for _ in range(2 * n))
            nh += n
        if masks:
            if rng.random() < 0.4:
                prog += ["cntrmask", bytes(rng.getrandbits(8) for _ in range((nh + 7) // 8))]
            prog += ["hintmask", bytes(rng.getrandbits(8) for _ in range((nh + 7) // 8))]
    elif rng.random() < 0.05 and not cff2:
        prog.extend(first_extra)
        first_extra = []
        prog += ["hintmask", b""]
        masks = True
    ncont = rng.choice([0, 1, 1, 1, 2, 2, 3])
    for _c in range(ncont):
        m = rng.random()
        if m < 0.4:
            emit(first_extra + [V(), V()], "rmoveto")
        elif m < 0.7:
            emit(first_extra + [V()], "hmoveto")
        else:
            emit(first_extra + [V()], "vmoveto")
        first_extra = []
        for _o in range(rng.choice([0, 1, 2, 3, 4, 6, 9])):
            maxargs = 400 if big else 48
            op = rng.choice(["rlineto", "hlineto", "vlineto", "rrcurveto", "hhcurveto", "vvcurveto", "hvcurveto",
                             "vhcurveto", "rcurveline", "rlinecurve", "flex", "hflex", "hflex1", "flex1", "hintmask"])
            long_ = rng.random() < 0.12
            rep = lambda unit, extra=0: rng.randint(1, max(1, ((maxargs - extra) // unit) if long_ else min(3, (maxargs - extra) // unit)))
            if op == "rlineto":
                n = 2 * rep(2)
            elif op in ("hlineto", "vlineto"):
                n = rep(1) if not long_ else rng.randint(1, maxargs)
            elif op == "rrcurveto":
                n = 6 * rep(6)
            elif op in ("hhcurveto", "vvcurveto", "hvcurveto", "vhcurveto"):
                n = 4 * rep(4, 1) + rng.choice([0, 1])
            elif op == "rcurveline":
                n = 6 * rep(6, 2) + 2
            elif op == "rlinecurve":
                n = 2 * rep(2, 6) + 6
            elif op == "flex":
                n = 13
            elif op == "hflex":
                n = 7
            elif op == "hflex1":
                n = 9
            elif op == "flex1":
                n = 11
            else:
                if masks and nh:
                    prog += ["hintmask", bytes(rng.getrandbits(8) for _ in range((nh + 7) // 8))]
                continue
            if op in ("flex", "hflex", "hflex1", "flex1") and not allow_flex:
                continue
            emit([V() for _ in range(n)], op)
    if not cff2:
        prog.extend(first_extra)
        if rng.random() < 0.93 or first_extra or not prog or not isinstance(prog[-1], str):
            prog.append("endchar")
    return prog


def width_of(prog_has_width, wval, dw, nw):
    return nw + wval if prog_has_width else dw


def cut_points(p):
    """token positions where a program may be cut without separating a mask operator from its bytes"""
    return [i for i in range(len(p) + 1)
            if not (i < len(p) and (isinstance(p[i], (bytes, bytearray)) or p[i] in ("callsubr", "callgsubr")))]


class SubrPool(object):
    def __init__(self):
        self.items = []
        self.index = {}

    def add(self, body):
        key = tuple(body)
        if key not in self.index:
            self.index[key] = len(self.items)
            self.items.append(list(body))
        return self.index[key]


def subrize(p, rng, lpool, gpool, depth=0):
    """move a random token slice into a (local or global) subroutine; indices are patched to
    biased operands once the pools are complete (placeholders ('L', i) / ('G', i))"""
    cps = cut_points(p)
    if len(cps) < 2 or longest_num_run(p) >= 45:
        return list(p)
    i, j = sorted(rng.sample(cps, 2))
    body = list(p[i:j])
    if depth < 1 and len(body) >= 2 and rng.random() < 0.4:
        body = subrize(body, rng, lpool, gpool, depth + 1)
    if not (body and body[-1] == "endchar"):
        body = body + ["return"]
    if rng.random() < 0.5:
        ref = ("L", lpool.add(body))
        op = "callsubr"
    else:
        ref = ("G", gpool.add(body))
        op = "callgsubr"
    return list(p[:i]) + [ref, op] + list(p[j:])


def patch_refs(p, nl, ng):
    out = []
    for t in p:
        if isinstance(t, tuple):
            out.append(t[1] - _bias(nl if t[0] == "L" else ng))
        else:
            out.append(t)
    return out


def build_font(glyphs, dw, nw, rng, subr_prob=0.7, pad_subrs=0):
    """glyphs: [(program, advance)] -> bytes of a CFF OpenType font whose charstrings call
    local and global subroutines cut out of the programs"""
    from fontTools.fontBuilder import FontBuilder
    from fontTools.misc.psCharStrings import T2CharString
    from fontTools.cffLib import SubrsIndex

    lpool, gpool = SubrPool(), SubrPool()
    progs = []
    for p, _adv in glyphs:
        q = list(p)
        if rng.random() < subr_prob:
            q = subrize(q, rng, lpool, gpool)
            if rng.random() < 0.3:
                q = subrize(q, rng, lpool, gpool)
        progs.append(q)
    if pad_subrs:
        # filler global subroutines up to exactly pad_subrs: the bias changes at 1240 / 33900 subroutines
        k = 0
        while len(gpool.items) < pad_subrs:
            gpool.add([k - 700, "return"])
            k += 1
    nl, ng = len(lpool.items), len(gpool.items)
    progs = [patch_refs(q, nl, ng) for q in progs]
    lsub = [patch_refs(q, nl, ng) for q in lpool.items]
    gsub = [patch_refs(q, nl, ng) for q in gpool.items]
    names = [".notdef"] + ["g%04d" % i for i in range(len(glyphs))]
    fb = FontBuilder(1000, isTTF=False)
    fb.setupGlyphOrder(names)
    fb.setupCharacterMap({})
    cs = {".notdef": T2CharString(program=["endchar"])}
    for n, q in zip(names[1:], progs):
        cs[n] = T2CharString(program=q)
    fb.setupCFF("C12Test", {"FullName": "C12 Test"}, cs, {"defaultWidthX": dw, "nominalWidthX": nw})
    cff = fb.font["CFF "].cff
    td = cff.topDictIndex[0]
    priv = td.Private
    for q in gsub:
        cff.GlobalSubrs.append(T2CharString(program=q, private=priv, globalSubrs=cff.GlobalSubrs))
    if lsub:
        priv.Subrs = SubrsIndex()
        for q in lsub:
            priv.Subrs.append(T2CharString(program=q, private=priv, globalSubrs=cff.GlobalSubrs))
    metrics = {".notdef": (dw, 0)}
    for n, (_p, a) in zip(names[1:], glyphs):
        metrics[n] = (a, 0)
    fb.setupHorizontalMetrics(metrics)
    fb.setupHorizontalHeader(ascent=800, descent=-200)
    fb.setupNameTable({"familyName": "C12Test", "styleName": "Regular"})
    fb.setupOS2()
    fb.setupPost()
    fb.font.recalcBBoxes = False      # saving must not draw the glyphs
    sides = []
    for n, q in zip(names, [["endchar"]] + progs):
        L, G = closure(q, lsub, gsub)
        sides.append((n, mk_side("cff", q, L, len(lsub), G, len(gsub), (), 0, dw, nw)))
    return save_font(fb.font), sides


# --------------------------------------------------------------------------------------
# work items for the fork pool
_CTX = {}
logging.getLogger("fontTools").setLevel(logging.ERROR)


def _rng_for(*key):
    return random.Random("C12-%s" % "-".join(str(k) for k in key))


def _work_func(item):
    """item = (index, fmt, enc(prog), rg, vsi, meta) -> finalized trace or ('skip', reason)"""
    idx, fmt, p, rg, vsi, meta = item
    rng = _rng_for(_CTX["seed"], "func", idx)
    try:
        return finalize(func_trace(dec_prog(p), fmt, rg, vsi, rng, meta))
    except Skip as e:
        return ("skip", str(e))


def _work_built(item):
    """item = (index, [(enc prog, has_width, wval)], dw, nw, pad) -> (traces, skips, notes)"""
    idx, glyphs, dw, nw, pad = item
    rng = _rng_for(_CTX["seed"], "built", idx)
    gl = []
    for p, hasw, wval in glyphs:
        gl.append((dec_prog(p), width_of(hasw, wval, dw, nw)))
    data, sides = build_font(gl, dw, nw, rng, pad_subrs=pad)
    tr, sk, notes = font_traces(data, "built-%d" % idx, rng, func_sample=0, orig=sides)
    for t in tr:
        t["meta"]["kind"] = "built"
        t["meta"]["item"] = idx
    return tr, sk, notes


def _work_corpus_load(path):
    """-> ([(key, data)], skip-reason | None): every CFF/CFF2 font of a corpus file as bytes, keyed by
    the bytes of its CFF table and hmtx (identical tables are judged once)"""
    import hashlib
    from fontTools.ttLib import TTFont, TTCollection

    try:
        if path.lower().endswith(".ttx"):
            f = TTFont()
            f.importXML(path)
            fs = [f]
        elif path.lower().endswith((".ttc", ".otc")):
            fs = TTCollection(path).fonts
        else:
            fs = [TTFont(path)]
        out = []
        for f in fs:
            tag = cff_tag(f)
            if not tag:
                continue
            f.flavor = None
            data = save_font(f)
            g = load_font(data)
            h = hashlib.sha1(g.reader[tag])
            h.update(g.reader["hmtx"] if "hmtx" in g.reader else b"")
            out.append((h.hexdigest(), data))
        return out, None
    except Exception as e:
        return [], "corpus file does not load/compile: %s" % type(e).__name__


def _work_font_part(item):
    """(label, data, part, cap) -> (orig | None, rew, adv) with only this tier's glyphs kept"""
    label, data, part, cap = item
    try:
        orig, rew, adv = font_rewrites(data, want=PARTS[part])
    except Exception as e:
        return ("error", "%s: %s" % (type(e).__name__, str(e)[:100]))
    keep = keep_indices(label, len(orig), cap)
    thin = lambda lst: [x if i in keep else None for i, x in enumerate(lst)]
    rew = {k: (thin(v) if isinstance(v, list) else v) for k, v in rew.items()}
    return (thin(orig) if part == "base" else None, rew, adv if part == "base" else None)


def _work_corpus(item):
    label, data, cap, func_sample, pre = item
    rng = _rng_for(_CTX["seed"], "corpus", label)
    skips, notes = {}, {}
    try:
        tr, skips, nt = font_traces(data, label, rng, func_sample=func_sample, cap=cap, pre=pre)
    except Skip as e:
        return [], {"font: " + str(e): 1}, {}
    except Exception as e:
        return [], {"corpus font cannot be taken apart by the harness: %s" % type(e).__name__: 1}, {}
    for k, v in nt.items():
        notes["%s: %s" % (label, k)] = v
    return tr, skips, notes


try:
    import cffsubr  # noqa: F401

    HAVE_CFFSUBR = True
except Exception:  # pragma: no cover
    HAVE_CFFSUBR = False


# --------------------------------------------------------------------------------------
def gen_tokens_to_prog(toks, rng):
    p = []
    for x in toks:
        if x >= MASKBASE:
            p.append(bytes(rng.getrandbits(8) for _ in range(x - MASKBASE)))
        elif x >= OPBASE:
            p.append(OPNAMES[x - OPBASE - 1])
        else:
            p.append(x)
    return p


def tlc_retry(chk, module, **kw):
    """chk.tlc, with TLC's own error lines surfaced and one retry (a JVM that dies under memory
    pressure is a machinery hiccup, not a verdict)"""
    last = None
    for attempt in (1, 2):
        r = chk.tlc(module, expect_ok=False, **kw)
        if r.ok:
            return r
        lines = [l for l in r.stdout.splitlines() if not l.startswith("<<")]
        bad = [i for i, l in enumerate(lines) if "rror" in l or "xception" in l]
        last = "\n".join(lines[i] for j in bad[:6] for i in range(j, min(j + 3, len(lines))))
        chk.log("TLC run of %s failed (attempt %d, exit %s): %s" % (module, attempt, r.exit, last[:600]))
    raise MachineryError("TLC failed twice on %s: %s" % (module, (last or "")[:1500]))


def judge_all(chk, traces, what):
    """send finalized traces to TLC, account verdicts"""
    if not traces:
        return
    t0 = time.time()
    nrej = 0
    CH = 8000
    for base in range(0, len(traces), CH):
        part = traces[base:base + CH]
        slim = [{"progs": t["progs"], "dw": t["dw"], "nw": t["nw"], "nl": t["nl"], "outs": t["outs"]} for t in part]
        r = tlc_retry(chk, "Trace_C12", traces=slim, timeout=1500, env=JAVA_ENV, workers=TLC_WORKERS,
                      label="Trace_C12:" + what)
        if r.distinct != 2 * len(part):
            raise MachineryError("Trace_C12 judged %d states for %d traces" % (r.distinct, len(part)))
        if re.search(r'^<< "REJ"', r.stdout, re.M):
            raise MachineryError("TLC wrapped a verdict line; clause names too long")
        got = {}
        for payload in r.rej:
            got.setdefault(payload[0], []).append(payload[1])
        chk.traces_validated += len(part) - len(got)
        for tid, clauses in sorted(got.items()):
            t = part[tid - 1]
            s = slim[tid - 1]
            if clauses[0].startswith("skip:input:SubrIndex"):
                raise MachineryError("subroutine closure sent to TLC was incomplete: %s" % t["meta"])
            if clauses[0].startswith("skip:"):
                chk.skip("original outside the modelled domain (%s)" % clauses[0][5:])
                continue
            nrej += 1
            seen_keys = set()
            causes = [root_cause(t, cl) for cl in clauses]
            for cl in clauses:
                name = cl.split(":")[0]
                if name.startswith("cff2-to-cff") and any(c and c.startswith("CFFToCFF2:") for c in causes):
                    continue   # converted back from a CFF2 program that already failed: same root cause
                extra = ""
                if t.get("exc", {}).get(name):
                    extra = " exception=%s" % t["exc"][name]
                if t["meta"].get("kind") == "font" and cl.endswith(":Raised") and not root_cause(t, cl):
                    # a corpus font a whole-font rewriting cannot process is not a statement about drawing
                    chk.skip("corpus font: %s on %s%s" % (cl, t["meta"].get("font"), extra))
                    continue
                key = root_cause(t, cl) or re.sub(r"max\d+", "max", cl)
                if key in seen_keys:
                    continue
                seen_keys.add(key)
                chk.reject(key, "%s: %s %s%s" % (what, cl, json.dumps(t["meta"])[:300], extra),
                           {"meta": t["meta"], "trace": s, "clause": cl, "scale": t.get("scale", 0)})
    chk.log("%s: %d traces judged in %.1fs, %d rejected" % (what, len(traces), time.time() - t0, nrej))


WIDTH_OPS = {OPCODE[n] for n in ("hstem", "hstemhm", "vstem", "vstemhm", "cntrmask", "hintmask", "hmoveto", "vmoveto",
                                 "rmoveto", "endchar")}


CURVE_END_OPS = {OPCODE[n] for n in ("rrcurveto", "rlinecurve", "hhcurveto", "vvcurveto", "hvcurveto", "vhcurveto")}
CURVE_START_OPS = {OPCODE[n] for n in ("rrcurveto", "rcurveline", "hhcurveto", "vvcurveto", "hvcurveto", "vhcurveto")}
HINT_OPS = {OPCODE[n] for n in ("hstem", "hstemhm", "vstem", "vstemhm", "cntrmask", "hintmask")}


def blends_before_first_clear(tokens):
    """number of blend operators in front of the first stack-clearing operator (root-cause
    label for the programToCommands width miscount; labelling only, never a verdict)"""
    n = 0
    for x in tokens:
        if x == OPCODE["blend"]:
            n += 1
        elif x in WIDTH_OPS:
            break
    return n


P2C_REWRITINGS = ("commands", "generalize", "specialize", "respecialize")   # the ones that parse with programToCommands


def _out(t, name):
    return next((o for o in t["outs"] if o[0] == name), None)


def _raised(o):
    return bool(len(o) > 5 and o[10])


def root_cause(t, clause):
    """stable key of a KNOWN root cause for a rejected clause, or None (then the clause names itself).
    Labelling only: each condition is the observable signature of one defect (see findings/C12), so
    that an unrelated failure of the same rewriting keeps its own clause key."""
    name = clause.split(":")[0]
    # (2) convertCFF2ToCFF raises IndexError on a callsubr, and the identical conversion with the Private
    #     DICTs read before setCFF2(False) goes through
    if clause == "cff2-to-cff:Raised" and "IndexError" in t.get("exc", {}).get(name, ""):
        pre = _out(t, "cff2-to-cff-pre")
        if pre is not None and not _raised(pre):
            return "CFF2ToCFF:local-subrs-lost-when-Private-is-read-after-setCFF2(False)"
        return None
    # (3) CFF->CFF2 leaves an operand behind, and the only stack-clearing operator the original executes
    #     is an endchar inside a subroutine (nothing at top level, nothing but endchar in its subroutines)
    if clause == "cff-to-cff2:Legal:Arity:leftover":
        o = t["progs"][0]
        sub_ops = set()
        for _i, q in list(o[2]) + list(o[4]):
            sub_ops |= set(q) & WIDTH_OPS
        if not (set(o[1]) & WIDTH_OPS) and sub_ops == {OPCODE["endchar"]}:
            return "CFFToCFF2:width-kept-when-only-stack-clearing-operator-is-in-a-subroutine"
        return None
    # (4) remove_hints loses the endchar (and what only it would have consumed), and the original calls a subroutine
    #     that is nothing but an endchar once its hint operators are dropped
    if clause in ("remove_hints:Legal:no-endchar", "remove_hints:Legal:Arity:leftover"):
        o = t["progs"][0]
        for _i, q in list(o[2]) + list(o[4]):
            ops = [x for x in q if OPBASE < x < MASKBASE]
            if (q and q[-1] == OPCODE["endchar"] and set(ops) <= HINT_OPS | {OPCODE["endchar"]}
                    and (len(q) == 1 or q[-2] >= OPBASE)):
                return "remove_hints:endchar-lost-when-a-subroutine-is-only-endchar-after-dehinting"
        return None
    # (5) specializeCommands runs 1 or 2 operands over maxstack in an operator that ends with a curve and is
    #     followed by another curve operator (the pair that could not be merged: stale stackUse after `continue`)
    if re.fullmatch(r"(re)?specialize[-a-z0-9]*:Legal:StackLimit", clause):
        o = _out(t, name)
        if o is not None and not _raised(o):
            toks, lim = t["progs"][o[1] - 1][1], o[3]
            run, ops = 0, []          # (operator, operands in front of it), masks and their operators left out
            for x in toks:
                if x >= MASKBASE:
                    continue
                if x >= OPBASE:
                    ops.append((x, run))
                    run = 0
                else:
                    run += 1
            over = [i for i, (_x, n) in enumerate(ops) if n > lim]
            if over and all(ops[i][1] <= lim + 2 and ops[i][0] in CURVE_END_OPS and i + 1 < len(ops)
                            and ops[i + 1][0] in CURVE_START_OPS for i in over):
                return "specializeCommands:stale-stack-use-after-unmergeable-curve-pair"
        return None
    # (1) programToCommands reports a width on a CFF2 program with several blends in front of the first
    #     stack-clearing operator (observed on the program that was fed to the rewriting)
    flags = t.get("meta", {}).get("p2cw")
    if flags and t["progs"][0][0] == "cff2" and re.sub(r"-topo|-max\d+", "", name) in P2C_REWRITINGS:
        fed, flag = t["progs"][0][1], flags[0]
        if name == "respecialize":
            g = _out(t, "generalize")
            if g is None or _raised(g):
                return None
            fed, flag = t["progs"][g[1] - 1][1], flags[1]
        if flag and blends_before_first_clear(fed) >= 2:
            return "programToCommands:cff2-width-miscount-after-several-blends"
    return None


TRIVIAL_OPS = {OPCODE[n] for n in ("endchar", "rmoveto", "hmoveto", "vmoveto")}


def account(chk, traces):
    for t in traces:
        nouts = len(t["outs"])
        chk.count(nouts)
        ops = set(x for x in t["progs"][0][1] if x >= OPBASE)
        if nouts and (len(ops - TRIVIAL_OPS) >= 1):
            chk.nontriv(common.digest([t["progs"][0], [o[0] for o in t["outs"]]]))


def run(chk):
    chk.rule = ("one evaluation = one (original charstring, rewriting) pair interpreted on both sides by TLC; programs come from "
                "the MC_T2Sem builder machine (all reachable states, both generalised and specialised twin), from a seeded "
                "grammar generator (every operator form, fractional operands, hints/masks, flex, CFF2 blends, subroutine cuts) "
                "and from every corpus CFF/CFF2 charstring; distinct by (program, subroutines, rewritings); non-trivial = the "
                "original contains at least one drawing, hint or subroutine operator besides moveto/endchar")
    thorough = chk.tier == "thorough"
    _CTX["seed"] = chk.seed
    rng = chk.rng

    # ---- (M) ------------------------------------------------------------------------
    cfg = "MC_T2Sem_thorough" if thorough else "MC_T2Sem"
    r = tlc_retry(chk, "MC_T2Sem", cfg=cfg, label=cfg, timeout=1500, env=JAVA_ENV, workers=TLC_WORKERS)
    gens = sorted(r.prints.get("GEN", []), key=lambda pl: pl[0])   # TLC prints in worker order: fix the order
    if len(gens) != r.distinct - 1:      # every state but the seed state denotes a program
        raise MachineryError("MC_T2Sem exported %d programs for %d states" % (len(gens), r.distinct))
    chk.log("%s: %d states, %d programs exported, %.1fs" % (cfg, r.distinct, len(gens), r.wall))
    chk.notes["mc_constants"] = open(os.path.join(common.SPECS, cfg + ".cfg")).read().split("INIT")[0].strip()

    items = []
    always = []          # run-structured long programs are replayed in every tier
    built_pool = []
    seen = set()
    for payload in gens:
        rec = json.loads(payload[0])
        for form in ("g", "s"):
            p = gen_tokens_to_prog(rec[form], rng)
            key = tuple(p)
            if key in seen:
                continue
            seen.add(key)
            if rec["k"] == "run":
                always.append(len(items))
            items.append((len(items), "cff", enc_prog(p), [], 0, {"kind": "prog", "src": "MC_T2Sem:" + form, "fmt": "cff",
                                                                  "prog": enc_prog(p), "rg": [], "vsi": 0}))
            if rec["k"] == "small":
                built_pool.append((enc_prog(p), rec["w"] >= 0, rec["w"]))
    n_all_mc = len(items)
    # non-vacuity of (M): which operators, in how many of the exported specialised twins
    hist = {}
    for payload in gens:
        for nm in set(OPNAMES[x - OPBASE - 1] for x in json.loads(payload[0])["s"] if OPBASE < x < MASKBASE):
            hist[nm] = hist.get(nm, 0) + 1
    chk.notes["mc_programs_using_operator"] = dict(sorted(hist.items()))
    budget = MC_REPLAY_THOROUGH if thorough else MC_REPLAY_QUICK
    if len(items) > budget:
        # a seeded sample of the exported programs is replayed (all run-structured ones always)
        pick = set(always) | set(rng.sample(range(len(items)), budget))
        items = [items[i] for i in sorted(pick)]
        items = [(i,) + it[1:] for i, it in enumerate(items)]
    chk.notes["mc_programs_exported"] = n_all_mc
    chk.notes["mc_programs_replayed"] = len(items)
    n_mc = len(items)

    # development aid: C12_PHASES=func,built,corpus restricts the run to some phases (default: all; a restricted
    # run says so in its evidence)
    phases = set(os.environ.get("C12_PHASES", "func,built,corpus").split(","))
    if phases != {"func", "built", "corpus"}:
        chk.notes["phases_restricted_to"] = sorted(phases)
        chk.assumptions.append("PARTIAL RUN: only phases %s" % sorted(phases))
    # ---- grammar-generated random programs ----------------------------------------------
    n_rand = 25000 if thorough else 2000
    n_cff2 = 8000 if thorough else 700
    rand_built = []
    for i in range(n_rand):
        p = rand_program(rng, "cff")
        items.append((len(items), "cff", enc_prog(p), [], 0, {"kind": "prog", "src": "grammar", "fmt": "cff",
                                                              "prog": enc_prog(p), "rg": [], "vsi": 0}))
    for i in range(n_cff2):
        rg = rng.choice([[], [1], [2], [3], [2, 1]])
        p = rand_program(rng, "cff2", rg)
        if len(rg) == 2 and rng.random() < 0.5:
            # explicit vsindex 1 in front: the second VarData's region count applies
            p = [1, "vsindex"] + rand_program(rng, "cff2", rg[1:])
        items.append((len(items), "cff2", enc_prog(p), rg, 0, {"kind": "prog", "src": "grammar", "fmt": "cff2",
                                                               "prog": enc_prog(p), "rg": rg, "vsi": 0}))
    chk.log("function-level: %d programs from TLC, %d from the grammar generator" % (n_mc, len(items) - n_mc))
    t0 = time.time()
    if "func" not in phases:
        items = []
    res = common.pmap(_work_func, items, chunksize=200)
    traces = []
    for x in res:
        if isinstance(x, tuple):
            chk.skip("generated program: " + x[1])
        else:
            traces.append(x)
    chk.log("function-level rewritings done in %.1fs" % (time.time() - t0))
    account(chk, traces)
    for t in traces[:1] + traces[n_mc:n_mc + 1]:
        chk.sample({"meta": t["meta"].get("src"), "in": t["progs"][0][1][:40], "rewritings": [o[0] for o in t["outs"]]})
    judge_all(chk, traces, "function-level")
    del traces, res

    # ---- built fonts: subroutines, hint removal, CFF<->CFF2, widths, cffsubr ---------------
    # grammar programs whose width bookkeeping the generator knows
    n_fonts = 200 if thorough else 30
    per_font = 50
    pool = list(built_pool)
    rng.shuffle(pool)
    gl_rand = []
    for i in range(n_fonts * per_font // 2):
        p = rand_program(rng, "cff")
        if p and p[-1] != "endchar":
            p.append("endchar")
        hasw, wval = has_width_prefix(p)
        gl_rand.append((enc_prog(p), hasw, wval))
    fonts = []
    for i in range(n_fonts):
        gl = [pool[(i * (per_font // 2) + j) % len(pool)] for j in range(per_font // 2)] if pool else []
        gl += gl_rand[i * (per_font // 2):(i + 1) * (per_font // 2)]
        if rng.random() < 0.3:
            gl += gl[:5]    # duplicated glyphs share subroutines
        nw = rng.choice([0, 0, 3, 500, 560])
        dw = rng.choice([0, 5, 500, 601, nw, nw + 5])
        # re-base widths so that (a) some glyphs sit exactly on defaultWidthX, (b) explicit ones spread
        pad = (1239, 1240, 1241)[i % 3] if (i % 10 == 5) else 0   # the subroutine bias changes at 1240
        if i % 10 == 7 and sum(1 for g in gl if not g[1]) >= 5:
            gl = [g for g in gl if not g[1]]    # monospaced: no glyph carries a width, every advance is defaultWidthX
        fonts.append((i, gl, dw, nw, pad))
    t0 = time.time()
    if "built" not in phases:
        fonts = []
    res = common.pmap(_work_built, fonts)
    traces = []
    for tr, sk, notes in res:
        traces += tr
        for k, v in sk.items():
            chk.skip("built font: " + k, v)
        for k, v in notes.items():
            chk.notes.setdefault("built_font_exceptions", {})[k] = v
    chk.log("built fonts: %d fonts, %d glyph traces in %.1fs" % (len(fonts), len(traces), time.time() - t0))
    account(chk, traces)
    if traces:
        t = traces[len(traces) // 2]
        chk.sample({"meta": t["meta"], "in": t["progs"][0][1][:40], "rewritings": [o[0] for o in t["outs"]]})
    judge_all(chk, traces, "built fonts")
    del traces, res

    # ---- (V) corpus -----------------------------------------------------------------------
    paths = list(common.corpus_fonts())
    for pth in common.corpus_files(".ttx"):
        try:
            with open(pth, "rb") as fh:
                head = fh.read(400000)
        except OSError:
            continue
        # quick tier: TTX sources only for CFF2 (the binaries cover CFF); thorough: every TTX font with CFF/CFF2
        if (b"<CFF2>" in head or (thorough and b"<CFF>" in head)) and b"<ttFont" in head[:600] and b"<GlyphOrder>" in head:
            paths.append(pth)
    t0 = time.time()
    if "corpus" not in phases:
        paths = []
    loaded = common.pmap(_work_corpus_load, paths)
    distinct, nfonts = {}, 0
    for pth, (fonts_, why) in zip(paths, loaded):
        if why:
            chk.skip("corpus: " + why)
        for key, data in fonts_:
            nfonts += 1
            distinct.setdefault(key, (common.rel(pth), data))
    cap = None if thorough else 60
    chk.log("corpus: loaded %d files in %.1fs" % (len(paths), time.time() - t0))
    fonts_ = sorted(distinct.values(), key=lambda kv: kv[0])
    # phase A: every (font, group of rewritings) pair in its own worker; phase B: assemble and run the
    # function-level rewritings per font
    part_items = [(label, data, part, cap) for label, data in fonts_ for part in ("base", "hints", "subr", "chain")]
    part_res = common.pmap(_work_font_part, part_items)
    chk.log("corpus: %d (font, rewriting group) parts done at %.1fs" % (len(part_items), time.time() - t0))
    work = []
    for fi, (label, data) in enumerate(fonts_):
        rs = part_res[4 * fi:4 * fi + 4]
        bad = [r for r in rs if r[0] == "error"]
        if bad:
            chk.skip("corpus: font cannot be taken apart by the harness (%s)" % bad[0][1].split(":")[0])
            continue
        rew = {}
        for r in rs:
            rew.update(r[1])
        work.append((label, None, cap, cap, (rs[0][0], rew, rs[0][2])))
    res = common.pmap(_work_corpus, work)
    traces = []
    for tr, sk, notes in res:
        traces += tr
        for k, v in sk.items():
            chk.skip("corpus: " + k, v)
        for k, v in notes.items():
            chk.notes.setdefault("corpus_rewriting_exceptions", {})[k] = v
    chk.log("corpus: %d CFF/CFF2 fonts in %d files, %d distinct (CFF table, hmtx) pairs, %d traces in %.1fs"
            % (nfonts, len(paths), len(distinct), len(traces), time.time() - t0))
    chk.notes["corpus_fonts_with_cff"] = nfonts
    chk.notes["corpus_distinct_cff_tables"] = len(distinct)
    account(chk, traces)
    for t in traces[:1]:
        chk.sample({"meta": t["meta"], "in": t["progs"][0][1][:40], "rewritings": [o[0] for o in t["outs"]]})
    judge_all(chk, traces, "corpus")

    if not HAVE_CFFSUBR:
        chk.skip("subroutinize: cffsubr not importable")
    chk.exhaustive = False
    chk.assumptions += [
        "operands are 16.16 numbers sent to TLC as integers scaled by a per-trace power of two; traces needing more than 31 bits are skipped and counted",
        "arithmetic/storage charstring operators are outside T2Sem (originals using them are skipped and counted)",
        "CFF2 variation: blend is interpreted at the default location and at the location where one region alone has scalar 1 (affine in the scalars); rounding of blended values belongs to C14/C08",
        "T2CharStringPen is driven with roundTolerance=0 (coordinate rounding is a separate, documented lossy step)",
        "Canon = DESIGN.md C12 rules (1)-(4); preserveTopology, generalize, compile/decompile, desubroutinize, remove_hints, CFF->CFF2, recompile and cffsubr are judged with the strict form (lone moves only)",
        "a corpus font on which a whole-font rewriting raises is skipped and listed (crash-freedom is not this property); on generated well-formed programs and fonts, and for function-level rewritings of corpus charstrings, a raising rewriting is a violation (clause Raised)",
        "specializeProgram(maxstack=m) is held to m operands (its contract: 'minding not to go over max stack size'); the format limits are the cases m = 48 (CFF) and m = 513 (CFF2)",
        "a Type 2 rewriting of a charstring that ends with endchar must end with endchar too (TN5177: charstring form '... endchar'); CFF2 has none",
    ]


def has_width_prefix(p):
    """(has_width, value) for programs produced by rand_program: by construction the first
    stack-clearing operator carries one extra leading operand iff a width was emitted"""
    need = {"rmoveto": 2, "hmoveto": 1, "vmoveto": 1, "endchar": 0}
    n = 0
    for t in p:
        if _isnum(t):
            n += 1
            continue
        if isinstance(t, (bytes, bytearray)):
            continue
        if t in need:
            return (n == need[t] + 1), (p[0] if n == need[t] + 1 else -1)
        if t in ("hstem", "hstemhm", "vstem", "vstemhm", "hintmask", "cntrmask"):
            return (n % 2 == 1), (p[0] if n % 2 == 1 else -1)
        return False, -1
    return False, -1


def from_tokens(toks, k):
    """inverse of to_tokens (mask bytes are zero-filled: their content plays no role)"""
    p = []
    for i, x in enumerate(toks):
        if x >= MASKBASE:
            p.append(bytes(x - MASKBASE))
        elif x >= OPBASE:
            p.append(OPNAMES[x - OPBASE - 1])
        elif i + 1 < len(toks) and OPBASE < toks[i + 1] < MASKBASE and OPNAMES[toks[i + 1] - OPBASE - 1] in RAW_BEFORE:
            p.append(x)
        else:
            v = Fraction(x, 1 << k)
            p.append(int(v) if v.denominator == 1 else float(v))
    return p


def rebuild_font(side, k, dw, nw, adv):
    """a two-glyph CFF font (.notdef + the recorded glyph) with the recorded subroutines at their recorded
    indices (the other slots hold a bare `return`): lets --replay re-run the whole-font rewritings of the
    current tree on a glyph that came from a generated font"""
    from fontTools.fontBuilder import FontBuilder
    from fontTools.misc.psCharStrings import T2CharString
    from fontTools.cffLib import SubrsIndex

    prog = from_tokens(side[1], k)
    lsub = [["return"] for _ in range(side[3])]
    gsub = [["return"] for _ in range(side[5])]
    for i, q in side[2]:
        lsub[i] = from_tokens(q, k)
    for i, q in side[4]:
        gsub[i] = from_tokens(q, k)
    sc = lambda v: (lambda f: int(f) if f.denominator == 1 else float(f))(Fraction(v, 1 << k))
    dw, nw = sc(dw), sc(nw)
    fb = FontBuilder(1000, isTTF=False)
    fb.setupGlyphOrder([".notdef", "g"])
    fb.setupCharacterMap({})
    fb.setupCFF("C12Replay", {"FullName": "C12 Replay"},
                {".notdef": T2CharString(program=["endchar"]), "g": T2CharString(program=prog)},
                {"defaultWidthX": dw, "nominalWidthX": nw})
    cff = fb.font["CFF "].cff
    priv = cff.topDictIndex[0].Private
    for q in gsub:
        cff.GlobalSubrs.append(T2CharString(program=q, private=priv, globalSubrs=cff.GlobalSubrs))
    if lsub:
        priv.Subrs = SubrsIndex()
        for q in lsub:
            priv.Subrs.append(T2CharString(program=q, private=priv, globalSubrs=cff.GlobalSubrs))
    fb.setupHorizontalMetrics({".notdef": (dw, 0), "g": (adv, 0)})
    fb.setupHorizontalHeader(ascent=800, descent=-200)
    fb.setupNameTable({"familyName": "C12Replay", "styleName": "Regular"})
    fb.setupOS2()
    fb.setupPost()
    fb.font.recalcBBoxes = False
    sides = [(".notdef", mk_side("cff", ["endchar"], {}, len(lsub), {}, len(gsub), (), 0, dw, nw))]
    L, G = closure(prog, lsub, gsub)
    sides.append(("g", mk_side("cff", prog, L, len(lsub), G, len(gsub), (), 0, dw, nw)))
    return save_font(fb.font), sides


def replay(chk, rep):
    """re-judge the recorded trace as recorded and, when the original program is stored,
    re-run the real rewritings of the current tree on it"""
    _CTX["seed"] = chk.seed
    r = rep["replay"]
    meta = r.get("meta", {})
    chk.log("replaying", json.dumps(meta)[:300], "recorded clause:", r.get("clause"))
    traces = []
    if meta.get("kind") == "prog":
        tr = finalize(func_trace(dec_prog(meta["prog"]), meta["fmt"], meta["rg"], meta["vsi"],
                                 _rng_for(chk.seed, "replay"), meta))
        traces.append(tr)
    elif meta.get("kind") in ("font", "font-func"):
        path = os.path.join(os.path.dirname(common.TESTS), meta["font"])
        fonts_, _why = _work_corpus_load(path)
        for _key, data in fonts_:
            tr, _sk, _nt = _work_corpus((meta["font"], data, None, None, None))
            traces += [t for t in tr if t["meta"].get("glyph") == meta.get("glyph") and t["meta"].get("kind") == meta["kind"]]
    elif meta.get("kind") == "built" and meta.get("adv") is not None and "scale" in r:
        tr0 = r["trace"]
        data, sides = rebuild_font(tr0["progs"][0], r["scale"], tr0["dw"], tr0["nw"], meta["adv"])
        tr, _sk, _nt = font_traces(data, meta["font"], _rng_for(chk.seed, "replay"), func_sample=0, orig=sides)
        tr = [t for t in tr if t["meta"].get("glyph") == "g"]
        for t in tr:
            t["meta"] = dict(meta, rebuilt=1)
        traces += tr
    if not traces:
        chk.log("re-judging the trace as recorded (the real code is NOT re-run for this kind of replay)")
        tr = dict(r["trace"])
        tr["meta"] = meta
        traces.append(tr)
    account(chk, traces)
    judge_all(chk, traces, "replay")
