"""C13 -- curve conversion stays within tolerance and keeps masters compatible.

(M)  MC_Cu2Qu: the search protocol of curves_to_quadratic for EVERY fits table
     (1..3 curves x MAX_N scaled to 4): SameN, Fitting, Minimality, RaiseNotWorse,
     termination; internal laws of the geometric oracle on a small lattice.
(R)  every terminated behaviour TLC exported is replayed into the REAL loops
     (curves_to_quadratic / curve_to_quadratic) with the abstract predicate Fits bound to
     a table-driven stand-in for cubic_approx_spline; what the loop did is judged by TLC.
(V)  the real functions are driven on lattice cubics x tolerances x all_quadratic, tuples
     of curves, seeded random real-valued curves, inputs that exhaust MAX_N, the pens,
     glyphs_to_quadratic on hand-built glyphs and the reverse direction qu2cu; every recorded
     output is converted to dyadic integers (slack logged) and judged by TLC (Trace_C13).
Python only drives and records; every accept/reject decision is Trace_C13.Judge."""
import itertools
import json
import math
from fractions import Fraction

from .common import MachineryError, Interner

LEVEL = "model_checking"

TOLS = [Fraction(1, 8), Fraction(1, 4), Fraction(1, 2), Fraction(1)]
LAT = [(x, y) for x in range(5) for y in range(5)]
QUOTA = {"simple": 600, "inflected": 700, "coincident": 350, "crossed-handles": 250, "collinear": 150, "closed-loop": 150}


# ----------------------------------------------------------------------------
# float -> dyadic conversion (the only numeric work done in Python)
# ----------------------------------------------------------------------------
class Conv:
    """Per-case conversion to integers in units 2^-S; remembers whether it was exact."""

    def __init__(self, S):
        self.S = S
        self.inexact = 0

    def pt(self, p):
        out = []
        for v in p:
            f = Fraction(v) * (1 << self.S)
            r = round(f)
            if r != f:
                self.inexact = 1
            out.append(int(r))
        return out

    def pts(self, P):
        return [self.pt(p) for p in P]


def conv_pts(P, S):
    c = Conv(S)
    return c.pts(P), c.inexact


def choose_scale(maxabs, tol):
    """Largest S <= 12 with |coord|*2^S <= 65000 (CMAX = 2^17 half-units) and
    tol*2^S <= 4000 (TMAX = 2^13 half-units)."""
    S = 12
    while S > 0 and (maxabs * (1 << S) > 65000 or tol * (1 << S) > 4000):
        S -= 1
    return S


def finite(P):
    return all(math.isfinite(v) for p in P for v in p)


class Ids:
    """Exact identity of coordinates (value equality of floats/ints; NaN equals nothing)."""

    def __init__(self):
        self.i = Interner()
        self.k = 0

    def v(self, x):
        if x != x:
            self.k += 1
            return self.i(("nan", self.k))
        return self.i(float(x) + 0.0 if isinstance(x, float) else Fraction(x))

    def pt(self, p):
        return [self.v(p[0]), self.v(p[1])]

    def pts(self, P):
        return [self.pt(p) for p in P]


class Recorder:
    """Collects judged cases: `traces` go to TLC, `metas` stay here (replay, reporting)."""

    def __init__(self, chk):
        self.chk = chk
        self.traces = []
        self.metas = []
        self.ids = Ids()
        self.kinds = {}

    def add(self, t, meta):
        self.traces.append(t)
        self.metas.append(meta)
        key = t["k"] + ":" + meta.get("src", "")
        self.kinds[key] = self.kinds.get(key, 0) + 1

    # ---- cubic -> quadratic result --------------------------------------
    def c2q(self, C, tol, Q, src, meta):
        """C: 4 input points, Q: returned points, tol: tolerance for this curve."""
        ids = self.ids
        meta = dict(meta, src=src)
        if len(Q) == 4 and meta.get("aq") is False:
            # all_quadratic=False may return the cubic itself: must be unchanged
            self.add({"k": "same", "what": "aq-cubic-unchanged", "a": ids.pts(C), "b": ids.pts(Q)}, meta)
            return
        ends = [ids.pt(C[0]), ids.pt(C[3]), ids.pt(Q[0]), ids.pt(Q[-1])] if len(Q) else [[0, 0]] * 4
        if not finite(Q) or not finite(C):
            self.add({"k": "c2q", "fin": 0, "C": [], "Q": [], "eC": 0, "eQ": 0, "tol": 1, "ends": ends}, meta)
            return
        maxabs = max([abs(v) for p in list(C) + list(Q) for v in p] + [1])
        S = choose_scale(maxabs, tol)
        tolU = math.ceil(Fraction(tol) * (1 << S))
        if tolU < 16:
            self.chk.skip("tolerance below the dyadic resolution available in 32 bits (tol*2^S < 16)")
            return
        Cu, eC = conv_pts(C, S)
        Qu, eQ = conv_pts(Q, S)
        meta["S"] = S
        self.add({"k": "c2q", "fin": 1, "C": Cu, "Q": Qu, "eC": eC, "eQ": eQ, "tol": tolU, "ends": ends}, meta)

    # ---- protocol ---------------------------------------------------------
    def proto(self, fits, res, ns, maxn, stub, src, meta):
        L = len(fits)
        W = len(fits[0])
        self.add({"k": "proto", "L": L, "W": W, "maxn": maxn, "stub": 1 if stub else 0,
                  "fits": fits, "res": res, "ns": ns or [0]}, dict(meta, src=src))

    # ---- chain pair ---------------------------------------------------------
    def path(self, A, B, tol, src, meta):
        """A, B: lists of (type, points) with type in l/q/c."""
        ids = self.ids
        meta = dict(meta, src=src)
        allp = [p for _, P in A + B for p in P]
        if not B or not A:
            self.add({"k": "same", "what": "empty-output", "a": len(A), "b": len(B)}, meta)
            return
        ends = [ids.pt(A[0][1][0]), ids.pt(A[-1][1][-1]), ids.pt(B[0][1][0]), ids.pt(B[-1][1][-1])]
        if not finite(allp):
            self.add({"k": "path", "fin": 0, "A": [], "B": [], "eA": 0, "eB": 0, "tol": 1, "ends": ends}, meta)
            return
        maxabs = max([abs(v) for p in allp for v in p] + [1])
        S = choose_scale(maxabs, tol)
        tolU = math.ceil(Fraction(tol) * (1 << S))
        if tolU < 16:
            self.chk.skip("tolerance below the dyadic resolution available in 32 bits (tol*2^S < 16)")
            return
        ca, cb = Conv(S), Conv(S)
        At = [{"t": t, "p": ca.pts(P)} for t, P in A]
        Bt = [{"t": t, "p": cb.pts(P)} for t, P in B]
        meta["S"] = S
        self.add({"k": "path", "fin": 1, "A": At, "B": Bt, "eA": ca.inexact, "eB": cb.inexact,
                  "tol": tolU, "ends": ends}, meta)

    def exc(self, e, src, meta):
        """The code under test raised something other than the documented error."""
        self.add({"k": "exc", "exc": type(e).__name__}, dict(meta, src=src))

    def samen(self, ns, src, meta):
        self.add({"k": "samen", "ns": ns}, dict(meta, src=src))

    def same(self, a, b, what, src, meta):
        self.add({"k": "same", "what": what, "a": a, "b": b}, dict(meta, src=src))


# ----------------------------------------------------------------------------
# driving the real functions
# ----------------------------------------------------------------------------
def fits_table(cu2qu, curves, tols, aq, width):
    """The abstract predicate Fits observed on the real code: cubic_approx_spline(c, n) is not None."""
    out = []
    for c, tol in zip(curves, tols):
        cc = [complex(*p) for p in c]
        out.append([1 if cu2qu.cubic_approx_spline(cc, n, tol, aq) is not None else 0 for n in range(1, width + 1)])
    return out


def seg_count(spline, aq):
    """Protocol n of a returned point list (all_quadratic=False: 3 points = n 1, 4 points = the cubic = n 2)."""
    return len(spline) - 2


def drive_single(rec, cu2qu, C, tol, aq, src, with_proto=True):
    from fontTools.cu2qu.errors import ApproxNotFoundError

    meta = {"fn": "curve_to_quadratic", "curves": [C], "tols": [tol], "aq": aq}
    ftol = float(tol)
    try:
        Q = cu2qu.curve_to_quadratic(C, ftol, aq)
        res = "ret"
    except ApproxNotFoundError:
        Q, res = None, "raise"
    except Exception as e:
        rec.exc(e, src, meta)
        return None
    if res == "ret":
        rec.c2q(C, tol, Q, src, meta)
        n = seg_count(Q, aq)
        if with_proto and n >= 1:
            rec.proto(fits_table(cu2qu, [C], [ftol], aq, n), "ret", [n], cu2qu.MAX_N, False, src, meta)
    else:
        rec.proto(fits_table(cu2qu, [C], [ftol], aq, cu2qu.MAX_N), "raise", None, cu2qu.MAX_N, False, src, meta)
    return Q


def drive_multi(rec, cu2qu, curves, tols, aq, src, geom=True):
    from fontTools.cu2qu.errors import ApproxNotFoundError

    meta = {"fn": "curves_to_quadratic", "curves": curves, "tols": tols, "aq": aq}
    ftols = [float(t) for t in tols]
    try:
        out = cu2qu.curves_to_quadratic(curves, ftols, aq)
        res = "ret"
    except ApproxNotFoundError:
        out, res = None, "raise"
    except Exception as e:
        rec.exc(e, src, meta)
        return None
    if res == "ret":
        ns = [seg_count(q, aq) for q in out]
        rec.samen([len(q) for q in out], src, meta)
        w = max(ns)
        if min(ns) >= 1:
            rec.proto(fits_table(cu2qu, curves, ftols, aq, w), "ret", ns, cu2qu.MAX_N, False, src, meta)
        if geom:
            for C, tol, Q in zip(curves, tols, out):
                rec.c2q(C, tol, Q, src, meta)
    else:
        rec.proto(fits_table(cu2qu, curves, ftols, aq, cu2qu.MAX_N), "raise", None, cu2qu.MAX_N, False, src, meta)
    return out


def replay_tables(rec, cu2qu, gens):
    """(R): run the real loops on every TLC-generated fits table, with cubic_approx_spline
    replaced by a table lookup (columns beyond the table: never fits)."""
    from fontTools.cu2qu.errors import ApproxNotFoundError

    if cu2qu.COMPILED:
        rec.chk.skip("cu2qu is compiled: Fits cannot be bound to a table", len(gens))
        return
    real = cu2qu.cubic_approx_spline
    try:
        for g in gens:
            L, fits = g["L"], g["fits"]
            W = len(fits[0])

            def stub(curve, n, tol, aq, fits=fits, W=W):
                c = int(curve[0].real)  # curve number is carried in the first control point
                if n <= W and fits[c][n - 1]:
                    return [complex(c, 0)] * (n + 2)
                return None

            cu2qu.cubic_approx_spline = stub
            curves = [[(c, 0)] * 4 for c in range(L)]
            try:
                out = cu2qu.curves_to_quadratic(curves, [1.0] * L, True)
                res, ns = "ret", [len(q) - 2 for q in out]
            except ApproxNotFoundError:
                res, ns = "raise", None
            rec.proto(fits, res, ns, cu2qu.MAX_N, True, "replay-MC", {"fn": "stub", "gen": g})
            if L == 1:
                try:
                    out = cu2qu.curve_to_quadratic(curves[0], 1.0, True)
                    res, ns = "ret", [len(out) - 2]
                except ApproxNotFoundError:
                    res, ns = "raise", None
                rec.proto(fits, res, ns, cu2qu.MAX_N, True, "replay-MC-single", {"fn": "stub", "gen": g})
    finally:
        cu2qu.cubic_approx_spline = real


def classify(C):
    """Degeneracy class of a cubic (evidence only)."""
    p0, p1, p2, p3 = C
    pts = {p0, p1, p2, p3}

    def cross(a, b, c):
        return (b[0] - a[0]) * (c[1] - a[1]) - (b[1] - a[1]) * (c[0] - a[0])

    if len(pts) == 1:
        return "point"
    if cross(p0, p1, p2) == 0 and cross(p0, p1, p3) == 0 and cross(p0, p2, p3) == 0 and cross(p1, p2, p3) == 0:
        return "collinear"
    if p0 == p3:
        return "closed-loop"
    if len(pts) < 4:
        return "coincident"
    d1, d2 = cross(p0, p1, p3), cross(p0, p2, p3)
    # handles crossing each other: loop or cusp candidates
    if cross(p0, p1, p2) * cross(p1, p2, p3) < 0:
        return "inflected"
    if d1 * d2 < 0:
        return "crossed-handles"
    return "simple"


# ---- pens -----------------------------------------------------------------
def contour_ops(rng, nseg, closed, lat=8, curve_p=0.7):
    def P():
        return (rng.randint(-lat, lat), rng.randint(-lat, lat))

    ops = [("moveTo", (P(),))]
    for _ in range(nseg):
        if rng.random() < curve_p:
            ops.append(("curveTo", (P(), P(), P())))
        else:
            ops.append(("lineTo", (P(),)))
    ops.append(("closePath", ()) if closed else ("endPath", ()))
    return ops


def mixed_contour_ops(rng, nseg, closed, lat=8):
    """Contours that alternate "wild" cubics (no single quadratic fits: kept as cubics when all_quadratic=False) with
    degree-elevated quadratics (a single quadratic fits exactly) and lines: with all_quadratic=False the pen switches
    between passing a cubic through and converting the next one, so its notion of the current point matters."""
    cur = (rng.randint(-lat, lat), rng.randint(-lat, lat))
    ops = [("moveTo", (cur,))]
    prev = cur  # where the previous segment started (a pen with a stale current point would still be there)
    for _ in range(nseg):
        kind = rng.choice(["wild", "elevated", "elevated", "elevated-from-previous-start", "line"])
        if kind == "wild":
            a = (cur[0] + rng.choice([-9, 9, 12]), cur[1] + rng.choice([-12, 10]))
            b = (cur[0] + rng.choice([-12, 11]), cur[1] + rng.choice([9, -9]))
            e = (cur[0] + rng.choice([-14, -2, 2, 15]), cur[1] + rng.choice([-13, -1, 2, 16]))
            ops.append(("curveTo", (a, b, e)))
            prev, cur = cur, e
        elif kind.startswith("elevated"):
            base = prev if kind != "elevated" else cur  # exact quadratic as seen from `base`
            d1 = (rng.randint(-4, 4), rng.randint(-4, 4))
            d2 = (rng.randint(-4, 4), rng.randint(-4, 4))
            prev = cur
            cur = base
            q1 = (cur[0] + 3 * d1[0], cur[1] + 3 * d1[1])
            q2 = (q1[0] + 3 * d2[0], q1[1] + 3 * d2[1])
            c1 = (cur[0] + 2 * d1[0], cur[1] + 2 * d1[1])
            c2 = (q2[0] - 2 * d2[0], q2[1] - 2 * d2[1])
            ops.append(("curveTo", (c1, c2, q2)))
            cur = q2
        else:
            prev = cur
            cur = (cur[0] + rng.randint(-6, 6), cur[1] + rng.randint(-6, 6))
            ops.append(("lineTo", (cur,)))
    ops.append(("closePath", ()) if closed else ("endPath", ()))
    return ops


def play(ops, pen):
    for op, args in ops:
        getattr(pen, op)(*args)


def ops_pieces(ops):
    """Segment-pen operations -> list of (type, points) pieces (closing line of closed contours included)."""
    out = []
    cur = start = None
    for op, args in ops:
        if op == "moveTo":
            cur = start = args[0]
        elif op == "lineTo":
            out.append(("l", [cur, args[0]]))
            cur = args[0]
        elif op == "curveTo":
            out.append(("c", [cur] + list(args)))
            cur = args[-1]
        elif op == "qCurveTo":
            out.append(("q", [cur] + list(args)))
            cur = args[-1]
        elif op == "closePath":
            if cur != start:
                out.append(("l", [cur, start]))
            cur = start
    return out


def pair_pen_ops(rec, ops_in, ops_out, tol, aq, src, meta):
    """Cu2QuPen-style filters: one output operation per input operation."""
    ids = rec.ids
    if len(ops_in) != len(ops_out):
        rec.same(len(ops_in), len(ops_out), "pen-operation-count", src, meta)
        return
    cur = None
    pass_in, pass_out = [], []
    for (op, args), (op2, args2) in zip(ops_in, ops_out):
        if op == "curveTo":
            C = [cur] + list(args)
            Q = [cur] + list(args2)
            if op2 == "curveTo" and aq is False:
                rec.c2q(C, tol, Q, src, dict(meta, aq=False))
            elif op2 == "qCurveTo":
                rec.c2q(C, tol, Q, src, dict(meta, aq=aq))
            else:
                rec.same(["qCurveTo"], [op2], "pen-curve-operator", src, meta)
        else:
            pass_in.append([op, [ids.pt(p) for p in args]])
            pass_out.append([op2, [ids.pt(p) for p in args2]])
        if args:
            cur = args[-1]
    rec.same(pass_in, pass_out, "pen-passthrough", src, meta)


def drive_pointpen(rec, ops, tol, aq, meta):
    from fontTools.pens.cu2quPen import Cu2QuPointPen
    from fontTools.pens.recordingPen import RecordingPen, RecordingPointPen
    from fontTools.pens.pointPen import SegmentToPointPen, PointToSegmentPen

    # point pen: whole-contour comparison (point pens may restructure the contour)
    rp = RecordingPointPen()
    try:
        play(ops, SegmentToPointPen(Cu2QuPointPen(rp, float(tol), all_quadratic=aq)))
    except Exception as e:
        rec.exc(e, "Cu2QuPointPen", meta)
        return
    r2 = RecordingPen()
    rp.replay(PointToSegmentPen(r2, outputImpliedClosingLine=True))
    r1 = RecordingPen()
    play(ops, SegmentToPointPen(PointToSegmentPen(r1, outputImpliedClosingLine=True)))
    A, B = ops_pieces(r1.value), ops_pieces(r2.value)
    if A or B:
        rec.path(A, B, tol, "Cu2QuPointPen", meta)
        if aq:
            rec.same(0, sum(1 for t, _ in B if t == "c"), "pointpen-all-quadratic-left-a-cubic", "Cu2QuPointPen", meta)


def drive_pens(rec, chk, count):
    from fontTools.pens.cu2quPen import Cu2QuPen, Cu2QuPointPen, Cu2QuMultiPen
    from fontTools.pens.recordingPen import RecordingPen, RecordingPointPen
    from fontTools.pens.pointPen import SegmentToPointPen, PointToSegmentPen

    rng = chk.rng
    for it in range(count):
        tol = rng.choice(TOLS)
        aq = rng.random() < 0.7
        closed = rng.random() < 0.6
        if it % 2:
            ops = mixed_contour_ops(rng, rng.randint(2, 5), closed)
        else:
            ops = contour_ops(rng, rng.randint(1, 4), closed)
        meta = {"fn": "pen", "ops": ops, "tols": [tol], "aq": aq}
        # segment pen
        r = RecordingPen()
        try:
            play(ops, Cu2QuPen(r, float(tol), all_quadratic=aq))
        except Exception as e:
            rec.exc(e, "Cu2QuPen", meta)
            continue
        pair_pen_ops(rec, ops, r.value, tol, aq, "Cu2QuPen", meta)
        if chk.tier == "thorough" or it % 5 < 3:
            drive_pointpen(rec, ops, tol, aq, meta)
        # multi pen: m masters with the same structure
        m = rng.randint(2, 3)
        masters = [ops] + [[(op, tuple((p[0] + rng.randint(-2, 2), p[1] + rng.randint(-2, 2)) for p in args)) for op, args in ops]
                           for _ in range(m - 1)]
        recs = [RecordingPen() for _ in range(m)]
        mp = Cu2QuMultiPen(recs, float(tol))
        meta_m = {"fn": "multipen", "masters": masters, "tols": [tol], "aq": True}
        try:
            for k in range(len(ops)):
                op = ops[k][0]
                if op in ("closePath", "endPath"):
                    getattr(mp, op)()
                else:
                    getattr(mp, op)([mo[k][1] for mo in masters])
        except Exception as e:
            rec.exc(e, "Cu2QuMultiPen", meta_m)
            continue
        nops = [len(x.value) for x in recs]
        rec.samen([[[op, len(a)] for op, a in x.value] for x in recs], "Cu2QuMultiPen", meta_m)
        if len(set(nops)) == 1:
            for mo, x in zip(masters, recs):
                pair_pen_ops(rec, mo, x.value, tol, True, "Cu2QuMultiPen", meta_m)


class HGlyph:
    """Minimal hand-built glyph object offering what cu2qu.ufo needs."""

    name = "g"

    def __init__(self):
        self.contours = []
        self._cur = None

    def __len__(self):
        return len(self.contours)

    def drawPoints(self, pen):
        for c in self.contours:
            pen.beginPath()
            for pt, st in c:
                pen.addPoint(pt, st, False, None)
            pen.endPath()

    def clearContours(self):
        self.contours = []

    # point-pen sink
    def beginPath(self, **kw):
        self._cur = []

    def addPoint(self, pt, segmentType=None, smooth=False, name=None, **kw):
        self._cur.append((pt, segmentType))

    def endPath(self):
        self.contours.append(self._cur)
        self._cur = None

    def addComponent(self, *a, **kw):
        pass

    def getPen(self):
        from fontTools.pens.pointPen import SegmentToPointPen

        return SegmentToPointPen(self)

    def segments(self):
        from fontTools.pens.recordingPen import RecordingPen
        from fontTools.pens.pointPen import PointToSegmentPen

        r = RecordingPen()
        self.drawPoints(PointToSegmentPen(r, outputImpliedClosingLine=True))
        return r.value


def drive_glyphs(rec, chk, count):
    from fontTools.cu2qu import ufo as cu_ufo

    rng = chk.rng
    for it in range(count):
        m = rng.randint(2, 3)
        base = []
        for _ in range(rng.randint(1, 2)):
            base += contour_ops(rng, rng.randint(2, 4), True, lat=10)
        masters = [base] + [[(op, tuple((p[0] + rng.randint(-3, 3), p[1] + rng.randint(-3, 3)) for p in args)) for op, args in base]
                            for _ in range(m - 1)]
        glyphs = []
        for mo in masters:
            g = HGlyph()
            play(mo, g.getPen())
            glyphs.append(g)
        before = [g.segments() for g in glyphs]
        tols = [rng.choice(TOLS) for _ in range(m)] if rng.random() < 0.5 else [rng.choice(TOLS)] * m
        aq = rng.random() < 0.75
        meta = {"fn": "glyphs_to_quadratic", "masters": masters, "tols": tols, "aq": aq}
        try:
            cu_ufo.glyphs_to_quadratic(glyphs, [float(t) for t in tols], all_quadratic=aq)
        except cu_ufo.IncompatibleGlyphsError:
            chk.skip("generated masters are not structurally compatible (a contour happens to end on its start point)")
            continue
        except Exception as e:
            rec.exc(e, "glyphs_to_quadratic", meta)
            continue
        after = [g.segments() for g in glyphs]
        nops = [len(a) for a in after]
        rec.samen([[[op, len(a)] for op, a in x] for x in after], "glyphs_to_quadratic", meta)
        if len(set(nops)) != 1:
            continue
        for b, a, tol in zip(before, after, tols):
            pair_pen_ops(rec, b, a, tol, aq, "glyphs_to_quadratic", meta)


# ---- reverse direction -------------------------------------------------------
def drive_qu2cu(rec, chk, cu2qu, count):
    from fontTools.qu2cu import qu2cu
    from fontTools.pens.qu2cuPen import Qu2CuPen
    from fontTools.pens.recordingPen import RecordingPen

    rng = chk.rng

    def P(lat):
        return (rng.randint(-lat, lat), rng.randint(-lat, lat))

    for it in range(count):
        tol = rng.choice(TOLS)
        all_cubic = rng.random() < 0.5
        quads = []
        mode = it % 3
        if mode == 0:
            # round trip: splines produced by cu2qu from lattice cubics, chained
            cur = (0, 0)
            for _ in range(rng.randint(1, 3)):
                C = [cur, P(6), P(6), P(6)]
                try:
                    q = cu2qu.curve_to_quadratic(C, float(rng.choice(TOLS)))
                except Exception:
                    break
                quads.append([tuple(p) for p in q])
                cur = tuple(q[-1])
        else:
            cur = (0, 0)
            for _ in range(rng.randint(1, 3)):
                k = rng.randint(1, 4)
                if mode == 1:
                    sp = [cur] + [P(6) for _ in range(k)] + [P(6)]
                else:  # smooth-ish: small steps so that merging into cubics actually happens
                    sp = [cur]
                    d = (rng.randint(1, 3), rng.randint(0, 2))
                    for _ in range(k + 1):
                        d = (d[0] + rng.randint(-1, 1), d[1] + rng.randint(-1, 1))
                        sp.append((sp[-1][0] + d[0], sp[-1][1] + d[1]))
                quads.append(sp)
                cur = sp[-1]
        if not quads:
            continue
        meta = {"fn": "quadratic_to_curves", "quads": quads, "tols": [tol], "all_cubic": all_cubic}
        try:
            out = qu2cu.quadratic_to_curves(quads, float(tol), all_cubic)
        except Exception as e:
            rec.exc(e, "quadratic_to_curves", meta)
            continue
        A = [("q", list(q)) for q in quads]
        B = [("c" if len(c) == 4 else "q", list(c)) for c in out]
        if any(len(c) not in (3, 4) for c in out):
            rec.same([3, 4], sorted({len(c) for c in out}), "qu2cu-curve-arity", "quadratic_to_curves", meta)
            continue
        if all_cubic:
            rec.same(0, sum(1 for c in out if len(c) != 4), "qu2cu-all-cubic-left-a-quadratic", "quadratic_to_curves", meta)
        rec.path(A, B, tol, "quadratic_to_curves", meta)
        if any(len(c) == 4 for c in out):
            chk.nontriv(("qu2cu", json.dumps(quads), str(tol), all_cubic))
        if it % 2:
            continue
        # the pen: same spline as one open contour
        r = RecordingPen()
        try:
            pen = Qu2CuPen(r, float(tol), all_cubic=all_cubic)
            pen.moveTo(quads[0][0])
            for q in quads:
                pen.qCurveTo(*q[1:])
            pen.endPath()
        except Exception as e:
            rec.exc(e, "Qu2CuPen", meta)
            continue
        Bp = ops_pieces(r.value)
        rec.path(A, Bp, tol, "Qu2CuPen", dict(meta, fn="Qu2CuPen"))


# ----------------------------------------------------------------------------
def build_cases(chk, rec):
    from fontTools.cu2qu import cu2qu

    rng = chk.rng
    thorough = chk.tier == "thorough"

    # ---- lattice cubics ---------------------------------------------------
    allc = [[(0, 0), p1, p2, p3] for p1 in LAT for p2 in LAT for p3 in LAT]
    if thorough:
        sel = allc
    else:
        # every degeneracy class fully where it is small, a seeded sample of the rest
        byc = {}
        for C in allc:
            byc.setdefault(classify(C), []).append(C)
        sel = []
        for k in sorted(byc):
            v = byc[k]
            sel += rng.sample(v, min(len(v), QUOTA.get(k, 300)))
    classes = {}
    nlat = 0
    for C in sel:
        cl = classify(C)
        classes[cl] = classes.get(cl, 0) + 1
        for tol in (TOLS if thorough else rng.sample(TOLS, 2)):
            for aq in (True, False):
                nlat += 1
                Q = drive_single(rec, cu2qu, C, tol, aq, "lattice", with_proto=thorough or nlat % 3 == 0)
                chk.count()
                if Q is not None and (len(Q) > 3 or cl != "simple"):
                    chk.nontriv(("lat", tuple(C), str(tol), aq))
    chk.notes["lattice_curves_by_class"] = classes
    chk.log("lattice: %d curves, %d cases so far" % (len(sel), len(rec.traces)))

    # ---- tuples of curves (shared n) ----------------------------------------
    pool = rng.sample(allc, 200)
    pairs = list(itertools.combinations(range(len(pool)), 2))
    npairs = len(pairs) if thorough else 1200
    ntriples = 6000 if thorough else 800
    for a, b in (pairs if thorough else rng.sample(pairs, npairs)):
        tols = [rng.choice(TOLS), rng.choice(TOLS)]
        aq = rng.random() < 0.8
        drive_multi(rec, cu2qu, [pool[a], pool[b]], tols, aq, "pairs", geom=rng.random() < 0.3)
        chk.count()
        chk.nontriv(("pair", a, b, str(tols), aq))
    for _ in range(ntriples):
        idx = rng.sample(range(len(pool)), 3)
        tols = [rng.choice(TOLS) for _ in idx]
        aq = rng.random() < 0.8
        drive_multi(rec, cu2qu, [pool[i] for i in idx], tols, aq, "triples", geom=rng.random() < 0.2)
        chk.count()
        chk.nontriv(("triple", tuple(idx), str(tols), aq))
    chk.log("tuples done, %d cases so far" % len(rec.traces))

    # ---- random real-valued curves -------------------------------------------
    nrand = 12000 if thorough else 1200
    for it in range(nrand):
        scale = (8.0, 64.0, 1000.0)[it % 3]
        C = [(rng.uniform(-scale, scale), rng.uniform(-scale, scale)) for _ in range(4)]
        if it % 7 == 0:  # near-degenerate: third point almost on the chord / coincident handles
            C[2] = (C[1][0] + rng.uniform(-1e-3, 1e-3), C[1][1] + rng.uniform(-1e-3, 1e-3))
        tol = rng.uniform(scale / 250, scale / 20)
        aq = rng.random() < 0.8
        if it % 5 == 0:
            C2 = [(x + rng.uniform(-scale / 10, scale / 10), y + rng.uniform(-scale / 10, scale / 10)) for x, y in C]
            drive_multi(rec, cu2qu, [C, C2], [tol, tol * rng.uniform(0.5, 2)], aq, "random-pairs")
        else:
            drive_single(rec, cu2qu, C, tol, aq, "random")
        chk.count()
        chk.nontriv(("rand", it))

    # ---- error path: inputs that really exhaust MAX_N --------------------------
    nerr = 400 if thorough else 120
    for it in range(nerr):
        big = rng.choice([1e3, 1e4, 1e5])
        C = [(0, 0)] + [(rng.uniform(-big, big), rng.uniform(-big, big)) for _ in range(3)]
        tol = rng.choice([1e-9, 1e-7, 1e-6, 1e-5]) * big / 1e3 * rng.uniform(0.5, 2) * (1000 if it % 4 == 3 else 1)
        if it % 3 == 0:
            drive_single(rec, cu2qu, C, tol, True, "error-path", with_proto=True)
        else:
            C2 = [(rng.randint(0, 4), rng.randint(0, 4)) for _ in range(4)]
            order = [C2, C] if it % 2 else [C, C2]
            tl = [0.5, tol] if it % 2 else [tol, 0.5]
            drive_multi(rec, cu2qu, order, tl, True, "error-path", geom=False)
        chk.count()
        chk.nontriv(("err", it))
    # ---- MAX_N boundary: tolerances at which exactly n = MAX_N is the first fit ------
    nb = 60 if thorough else 14
    found = 0
    for it in range(nb):
        big = rng.choice([1e3, 1e4])
        C = [(0, 0)] + [(rng.uniform(-big, big), rng.uniform(-big, big)) for _ in range(3)]
        cc = [complex(*p) for p in C]

        def least_tol(n):
            lo, hi = 0.0, big
            for _ in range(50):
                mid = (lo + hi) / 2
                if cu2qu.cubic_approx_spline(cc, n, mid, True) is not None:
                    hi = mid
                else:
                    lo = mid
            return hi

        t_hi, t_lo = least_tol(cu2qu.MAX_N - 1), least_tol(cu2qu.MAX_N)
        if not t_lo < t_hi:
            chk.skip("no tolerance separates n = MAX_N from n = MAX_N - 1 for this curve")
            continue
        tol = (t_lo + t_hi) / 2
        found += 1
        if it % 2:
            drive_single(rec, cu2qu, C, tol, True, "maxn-boundary")
        else:
            C2 = [(rng.randint(0, 4), rng.randint(0, 4)) for _ in range(4)]
            drive_multi(rec, cu2qu, [C2, C], [0.5, tol], True, "maxn-boundary", geom=False)
        chk.count()
        chk.nontriv(("maxn", it))
    chk.notes["maxn_boundary_cases"] = found
    chk.log("random + error path done, %d cases so far" % len(rec.traces))

    # ---- pens, glyphs, reverse direction ----------------------------------------
    drive_pens(rec, chk, 1500 if thorough else 400)
    drive_glyphs(rec, chk, 1200 if thorough else 150)
    drive_qu2cu(rec, chk, cu2qu, 3000 if thorough else 360)
    chk.log("pens/glyphs/qu2cu done, %d cases" % len(rec.traces))


def judge(chk, rec, chunk=12000):
    """Batch validation by TLC (Trace_C13.Judge); returns rejected (trace, meta, clause)."""
    rejected = []
    cert = 0
    nc2q = 0
    traces = rec.traces
    for base in range(0, len(traces), chunk):
        part = traces[base : base + chunk]
        r = chk.tlc("Trace_C13", traces=part, timeout=1500)
        if r.distinct < 2 * len(part):
            raise MachineryError("Trace_C13: TLC judged %d states for %d traces" % (r.distinct, len(part)))
        cert += len(r.prints.get("CERT", []))
        nc2q += sum(1 for t in part if t["k"] == "c2q" and t["fin"] == 1)
        got = {p[0]: (p[1] if len(p) > 1 else "?") for p in r.rej}
        for tid, clause in got.items():
            t, m = part[tid - 1], rec.metas[base + tid - 1]
            if clause.startswith("skip:"):
                chk.skip(clause)
            elif clause.startswith("malformed:"):
                raise MachineryError("malformed trace %s: %s" % (clause, json.dumps(t)[:400]))
            else:
                rejected.append((t, m, clause))
        chk.traces_validated += len(part) - len(got)
    chk.notes["c2q_cases_judged"] = nc2q
    chk.notes["c2q_cases_certified_on_the_whole_parameter_interval"] = cert
    return rejected


def jsonable(o):
    if isinstance(o, Fraction):
        return float(o)
    if isinstance(o, (list, tuple)):
        return [jsonable(x) for x in o]
    if isinstance(o, dict):
        return {k: jsonable(v) for k, v in o.items()}
    return o


def report(chk, rejected):
    for t, m, clause in rejected:
        src = m.get("src", "")
        key = "%s@%s" % (clause, src)
        chk.reject(key, "%s: %s on %s" % (src, clause, json.dumps(jsonable({k: v for k, v in m.items() if k != "gen"}))[:300]),
                   {"meta": jsonable(m), "trace": t})


def run(chk):
    from fontTools.cu2qu import cu2qu

    chk.rule = ("one case = one call of a real conversion function/pen on one input (curve(s), tolerance(s), all_quadratic), "
                "distinct by input; non-trivial = lattice cubic that is degenerate/inflected/looped or needs >= 2 segments, any "
                "tuple of curves, any random or error-path curve, any qu2cu input for which a cubic was produced")
    # (M)
    r = chk.tlc("MC_Cu2Qu", label="MC_Cu2Qu", timeout=600)
    gens = [json.loads(p[0]) for p in r.prints.get("GEN", [])]
    chk.log("MC_Cu2Qu: %d states, %d terminated protocol behaviours exported" % (r.distinct, len(gens)))
    if len(gens) < 16 + 256 + 4096:
        raise MachineryError("MC_Cu2Qu exported only %d behaviours" % len(gens))
    chk.notes["mc_constants"] = {"curves": "1..3", "MAX_N": 4, "fits_tables": len(gens)}
    rec = Recorder(chk)
    # (R)
    replay_tables(rec, cu2qu, gens)
    chk.count(len(rec.traces))
    chk.log("(R) %d protocol replays recorded" % len(rec.traces))
    # (V)
    build_cases(chk, rec)
    chk.notes["cases_by_kind_and_source"] = rec.kinds
    for want in ("c2q:lattice", "proto:error-path", "path:quadratic_to_curves", "samen:glyphs_to_quadratic"):
        for t, m in zip(rec.traces, rec.metas):
            if t["k"] + ":" + m["src"] == want and (t["k"] != "proto" or t["res"] == "raise"):
                s = dict(t)
                if s["k"] == "proto":
                    s["fits"] = "[%d x %d table, all 0]" % (s["L"], s["W"]) if not any(map(any, s["fits"])) else s["fits"]
                chk.sample({"input": jsonable({k: v for k, v in m.items() if k in ("fn", "curves", "tols", "aq", "quads")}), "trace": s})
                break
    nraise = sum(1 for t in rec.traces if t["k"] == "proto" and t["res"] == "raise" and not t["stub"])
    chk.notes["real_error_path_cases"] = nraise
    if nraise < 20:
        # not a machinery failure: a tree that never raises is judged on what it returned instead
        chk.log("WARNING: error path hardly exercised (%d raises)" % nraise)
    rejected = judge(chk, rec, chunk=30000 if chk.tier == "thorough" else 12000)
    report(chk, rejected)
    chk.exhaustive = False
    chk.assumptions += [
        "tolerance is decided at the parameters k/16 of every piece by necessary conditions in 32-bit dyadic arithmetic "
        "(slack derived in Cu2Qu.tla); between samples only the Bernstein certificate (counted separately) speaks",
        "a sample is rejected only if it is certainly farther than the tolerance from the whole other curve (Hausdorff), which "
        "is implied both by cu2qu's equal-parameter bound and by the documented 'permitted deviation'",
        "the Fits predicate of the protocol is observed through cu2qu.cubic_approx_spline (pure-Python build)",
        "in the (R) replay cubic_approx_spline is bound to the TLC-generated table; MAX_N itself is never patched: the real "
        "error path is reached with tiny tolerances on large curves",
        "quick tier samples the 15 625 lattice cubics by degeneracy class; thorough runs all of them",
    ]


def replay(chk, rep):
    """Re-run the recorded input on the current tree and re-judge."""
    from fontTools.cu2qu import cu2qu

    m = rep["replay"]["meta"]
    rec = Recorder(chk)
    fn = m.get("fn")
    if fn == "curve_to_quadratic":
        drive_single(rec, cu2qu, [tuple(p) for p in m["curves"][0]], Fraction(m["tols"][0]), m["aq"], m.get("src", "replay"))
    elif fn == "curves_to_quadratic":
        drive_multi(rec, cu2qu, [[tuple(p) for p in c] for c in m["curves"]], [Fraction(t) for t in m["tols"]], m["aq"], m.get("src", "replay"))
    elif fn == "stub":
        replay_tables(rec, cu2qu, [m["gen"]])
    else:
        chk.log("replay of %s cases re-runs the whole check" % fn)
        return run(chk)
    chk.count(len(rec.traces))
    report(chk, judge(chk, rec))
