"""C14 -- pen adapters preserve geometry.

(M)  MC_PenProto: TLC enumerates every valid segment-pen and point-pen call sequence up to a
     bound over a small point lattice (the reachable states of the protocol machines of
     PenProto.tla), checks the specification's own laws on each (converters inverse,
     reverse involution, area negation, affine covariance, bounds, normal forms idempotent)
     and prints each complete outline.
(R)  every printed outline (plus deeper ones from TLC simulation of the same machine) is
     replayed into the real adapters; what a RecordingPen / RecordingPointPen receives
     downstream is recorded as integers.
(V)  the pen streams of real corpus glyphs go through the same adapters.
Judge: Trace_C14.tla evaluates the contracts of PenProto on the recorded calls.  This file
only drives the code, converts numbers to the integer grid and collects verdicts."""
import json
import os
import re
from types import SimpleNamespace

from . import common
from .common import MachineryError

LEVEL = "model_checking"

MOVE, LINE, CURVE, QCURVE, QBLOB, CLOSE, END, COMP = 1, 2, 3, 4, 5, 6, 7, 8
PBEGIN, POFF, PMOVE, PLINE, PCURVE, PQCURVE, PEND, PCOMP = 11, 12, 13, 14, 15, 16, 17, 18
RAW, S2P, P2S, AFF, RND, REV, REVREV, TT, T2, SVG, MEAS, DECOMP, AREANEG = range(1, 14)
OFFGRID = 7777777
# TLC worker threads (the judge parallelises over traces); VERIF_TLC_WORKERS lowers it on a shared machine
WORKERS = max(1, int(os.environ.get("VERIF_TLC_WORKERS", "16") or 16))
PRIMES = (32749, 32719, 32717, 32713)
BSCALE = 64  # BoundsPen values travel in units of 1/(K*BSCALE), rounded; the judge allows 1 unit

SEGNAME = {MOVE: "moveTo", LINE: "lineTo", CURVE: "curveTo", QCURVE: "qCurveTo", QBLOB: "qCurveTo",
           CLOSE: "closePath", END: "endPath", COMP: "addComponent"}
PTYPE = {POFF: None, PMOVE: "move", PLINE: "line", PCURVE: "curve", PQCURVE: "qcurve"}
PCODE = {None: POFF, "move": PMOVE, "line": PLINE, "curve": PCURVE, "qcurve": PQCURVE}


# --------------------------------------------------------------------------------------
# integer grid <-> real calls
# --------------------------------------------------------------------------------------
def q(x, K):
    """real number -> integer in 1/K units; OFFGRID if it is not on the grid"""
    v = x * K
    r = round(v)
    if abs(v - r) > 1e-6 or abs(r) > 10**7:
        return OFFGRID
    return int(r)


def real(v, K):
    return v // K if v % K == 0 else v / K


def gname(i):
    return "g%d" % i


def gid(name):
    if isinstance(name, str) and name.startswith("g") and name[1:].isdigit():
        return int(name[1:])
    return 999


def enc_matrix(t, K):
    a, b, c, d, e, f = t
    out = []
    for v in (a, b, c, d):
        out.append(int(v) if float(v).is_integer() else OFFGRID)
    return out + [q(e, K), q(f, K)]


def enc_seg(value, K):
    """RecordingPen.value -> calls"""
    out = []
    for op, args in value:
        if op == "moveTo":
            out.append([MOVE, q(args[0][0], K), q(args[0][1], K)])
        elif op == "lineTo":
            out.append([LINE, q(args[0][0], K), q(args[0][1], K)])
        elif op in ("curveTo", "qCurveTo"):
            code = CURVE if op == "curveTo" else QCURVE
            pts = list(args)
            if pts and pts[-1] is None:
                if op != "qCurveTo":
                    return [[0]]
                code = QBLOB
                pts = pts[:-1]
            c = [code]
            for p in pts:
                c += [q(p[0], K), q(p[1], K)]
            out.append(c)
        elif op == "closePath":
            out.append([CLOSE])
        elif op == "endPath":
            out.append([END])
        elif op == "addComponent":
            out.append([COMP, gid(args[0])] + enc_matrix(args[1], K))
        else:
            out.append([0])
    return out


def enc_pts(value, K):
    """RecordingPointPen.value -> calls"""
    out = []
    for op, args, _kw in value:
        if op == "beginPath":
            out.append([PBEGIN])
        elif op == "endPath":
            out.append([PEND])
        elif op == "addPoint":
            pt, st = args[0], args[1]
            out.append([PCODE.get(st, 0), q(pt[0], K), q(pt[1], K)])
        elif op == "addComponent":
            out.append([PCOMP, gid(args[0])] + enc_matrix(args[1], K))
        else:
            out.append([0])
    return out


def pts_of(c, K):
    return [(real(c[i], K), real(c[i + 1], K)) for i in range(1, len(c), 2)]


def play(calls, pen, K):
    """replay encoded calls into a real pen (segment or point pen by op code)"""
    for c in calls:
        o = c[0]
        if o == MOVE:
            pen.moveTo(pts_of(c, K)[0])
        elif o == LINE:
            pen.lineTo(pts_of(c, K)[0])
        elif o == CURVE:
            pen.curveTo(*pts_of(c, K))
        elif o == QCURVE:
            pen.qCurveTo(*pts_of(c, K))
        elif o == QBLOB:
            pen.qCurveTo(*(pts_of(c, K) + [None]))
        elif o == CLOSE:
            pen.closePath()
        elif o == END:
            pen.endPath()
        elif o in (COMP, PCOMP):
            pen.addComponent(gname(c[1]), (c[2], c[3], c[4], c[5], real(c[6], K), real(c[7], K)))
        elif o == PBEGIN:
            pen.beginPath()
        elif o == PEND:
            pen.endPath()
        elif o in PTYPE:
            pen.addPoint(pts_of(c, K)[0], PTYPE[o])
        else:
            raise MachineryError("bad call %r" % (c,))


def is_pt(calls):
    return bool(calls) and calls[0][0] >= PBEGIN


class BaseGlyph:
    """a drawable for glyph sets: replays fixed streams"""

    def __init__(self, seg, pts, K):
        self.seg, self.pts, self.K = seg, pts, K

    def draw(self, pen):
        play(self.seg, pen, self.K)

    def drawPoints(self, pen):
        play(self.pts, pen, self.K)


# base glyphs of component "g1" (real coordinates 0..2, in 1/12 units): one quadratic, one cubic
BASE_Q_SEG = [[MOVE, 0, 0], [LINE, 24, 0], [QCURVE, 24, 24, 0, 12], [CLOSE]]
BASE_Q_PTS = [[PBEGIN], [PQCURVE, 0, 0], [PLINE, 24, 0], [POFF, 24, 24], [POFF, 0, 12], [PEND]]
BASE_C_SEG = [[MOVE, 0, 0], [LINE, 24, 0], [CURVE, 24, 12, 12, 24, 0, 12], [CLOSE]]
BASE_C_PTS = [[PBEGIN], [PLINE, 0, 0], [PLINE, 24, 0], [POFF, 24, 12], [POFF, 12, 24], [PCURVE, 0, 12], [PEND]]


def rescale(calls, K0, K1):
    """re-express calls given in 1/K0 units in 1/K1 units (exact or MachineryError)"""
    out = []
    for c in calls:
        if c[0] in (COMP, PCOMP):
            vals = c[:6] + [c[6] * K1 // K0, c[7] * K1 // K0]
        else:
            vals = [c[0]] + [v * K1 // K0 for v in c[1:]]
        out.append(vals)
    return out


# --------------------------------------------------------------------------------------
# one outline through all adapters -> one trace
# --------------------------------------------------------------------------------------
MATS = [(1, 0, 0, 1, 3, -2), (-1, 0, 0, 1, 0, 1), (0, 1, -1, 0, 0, 0), (2, 0, 1, 3, -1, 0.5), (1, 1, 0, -1, 0, 0),
        (0, 2, 1, 0, 5, 5), (1, 0, 0, -1, 0, 2), (-2, 1, 1, 1, 0, 0)]
_PRIV = SimpleNamespace(nominalWidthX=0, defaultWidthX=0)


class Trace:
    def __init__(self, K, calls, tag):
        self.K = K
        self.seqs = []
        self.index = {}
        self.runs = []
        self.tag = tag
        self.exc = {}
        self.inp = self.seq(calls)

    def seq(self, calls):
        key = json.dumps(calls, separators=(",", ":"))
        i = self.index.get(key)
        if i is None:
            self.seqs.append(calls)
            i = self.index[key] = len(self.seqs)
        return i

    def run(self, *r):
        self.runs.append([int(x) for x in r])

    def json(self):
        return {"k": self.K, "s": self.seqs, "r": self.runs, "tag": self.tag, "exc": self.exc}


def features(calls):
    f = SimpleNamespace(curve=False, curve2only=True, quad=False, blob=False, comp=False, contours=0,
                        allclosed=True, pt=is_pt(calls), drawn=False, npts=0)
    pending_off = 0
    for c in calls:
        o = c[0]
        if o == CURVE:
            f.curve = True
            n = (len(c) - 1) // 2 - 1
            if n not in (0, 2):
                f.curve2only = False
        elif o == QCURVE:
            f.quad = True
        elif o == QBLOB:
            f.blob = f.quad = True
        elif o in (COMP, PCOMP):
            f.comp = True
        elif o == END or o == PMOVE:
            f.allclosed = False
        elif o == PCURVE:
            f.curve = True
            if pending_off not in (0, 2):
                f.curve2only = False
        elif o == PQCURVE:
            f.quad = True
        if o == POFF:
            pending_off += 1
        elif o in PTYPE:
            pending_off = 0
        if o in (MOVE, PBEGIN, QBLOB):
            f.contours += 1
        if o in (LINE, CURVE, QCURVE, QBLOB) or o in PTYPE:
            f.npts += (len(c) - 1) // 2
    f.drawn = f.npts >= 2 if f.pt else f.npts >= 1
    return f


def integral(calls, K):
    for c in calls:
        vals = c[6:] if c[0] in (COMP, PCOMP) else c[1:]
        if any(v % K for v in vals):
            return False
    return True


def all_off_contour(calls):
    """point stream containing a contour with no on-curve point (pt protocol)"""
    cur = None
    for c in calls:
        if c[0] == PBEGIN:
            cur = []
        elif c[0] == PEND:
            if cur and all(t == POFF for t in cur):
                return True
            cur = None
        elif cur is not None and c[0] in PTYPE:
            cur.append(c[0])
    return False


def _contours(calls):
    """lists of (op, points) per contour, either protocol"""
    cur, out = None, []
    for c in calls:
        o = c[0]
        if o in (COMP, PCOMP):
            continue
        if o in (MOVE, PBEGIN, QBLOB):
            cur = []
            out.append(cur)
        if o in (CLOSE, END, PEND, PBEGIN) or cur is None:
            continue
        cur.append((o, [(c[i], c[i + 1]) for i in range(1, len(c) - 1, 2)]))
    return out


def _has_single(calls):
    return any(sum(len(p) for _, p in ct) == 1 for ct in _contours(calls))


def _has_dup(calls):
    for ct in _contours(calls):
        pts = [q_ for _, p in ct for q_ in p]
        if any(a == b for a, b in zip(pts, pts[1:])):
            return True
    return False


def _starts_off(calls):
    return any(ct and ct[0][0] == POFF and any(o != POFF for o, _ in ct) for ct in _contours(calls))


def residues(n):
    return [n % p for p in PRIMES]


def measure_area(calls, K, glyphSet):
    from fontTools.pens.areaPen import AreaPen

    pen = AreaPen(glyphSet)
    play(calls, pen, K)
    v = pen.value * 60 * K * K
    n = round(v)
    # AreaPen works in floats (0.15, /3): on grid inputs 60 K^2 A is an integer; the float
    # error is < 1e-9 * |A| for the coordinate range used here, so rounding recovers it exactly
    if abs(v - n) > 1e-3 * max(1.0, abs(v) * 1e-9):
        return None
    return int(n)


def svg_relative(calls, K, variant):
    """The outline as an SVG path in RELATIVE commands (m l h v c q z), which SVGPathPen never writes:
    input for svgLib.path.parse_path.  variant 0: one command letter per segment; variant 1: implicit
    repetition (a run of segments of the same kind shares one letter, line segments after "m" have none)
    and h / v for axis-parallel lines.  Only re-expresses the calls (differences of consecutive pen positions);
    returns None for outlines that have no such expression (components, contours without on-curve point,
    qCurveTo with implied points, super-beziers, deltas that are not multiples of 1/2)."""
    out = []
    cur = (0, 0)          # SVG current point, 1/K units
    start = None
    last = None           # last command letter written (for implicit repetition)

    def num(d):
        if (2 * d) % K:
            raise ValueError
        return ("%d" % (d // K)) if d % K == 0 else ("%.1f" % (d / K))

    def emit(letter, vals, repeatable=True):
        nonlocal last
        txt = " ".join(num(v) for v in vals)
        if variant == 1 and repeatable and (last == letter or (last == "m" and letter == "l")):
            out.append(" " + txt)    # "m x y x y ..": the pairs after the first are implicit linetos
        else:
            out.append(letter + txt)
        last = letter

    try:
        for c in calls:
            o = c[0]
            pts = [(c[i], c[i + 1]) for i in range(1, len(c) - 1, 2)] if o not in (COMP, PCOMP) else []
            if o == MOVE:
                last = None
                emit("m", (pts[0][0] - cur[0], pts[0][1] - cur[1]), repeatable=False)
                cur = start = pts[0]
            elif o == LINE or (o in (CURVE, QCURVE) and len(pts) == 1):
                dx, dy = pts[0][0] - cur[0], pts[0][1] - cur[1]
                if variant == 1 and dy == 0 and dx != 0:
                    emit("h", (dx,))
                elif variant == 1 and dx == 0 and dy != 0:
                    emit("v", (dy,))
                else:
                    emit("l", (dx, dy))
                cur = pts[0]
            elif (o == QCURVE and len(pts) == 2) or (o == CURVE and len(pts) == 2):
                emit("q", [w for p_ in pts for w in (p_[0] - cur[0], p_[1] - cur[1])])
                cur = pts[-1]
            elif o == CURVE and len(pts) == 3:
                emit("c", [w for p_ in pts for w in (p_[0] - cur[0], p_[1] - cur[1])])
                cur = pts[-1]
            elif o == CLOSE:
                out.append("z")
                last = None
                cur = start    # SVG: after closepath the current point is the start of the subpath
            elif o == END:
                last = None
            else:
                return None
    except ValueError:
        return None
    return "".join(out)


def build_trace(item):
    """item = (K, calls, tag, variant_seed, level).  Returns the trace as a JSON-able dict."""
    from fontTools.pens.recordingPen import (RecordingPen, RecordingPointPen, DecomposingRecordingPen,
                                             DecomposingRecordingPointPen)
    from fontTools.pens.filterPen import FilterPen, ContourFilterPen, FilterPointPen
    from fontTools.pens.pointPen import PointToSegmentPen, SegmentToPointPen, ReverseContourPointPen
    from fontTools.pens.transformPen import TransformPen, TransformPointPen
    from fontTools.pens.roundingPen import RoundingPen, RoundingPointPen
    from fontTools.pens.reverseContourPen import ReverseContourPen, reversedContour
    from fontTools.pens.ttGlyphPen import TTGlyphPen, TTGlyphPointPen
    from fontTools.pens.t2CharStringPen import T2CharStringPen
    from fontTools.pens.svgPathPen import SVGPathPen
    from fontTools.pens.boundsPen import BoundsPen, ControlBoundsPen
    from fontTools.svgLib.path import parse_path
    from fontTools.misc.psCharStrings import T2CharString

    K, calls, tag, vseed, level = item
    tr = Trace(K, calls, tag)
    full = level >= 2          # thorough: every variant of every adapter; quick: variants alternate with the outline index
    v, w = vseed % 2, (vseed // 2) % 2

    def pick(options, sel):
        return list(options) if full else [options[sel % len(options)]]

    f = features(calls)
    I = tr.inp
    ints = integral(calls, K)

    def seg_out(drive):
        rec = RecordingPen()
        drive(rec)
        return tr.seq(enc_seg(rec.value, K))

    def pt_out(drive):
        rec = RecordingPointPen()
        drive(rec)
        return tr.seq(enc_pts(rec.value, K))

    def guarded(name, fn):
        """an adapter raising on a valid input is itself a finding: recorded as a call sequence that
        violates the protocol (single call with op 0), the judge reports <adapter>:output-protocol"""
        try:
            return fn()
        except MachineryError:
            raise
        except Exception as e:  # noqa
            tr.exc[str(len(tr.runs) + 1)] = "%s in %s: %s" % (type(e).__name__, name, str(e)[:160])
            return tr.seq([[0]])

    mats = [MATS[(vseed + j) % len(MATS)] for j in range(3 if full else 1)]
    # half-grid variant of the input (for the rounding contracts): real' = 1.5 real - 2.5 or similar,
    # an integer map on the 1/K grid that produces .5 ties and negative values
    if K % 2 == 0 and all(v % 2 == 0 for c in calls for v in (c[6:] if c[0] in (COMP, PCOMP) else c[1:])):
        shift = (5 * K) // 2 if K >= 4 else 1
        half = [c[:6] + [3 * c[6] // 2 - shift, 3 * c[7] // 2 - shift] if c[0] in (COMP, PCOMP)
                else [c[0]] + [3 * v // 2 - shift for v in c[1:]] for c in calls]
    else:
        half = None

    # glyph sets for decomposition of component g1
    if f.comp:
        bq = BaseGlyph(rescale(BASE_Q_SEG, 12, K), rescale(BASE_Q_PTS, 12, K), K)
        bc = BaseGlyph(rescale(BASE_C_SEG, 12, K), rescale(BASE_C_PTS, 12, K), K)
        GQ = tr.seq(bq.pts if f.pt else bq.seg)
        GC = tr.seq(bc.pts if f.pt else bc.seg)
        gsQ, gsC = {"g1": bq}, {"g1": bc}
    else:
        GQ = GC = 0
        gsQ, gsC = {}, {}

    if not f.pt:
        # ---------------- segment-pen input ----------------
        def rec_replay(out):
            r = RecordingPen()
            play(calls, r, K)
            r.replay(out)

        tr.run(RAW, I, guarded("recreplay", lambda: seg_out(rec_replay)))
        for cls in pick((FilterPen, ContourFilterPen), v):
            tr.run(RAW, I, guarded(cls.__name__, lambda: seg_out(lambda out: play(calls, cls(out), K))))
        for gs_ in pick((True, False), w):
            tr.run(S2P, I, guarded("s2p", lambda: pt_out(lambda out: play(calls, SegmentToPointPen(out, guessSmooth=gs_), K))))
        for flag in pick((False, True), v + w):
            tr.run(P2S, I, guarded("s2p2s", lambda: seg_out(
                lambda out: play(calls, SegmentToPointPen(PointToSegmentPen(out, outputImpliedClosingLine=flag)), K))))
        for m in mats:
            o = guarded("transform", lambda: seg_out(lambda out: play(calls, TransformPen(out, m), K)))
            tr.run(AFF, I, o, *enc_matrix(m, K))
        if half is not None:
            H = tr.seq(half)
            tr.run(RND, H, guarded("round", lambda: seg_out(lambda out: play(half, RoundingPen(out), K))))
        rev_o = None
        for flag in pick((False, True), v):
            o = guarded("reverse", lambda: seg_out(lambda out: play(calls, ReverseContourPen(out, outputImpliedClosingLine=flag), K)))
            tr.run(REV, I, o)
            if rev_o is None:
                rev_o = o
        tr.run(REVREV, I, guarded("reverse2", lambda: seg_out(lambda out: play(calls, ReverseContourPen(ReverseContourPen(out)), K))))

        def rev_fn(out):
            # the generator function, contour by contour
            r = RecordingPen()
            play(calls, r, K)
            cur = []
            for op, args in r.value:
                if op == "addComponent":
                    out.addComponent(*args)
                    continue
                cur.append((op, args))
                if op in ("closePath", "endPath"):
                    for op2, args2 in reversedContour(cur):
                        getattr(out, op2)(*args2)
                    cur = []

        if full or w == 0:
            tr.run(REV, I, guarded("reversedContour", lambda: seg_out(rev_fn)))
        if f.comp:
            for rf in pick((False, True), v):
                o = guarded("decompose", lambda: seg_out(lambda out: _decomp_seg(DecomposingRecordingPen, gsQ, rf, calls, K, out)))
                tr.run(DECOMP, I, o, GQ, int(rf))
        # TrueType glyph
        if ints and not f.curve:
            for oicl in pick((False, True), v):
                for drop in (False, True):
                    def build():
                        pen = TTGlyphPen(gsQ if f.comp else None, outputImpliedClosingLine=oicl)
                        play(calls, pen, K)
                        return pen.glyph(dropImpliedOnCurves=drop)
                    try:
                        glyph = build()
                    except Exception as e:  # noqa
                        tr.exc[str(len(tr.runs) + 1)] = "%s in TTGlyphPen: %s" % (type(e).__name__, str(e)[:160])
                        tr.run(TT, I, tr.seq([[0]]), int(drop), 0)
                        continue
                    gsi = GQ
                    flag = 2 if gsi else int(drop)
                    tr.run(TT, I, guarded("ttdraw", lambda: seg_out(lambda out: glyph.draw(out, None))), flag, gsi)
                    tr.run(TT, I, guarded("ttdrawpoints", lambda: pt_out(lambda out: glyph.drawPoints(out, None))), flag, gsi)
        # Type 2 charstring
        if not f.quad and f.curve2only:
            for src, sidx in ((calls, I), (half, None)):
                if src is None:
                    continue
                if sidx is None:
                    sidx = tr.seq(src)
                for opt in pick((False, True), v + (0 if src is calls else 1)):
                    def t2(out):
                        pen = T2CharStringPen(None, gsC)
                        play(src, pen, K)
                        cs = pen.getCharString(private=_PRIV, optimize=opt)
                        cs.compile()
                        cs2 = T2CharString(bytecode=cs.bytecode, private=_PRIV)
                        cs2.draw(out)
                    tr.run(T2, sidx, guarded("t2", lambda: seg_out(t2)), int(opt), GC if f.comp else 0)
        # SVG path
        def svg(out):
            pen = SVGPathPen(gsQ)
            play(calls, pen, K)
            parse_path(pen.getCommands(), out)
        tr.run(SVG, I, guarded("svg", lambda: seg_out(svg)), 0, GQ if f.comp else 0)
        # ... and the parser on relative commands, which SVGPathPen never writes (flag = 1 + variant)
        rel = svg_relative(calls, K, v)
        if rel is not None:
            tr.run(SVG, I, guarded("svgrel", lambda: seg_out(lambda out: parse_path(rel, out))), 1 + v, 0)
        # measurements
        def meas():
            cb = ControlBoundsPen(gsQ)
            play(calls, cb, K)
            bb = BoundsPen(gsQ)
            play(calls, bb, K)
            row = [MEAS, I, GQ if f.comp else 0]
            if cb.bounds is None or bb.bounds is None:
                if cb.bounds is not None or bb.bounds is not None:
                    row += [1, OFFGRID] * 1 + [0] * 7
                else:
                    row += [0] * 9
            else:
                row += [1] + [q(v, K) for v in cb.bounds] + [int(round(v * K * BSCALE)) for v in bb.bounds]
            row.append(BSCALE)
            area = measure_area(calls, K, gsQ) if f.allclosed else None
            if area is None:
                row += [0, 0, 0, 0, 0]
            else:
                row += [1] + residues(area)
            tr.run(*row)
            if area is not None and not f.comp:
                rcalls = tr.seqs[rev_o - 1]
                if rcalls != [[0]]:
                    a2 = measure_area(rcalls, K, gsQ)
                    if a2 is not None:
                        tr.run(AREANEG, I, rev_o, *(residues(area) + residues(a2)))
        try:
            meas()
        except MachineryError:
            raise
        except Exception as e:  # noqa
            tr.exc[str(len(tr.runs) + 1)] = "%s in measuring pens: %s" % (type(e).__name__, str(e)[:160])
            tr.run(MEAS, I, 0, 1, OFFGRID, 0, 0, 0, 0, 0, 0, 0, BSCALE, 0, 0, 0, 0, 0)
    else:
        # ---------------- point-pen input ----------------
        def rec_replay(out):
            r = RecordingPointPen()
            play(calls, r, K)
            r.replay(out)

        tr.run(RAW, I, guarded("recreplay", lambda: pt_out(rec_replay)))
        tr.run(RAW, I, guarded("filter", lambda: pt_out(lambda out: play(calls, FilterPointPen(out), K))))
        for flag in pick((False, True), v):
            tr.run(P2S, I, guarded("p2s", lambda: seg_out(lambda out: play(calls, PointToSegmentPen(out, outputImpliedClosingLine=flag), K))))
        tr.run(P2S, I, guarded("p2s2p", lambda: pt_out(lambda out: play(calls, PointToSegmentPen(SegmentToPointPen(out, guessSmooth=False)), K))))
        for m in mats:
            o = guarded("transform", lambda: pt_out(lambda out: play(calls, TransformPointPen(out, m), K)))
            tr.run(AFF, I, o, *enc_matrix(m, K))
        if half is not None:
            H = tr.seq(half)
            tr.run(RND, H, guarded("round", lambda: pt_out(lambda out: play(half, RoundingPointPen(out), K))))
        tr.run(REV, I, guarded("reverse", lambda: pt_out(lambda out: play(calls, ReverseContourPointPen(out), K))))
        tr.run(REVREV, I, guarded("reverse2", lambda: pt_out(lambda out: play(calls, ReverseContourPointPen(ReverseContourPointPen(out)), K))))
        if f.comp:
            for rf in pick((False, True), v):
                o = guarded("decompose", lambda: pt_out(lambda out: _decomp_pts(DecomposingRecordingPointPen, gsQ, rf, calls, K, out)))
                tr.run(DECOMP, I, o, GQ, int(rf))
        if ints and not f.curve:
            for drop in (False, True):
                def build():
                    pen = TTGlyphPointPen(gsQ if f.comp else None)
                    play(calls, pen, K)
                    return pen.glyph(dropImpliedOnCurves=drop)
                try:
                    glyph = build()
                except Exception as e:  # noqa
                    tr.exc[str(len(tr.runs) + 1)] = "%s in TTGlyphPointPen: %s" % (type(e).__name__, str(e)[:160])
                    tr.run(TT, I, tr.seq([[0]]), int(drop), 0)
                    continue
                gsi = GQ
                flag = 2 if gsi else int(drop)
                tr.run(TT, I, guarded("ttdraw", lambda: seg_out(lambda out: glyph.draw(out, None))), flag, gsi)
                tr.run(TT, I, guarded("ttdrawpoints", lambda: pt_out(lambda out: glyph.drawPoints(out, None))), flag, gsi)
    return tr.json()


def _decomp_seg(cls, gs, rf, calls, K, out):
    pen = cls(gs, reverseFlipped=rf)
    play(calls, pen, K)
    pen.replay(out)


def _decomp_pts(cls, gs, rf, calls, K, out):
    pen = cls(gs, reverseFlipped=rf)
    play(calls, pen, K)
    pen.replay(out)


# --------------------------------------------------------------------------------------
# inputs
# --------------------------------------------------------------------------------------
_GEN = re.compile(r'"(\[\[[0-9,\-\[\]]*\]\])"')


def gen_outlines(stdout):
    seen = set()
    out = []
    for m in _GEN.finditer(stdout):
        s = m.group(1)
        if s not in seen:
            seen.add(s)
            out.append(json.loads(s))
    return out


def corpus_inputs(chk):
    """pen streams of real glyphs: (K=2, calls, tag)"""
    thorough = chk.tier == "thorough"
    per_font = 40 if thorough else 1
    fonts = [p for p in common.corpus_fonts((".ttf", ".otf")) if os.path.getsize(p) < 3_000_000]
    if not thorough:   # quick: a seeded third of the fonts, one glyph each
        fonts = sorted(chk.rng.sample(fonts, len(fonts) // 3))
    jobs = [(p, per_font, chk.seed, 220 if thorough else 60) for p in fonts]
    res = common.pmap(_font_streams, jobs)
    out = []
    for p, (streams, skipped) in zip(fonts, res):
        for reason, n in skipped.items():
            chk.skip(reason, n)
        out += streams
    return out


def _font_streams(job):
    import random
    from fontTools.ttLib import TTFont
    from fontTools.pens.recordingPen import RecordingPen, RecordingPointPen, DecomposingRecordingPen

    path, per_font, seed, maxcalls = job
    skipped = {}
    streams = []
    K = 2

    def skip(r):
        skipped[r] = skipped.get(r, 0) + 1

    try:
        font = TTFont(path, lazy=True)
        if "glyf" not in font and "CFF " not in font and "CFF2" not in font:
            return [], {"font without outlines": 1}
        gs = font.getGlyphSet()
        names = sorted(gs.keys())
    except Exception:
        return [], {"font not loadable as a glyph set": 1}
    rng = random.Random("%s-%d" % (os.path.basename(path), seed))
    if len(names) > per_font:
        names = rng.sample(names, per_font)
    for n in names:
        try:
            rec = DecomposingRecordingPen(gs)
            gs[n].draw(rec)
        except Exception:
            skip("glyph not drawable")
            continue
        calls = enc_seg(rec.value, K)
        if not calls:
            continue
        if any(OFFGRID in c for c in calls) or any(abs(v) > 16000 for c in calls for v in c[1:]):
            skip("glyph coordinates not on the 1/2 grid or > 8000 units")
            continue
        if len(calls) > maxcalls:
            skip("glyph with more than %d pen calls" % maxcalls)
            continue
        tag = {"font": common.rel(path), "glyph": n}
        streams.append((K, calls, tag))
        if "glyf" in font and hasattr(gs[n], "drawPoints"):
            try:
                from fontTools.pens.recordingPen import DecomposingRecordingPointPen
                recp = DecomposingRecordingPointPen(gs)
                gs[n].drawPoints(recp)
                pc = enc_pts(recp.value, K)
                if pc and not any(OFFGRID in c for c in pc):
                    streams.append((K, pc, dict(tag, proto="pt")))
            except Exception:
                skip("glyph points not drawable")
    return streams, skipped


# --------------------------------------------------------------------------------------
def explain(t, clause):
    ad, cl, ri = clause[0], clause[1], clause[2]
    run = t["r"][ri - 1]
    d = {"adapter": ad, "clause": cl, "run": run, "K": t["k"], "input": t["s"][run[1] - 1], "tag": t.get("tag")}
    if ad not in ("measure",) and len(run) > 2 and 1 <= run[2] <= len(t["s"]):
        d["output"] = t["s"][run[2] - 1]
    exc = (t.get("exc") or {}).get(str(ri))
    if exc:
        d["exception"] = exc
    return d


def judge_all(chk, traces, label):
    """TLC judges the traces (one initial state per trace, verdict computed in Next); every failing run of
    every trace is printed by TLC as <<"REJ", tid, <<adapter, clause, run>>>>."""
    rejected = []
    CH = 20000
    for base in range(0, len(traces), CH):
        part = traces[base:base + CH]
        # deep recursion over long contours needs a bigger thread stack than the JVM default
        r = chk.tlc("Trace_C14", traces=part, timeout=1500, label=label, workers=WORKERS, env={"JAVA_TOOL_OPTIONS": "-Xss64m"})
        if r.distinct < 2 * len(part):
            raise MachineryError("Trace_C14: TLC judged %d states for %d traces" % (r.distinct, len(part)))
        bad = set()
        for payload in r.rej:
            tid, clause = payload[0], payload[1]
            if not isinstance(clause, list) or len(clause) < 3:
                raise MachineryError("unparsable verdict %r" % (payload,))
            bad.add(tid)
            rejected.append((part[tid - 1], clause))
        chk.traces_validated += len(part) - len(bad)
    for t, clause in rejected:
        ad, cl, ri = clause[0], clause[1], clause[2]
        d = explain(t, clause)
        if cl.startswith("malformed"):
            raise MachineryError("trace outside the modelled domain: %s %s on %s" % (ad, cl, json.dumps(d)[:600]))
        key = "%s:%s" % (ad, cl)
        if cl == "output-protocol" and d.get("exception"):
            # the adapter raised on a valid outline (TLC rejected the recorded output as not being a
            # pen call sequence): the key names the exception and, since the one such finding on the
            # unchanged tree is the qCurveTo(..., None) special case, whether the (segment-pen) outline
            # has such a call.  Geometry clauses are never relabelled here: their
            # root causes are named by the judge (Trace_C14.CutDupOff).
            key = "%s:raises-%s" % (ad, d["exception"].split(" ")[0])
            if any(c[0] == QBLOB for c in d["input"]):
                key += "-on-contour-without-oncurve"
        chk.reject(key, "adapter %s violates clause %s on %s" % (ad, cl, json.dumps(d)[:700]),
                   {"K": t["k"], "calls": t["s"][0], "tag": t.get("tag"), "adapter": ad, "clause": cl, "run": d["run"]})
    return rejected


NAMES = {RAW: "passthru", S2P: "seg2pt", P2S: "pt2seg", AFF: "transform", RND: "round", REV: "reverse",
         REVREV: "reverse2", TT: "ttglyph", T2: "t2charstring", SVG: "svgpath", MEAS: "measure",
         DECOMP: "decompose", AREANEG: "areaneg"}


def lattice_items(chk):
    """(M) + generation: TLC enumerates the protocol machines (and checks the laws of the specification on every
    complete outline), a TLC simulation of the same machine adds deeper behaviours; returns the seeded sample of
    outlines that (R) replays, as build_trace items, and the counts."""
    thorough = chk.tier == "thorough"
    cfg = "MC_PenProto_thorough" if thorough else "MC_PenProto"
    r = chk.tlc("MC_PenProto", cfg=cfg, label="MC_PenProto exhaustive", timeout=3600 if thorough else 1800, workers=WORKERS,
                env={"JAVA_TOOL_OPTIONS": "-Xss32m"})
    # TLC's workers print in scheduling order: sort, so that the seeded sample below is the same on every run
    outlines = sorted(gen_outlines(r.stdout), key=lambda o: json.dumps(o, separators=(",", ":")))
    n_exh = len(outlines)
    chk.log("%s: %d states, %d complete outlines, laws hold, %.0fs" % (cfg, r.distinct, n_exh, r.wall))
    if n_exh < 1000:
        raise MachineryError("generator produced only %d outlines" % n_exh)
    # deeper behaviours of the same machine by simulation (bigger lattice, more points, longer sequences)
    sim = chk.tlc("MC_PenProto", cfg="MC_PenProto_sim", label="MC_PenProto simulate",
                  simulate="num=%d" % (8000 if thorough else 1200), depth=30, workers=1,
                  timeout=2400 if thorough else 900, env={"JAVA_TOOL_OPTIONS": "-Xss32m"})
    known = set(json.dumps(o, separators=(",", ":")) for o in outlines)
    deep = [o for o in gen_outlines(sim.stdout) if json.dumps(o, separators=(",", ":")) not in known]
    chk.log("simulation: %d further outlines, %.0fs" % (len(deep), sim.wall))
    # (R) replays a seeded sample of the enumerated set and of the simulated one
    n_take, n_deep = (12000, 8000) if thorough else (2800, 1600)
    chosen = sorted(chk.rng.sample(range(n_exh), min(n_exh, n_take)))
    deep = sorted(chk.rng.sample(deep, min(len(deep), n_deep)), key=lambda o: json.dumps(o))
    level = 2 if thorough else 0
    items = [(12, outlines[i], {"src": "exhaustive", "n": i}, i + chk.seed, level) for i in chosen]
    items += [(12, o, {"src": "simulation", "n": i}, i + chk.seed, level) for i, o in enumerate(deep)]
    return items, cfg, n_exh, len(chosen), len(deep)


def run(chk):
    thorough = chk.tier == "thorough"
    chk.rule = ("one case = one outline (valid pen call sequence) pushed through every applicable adapter; "
                "distinct by the call sequence; non-trivial = the outline has a contour with at least one segment "
                "(two points), i.e. it draws something")
    # ---- (M) + generation -----------------------------------------------------------
    items, cfg, n_exh, n_chosen, n_deep = lattice_items(chk)
    # ---- (R) ------------------------------------------------------------------------
    traces = common.pmap(build_trace, items, chunksize=100)
    nruns = sum(len(t["r"]) for t in traces)
    chk.count(nruns)
    for t in traces:
        if features(t["s"][0]).drawn:
            chk.nontriv(json.dumps(t["s"][0], separators=(",", ":")))
    for t in traces[:: max(1, len(traces) // 4)][:4]:
        chk.sample({"calls": t["s"][0], "runs": len(t["r"])})
    chk.log("(R) %d outlines, %d adapter runs recorded" % (len(traces), nruns))
    judge_all(chk, traces, "Trace_C14 lattice")
    chk.log("(R) judged")
    # ---- (V) corpus -------------------------------------------------------------------
    streams = corpus_inputs(chk)
    citems = [(K, calls, tag, i + chk.seed, 2 if thorough else 1) for i, (K, calls, tag) in enumerate(streams)]
    ctraces = common.pmap(build_trace, citems, chunksize=10)
    cruns = sum(len(t["r"]) for t in ctraces)
    chk.count(cruns)
    for t in ctraces:
        chk.nontriv(json.dumps(t["s"][0], separators=(",", ":")))
    for t in ctraces[:2]:
        chk.sample({"glyph": t["tag"], "calls": len(t["s"][0]), "runs": len(t["r"])})
    chk.log("(V) %d corpus glyph streams, %d adapter runs recorded" % (len(ctraces), cruns))
    judge_all(chk, ctraces, "Trace_C14 corpus")
    per = {}
    for t in traces + ctraces:
        for rr in t["r"]:
            per[rr[0]] = per.get(rr[0], 0) + 1
    chk.notes["runs_per_adapter"] = {NAMES[k]: v for k, v in sorted(per.items())}
    # non-vacuity of the input population: how many replayed outlines exercise each case of the quantifier
    cls = {}
    for t in traces + ctraces:
        calls = t["s"][0]
        f = features(calls)
        for name, hit in (("point-protocol", f.pt), ("open contour", not f.allclosed), ("cubic", f.curve),
                          ("super-bezier or odd cubic", f.curve and not f.curve2only), ("quadratic", f.quad),
                          ("contour without on-curve point", f.blob or all_off_contour(calls)),
                          ("component", f.comp), ("several contours", f.contours > 1),
                          ("single-point contour", _has_single(calls)), ("coincident consecutive points", _has_dup(calls)),
                          ("closed contour starting off-curve", f.pt and _starts_off(calls))):
            if hit:
                cls[name] = cls.get(name, 0) + 1
    chk.notes["input_classes"] = cls
    chk.notes["outlines"] = {"enumerated": n_exh, "replayed_from_enumeration": n_chosen, "simulation": n_deep,
                             "corpus": len(ctraces)}
    chk.exhaustive = False
    chk.notes["exhaustive_part"] = ("%s.cfg: every valid call sequence within the bounds enumerated and checked against "
                                    "the laws; (R) replays a seeded sample of %d of them" % (cfg, n_chosen))
    chk.assumptions += [
        "coordinates on the 1/12 grid (lattice) or 1/2 grid (fonts); recorded floats are mapped to the grid with 1e-6 tolerance, off-grid values are sent as a sentinel and rejected by the geometry clauses",
        "smooth flags, point names, identifiers are not geometry and are ignored",
        "TrueType builders get quadratic/line outlines with integer coordinates; Type 2 gets line/cubic outlines (two control points), also on the half grid to exercise rounding",
        "the Type 2 specializer's licence (degenerate curve -> line, zero lines dropped, consecutive same-axis lines summed) is part of the optimize=True contract (C12 owns the specializer)",
        "BoundsPen is compared at 1/64 of a grid unit with 1 unit slack (float rounding of the extremum); cubic extrema are only bracketed (control box, on-curve points, t=1/2), quadratic extrema are exact",
        "AreaPen*60K^2 is an integer on grid inputs; it is compared exactly through residues modulo four 15-bit primes",
        "a contour of a single point has no observable closedness (named in PenProto.NormSingle)",
        "a closed contour without on-curve point has no start point of its own: which implied point drawing begins at is representation (PenProto.FreeStart); everything else about it is judged like any contour",
        "svgLib.path.parse_path is driven with SVGPathPen's output (absolute commands) and with the same outline re-expressed by the harness in relative commands (m l h v c q z, with and without implicit repetition) for outlines that have such an expression (no components, no implied points, no super-beziers)",
    ]


def replay(chk, rep):
    r = rep["replay"]
    item = (r["K"], r["calls"], r.get("tag") or {}, 0, 2)
    t = build_trace(item)
    chk.log("replaying outline %s" % json.dumps(r["calls"])[:300])
    chk.count(len(t["r"]))
    rej = judge_all(chk, [t], "Trace_C14 replay")
    if not rej:
        chk.log("no clause fails on the current tree")
