"""C15 — every low-level encoder and its decoder are mutually inverse.

(M) MC_Codec: the specification's own encoders/decoders are inverse on whole small
    domains (guards the oracle).
(R)/(V) every value of the domains below is pushed through the REAL encoder; the bytes /
    text, the value and the REAL decoder's result go to TLC (Trace_C15), which decodes
    with Codec.tla and compares."""
import decimal
import struct

from .common import MachineryError

LEVEL = "model_checking"


def codes(s):
    if isinstance(s, bytes):
        return list(s)
    return [ord(c) for c in s]


def limbs(v):
    return (v >> 16) & 0xFFFF, v & 0xFFFF


def norm_dec(d):
    """Decimal -> (m, e) with trailing zeros stripped, m*10^e == d."""
    if d == 0:
        return 0, 0
    sign, digits, exp = d.as_tuple()
    m = int("".join(map(str, digits)))
    while m % 10 == 0:
        m //= 10
        exp += 1
    return (-m if sign else m), exp


def round8(f):
    with decimal.localcontext() as ctx:
        ctx.prec = 8
        ctx.rounding = decimal.ROUND_HALF_EVEN
        return +decimal.Decimal(f)



class _section:
    """One codec's generator: an exception raised INSIDE fontTools while encoding a value of the codec's domain or
    decoding what the encoder emitted is the codec refusing it - recorded as one `raised` case (TLC rejects it);
    an exception raised by harness code propagates (machinery failure)."""

    def __init__(self, out, name):
        self.out, self.name = out, name

    def __enter__(self):
        return self

    def __exit__(self, et, ev, tb):
        if et is None or not issubclass(et, Exception) or isinstance(ev, MachineryError):
            return False
        import traceback

        frames = traceback.extract_tb(tb)
        if not frames or "/fontTools/" not in frames[-1].filename:
            return False
        self.out.append({"k": "raised", "codec": self.name, "err": "%s: %s" % (et.__name__, str(ev)[:120]),
                         "where": "%s:%d" % (frames[-1].filename.split("/fontTools/")[-1], frames[-1].lineno)})
        return True


def gen_cases(chk):
    from fontTools.misc import psCharStrings as ps
    from fontTools.misc import fixedTools, roundTools, eexec, sstruct, timeTools
    from fontTools.misc import iftSparseBitSet as sbs
    from fontTools.ttLib import woff2
    from fontTools.ttLib.tables import otTables
    from fontTools.ttLib.tables.TupleVariation import TupleVariation
    from fontTools.ttLib import ttFont
    from fontTools import agl

    rng = chk.rng
    thorough = chk.tier == "thorough"
    out = []

    with _section(out, 'CFF / T1 / T2 integer operands'):
        # ---- CFF / T1 / T2 integer operands ---------------------------------
        encs = {"cff": ps.encodeIntCFF, "t1": ps.encodeIntT1, "t2": ps.encodeIntT2}
        tables = {"cff": ps.cffDictOperandEncoding, "t1": ps.t1OperandEncoding, "t2": ps.t2OperandEncoding}
        span = 40000 if thorough else 1300
        for fmt in ("cff", "t1", "t2"):
            vals = set(range(-span, span + 1))
            vals |= {32767, 32768, -32768, -32769, 32766, -32767, 65535, 65536, -65536}
            vals |= {2**31 - 1, -(2**31), 2**31 - 2, -(2**31) + 1, 2**24, -(2**24), 2**16 + 1}
            vals |= {rng.randrange(-(2**31), 2**31) for _ in range(300)}
            if fmt == "t2":
                vals = {v for v in vals if -32768 <= v <= 32767}  # T2 ints are 16-bit
            for v in sorted(vals):
                b = encs[fmt](v)
                dec, idx = tables[fmt][b[0]](None, b[0], b, 1)
                out.append({"k": "int", "fmt": fmt, "v": v, "b": list(b), "dec": dec if idx == len(b) else None})

        # T2 ints through the charstring compiler/decompiler (public path)
        for v in list(range(-1200, 1201, 7)) + [-32768, 32767, 107, 108, -107, -108, 1131, 1132, -1131, -1132]:
            cs = ps.T2CharString(program=[v, "rmoveto"])
            cs.compile()
            bc = cs.bytecode[:-1]
            cs2 = ps.T2CharString(bytecode=cs.bytecode)
            cs2.decompile()
            out.append({"k": "int", "fmt": "t2", "v": v, "b": list(bc), "dec": cs2.program[0]})

    with _section(out, 'T2 16.16 fixed operands'):
        # ---- T2 16.16 fixed operands ---------------------------------------
        fxs = set(k * 65536 for k in range(-1200, 1201, 3)) | {1, -1, 0x7FFFFFFF, -0x7FFFFFFF, -0x80000000, 0x8000, -0x8000, 0xFFFF, 0x10001, -0x10001}
        fxs |= {32767 * 65536, -32768 * 65536, 32767 * 65536 + 1}
        fxs |= {rng.randrange(-(2**31), 2**31) for _ in range(3000 if thorough else 600)}
        fxs |= {(1 << i) for i in range(31)} | {-(1 << i) for i in range(32)}
        for fx in sorted(fxs):
            f = fx / 65536
            b = ps.encodeFixed(f)
            dec, idx = ps.t2OperandEncoding[b[0]](None, b[0], b, 1)
            out.append({"k": "fixed", "fx": fx, "b": list(b), "decfx": fixedTools.floatToFixed(dec, 16) if idx == len(b) else None})

    with _section(out, 'CFF DICT real operands'):
        # ---- CFF DICT real operands ------------------------------------------
        reals = []
        step = 1 if thorough else 7
        for m in range(-999, 1000, step):
            for e in range(-6, 7):
                reals.append(float(decimal.Decimal(m).scaleb(e)))
        reals += [1e-05, 123000.0, 0.1, -0.5, 0.5, 0.000012345678, 1e10, 1.5e20, -1e-9, 100.0, 1000.0, 12345678.0,
                  123456789.0, 0.001, -0.001, 1e-300, 1e300, 99999999.5, 0.05, -0.05, 1200000.0, 0.00001234, 3.14159265358979]
        for _ in range(4000 if thorough else 800):
            reals.append(rng.choice([1, -1]) * rng.random() * 10 ** rng.randint(-12, 12))
        for _ in range(500):
            reals.append(struct.unpack(">d", struct.pack(">Q", rng.getrandbits(64) & 0x7FEFFFFFFFFFFFFF | (rng.getrandbits(1) << 63)))[0])
        for f in reals:
            if f != f or f in (float("inf"), float("-inf")):
                continue
            b = ps.encodeFloat(f)
            m, e = norm_dec(round8(f))
            dec, idx = ps.cffDictOperandEncoding[b[0]](None, b[0], b, 1)
            dm, de = norm_dec(round8(dec))
            if abs(m) >= 10**8 or abs(e) > 400:
                raise MachineryError("real normalisation out of range")
            out.append({"k": "real", "m": m, "e": e, "b": list(b), "decm": dm if idx == len(b) else None, "dece": de})

    with _section(out, 'UIntBase128, 255UInt16, uint32var'):
        # ---- UIntBase128, 255UInt16, uint32var ---------------------------------
        vals = set(range(0, 400)) | {2**32 - 1, 2**32 - 2, 2**31, 2**31 - 1}
        for k in range(1, 5):
            vals |= {2 ** (7 * k) - 1, 2 ** (7 * k), 2 ** (7 * k) + 1}
        vals |= {rng.getrandbits(rng.randint(1, 32)) for _ in range(4000 if thorough else 800)}
        for v in sorted(vals):
            b = woff2.packBase128(v)
            dv, rest = woff2.unpackBase128(b + b"\x55")
            hi, lo = limbs(v)
            dhi, dlo = limbs(dv)
            out.append({"k": "b128", "hi": hi, "lo": lo, "b": list(b), "dhi": dhi if rest == b"\x55" else None, "dlo": dlo})
        rng255 = range(0, 65536) if thorough else list(range(0, 1100)) + list(range(1100, 65536, 13)) + [65535, 65534]
        for v in rng255:
            b = woff2.pack255UShort(v)
            dv, rest = woff2.unpack255UShort(b + b"\x55")
            out.append({"k": "u255", "v": v, "b": list(b), "dec": dv if rest == b"\x55" else None})
        vals = set(range(0, 300)) | {2**32 - 1, 2**32 - 2}
        for edge in (0x80, 0x4000, 0x200000, 0x10000000):
            vals |= {edge - 1, edge, edge + 1}
        vals |= {rng.getrandbits(rng.randint(1, 32)) for _ in range(4000 if thorough else 800)}
        for v in sorted(vals):
            b = otTables._write_uint32var(v)
            dv, idx = otTables._read_uint32var(b + b"\x55", 0)
            hi, lo = limbs(v)
            dhi, dlo = limbs(dv)
            out.append({"k": "u32var", "hi": hi, "lo": lo, "b": list(b), "dhi": dhi if idx == len(b) else None, "dlo": dlo})

    with _section(out, 'packed point numbers'):
        # ---- packed point numbers ---------------------------------------------
        psets = [[], [0], [65535], [0, 65535], list(range(127)), list(range(128)), list(range(129)), list(range(0, 256 * 130, 256)),
                 list(range(0, 255 * 130, 255)), [0, 255], [0, 256], [0, 255, 511], [0, 256, 511], [5, 260, 261, 600, 601, 857]]
        psets += [list(range(k)) for k in (1, 2, 3, 126, 130, 255, 256, 257, 300)]
        for _ in range(1500 if thorough else 300):
            n = rng.choice([1, 2, 3, 5, 10, 50, 127, 128, 129, 200, 300])
            kind = rng.random()
            if kind < 0.3:
                s = rng.sample(range(0, 400), min(n, 400))
            elif kind < 0.6:
                s = rng.sample(range(0, 65536), n)
            else:  # clustered, mixing byte and word gaps
                s, cur = [], 0
                for _i in range(n):
                    cur += rng.choice([1, 1, 2, 3, 254, 255, 256, 257, 300]) if cur < 60000 else 1
                    s.append(cur)
                s = [x for x in s if x < 65536]
            psets.append(sorted(set(s)))
        for s in psets:
            b = bytes(TupleVariation.compilePoints(set(s)))
            dec, pos = TupleVariation.decompilePoints_(70000, b + b"\x55", 0, "gvar")
            dec = [] if (not s) else list(dec)
            out.append({"k": "points", "pts": s, "b": list(b), "dec": dec if pos == len(b) else None})

    with _section(out, 'packed deltas'):
        # ---- packed deltas ----------------------------------------------------
        dsets = []
        for kind in ([0], [5, -5, 127, -128], [300, -300, 32767, -32768], [40000, -40000, 2**31 - 1, -(2**31)]):
            for n in (1, 2, 63, 64, 65, 128, 129):
                dsets.append([kind[i % len(kind)] for i in range(n)])
        for _ in range(2500 if thorough else 500):
            ds = []
            for _r in range(rng.randint(1, 6)):
                kind = rng.choice("zbwl")
                n = rng.choice([1, 1, 2, 3, 4, 10, 63, 64, 65])
                for _i in range(n):
                    ds.append({"z": 0, "b": rng.randint(-128, 127), "w": rng.randint(-32768, 32767),
                               "l": rng.randint(-(2**31), 2**31 - 1)}[kind])
            dsets.append(ds)
        for ds in dsets:
            for opt in (True, False):
                b = bytes(TupleVariation.compileDeltaValues_(ds, optimizeSize=opt))
                dec, pos = TupleVariation.decompileDeltas_(len(ds), b, 0)
                out.append({"k": "deltas", "ds": ds, "b": list(b), "dec": list(dec) if pos == len(b) else None, "opt": opt})

    with _section(out, 'eexec / charstring encryption'):
        # ---- eexec / charstring encryption ---------------------------------------
        alpha = [0, 1, 127, 128, 255]
        strs = [b""] + [bytes([a]) for a in alpha] + [bytes([a, b_]) for a in alpha for b_ in alpha]
        strs += [bytes([a, b_, c]) for a in alpha for b_ in alpha for c in alpha]
        strs += [bytes(rng.getrandbits(8) for _ in range(rng.randint(4, 40))) for _ in range(600 if thorough else 150)]
        for s in strs:
            for key in (4330, 55665, 0, 65535):
                c, r2 = eexec.encrypt(s, key)
                dp, dr = eexec.decrypt(c, key)
                out.append({"k": "eexec", "p": list(s), "r": key, "c": list(c), "r2": r2, "dp": list(dp), "dr": dr})
        for s in strs[:200]:
            h = eexec.hexString(s)
            out.append({"k": "hex", "b": list(s), "s": codes(h), "back": list(eexec.deHexString(h))})

    with _section(out, 'fixed point <-> shortest decimal text'):
        # ---- fixed point <-> shortest decimal text --------------------------------
        f14 = range(-32768, 32768) if thorough else sorted(set(range(-32768, 32768, 5)) | set(range(-600, 600)) | {32767, -32768, 16384, -16384, 8192})
        for fx in f14:
            s = fixedTools.fixedToStr(fx, 14)
            out.append({"k": "fixstr", "fx": fx, "p": 14, "s": codes(s), "back": fixedTools.strToFixed(s, 14)})
        f16 = {0, 1, -1, 65536, -65536, 0x7FFFFFFF, -0x7FFFFFFF, -0x80000000, 32768, -32768, 98304}
        f16 |= {(1 << i) for i in range(31)} | {-(1 << i) for i in range(32)} | {(1 << i) - 1 for i in range(1, 31)}
        for d in range(1, 100):  # values next to decimal ties
            f16 |= {round(d * 65536 / 100) + k for k in (-1, 0, 1)}
        f16 |= {rng.randrange(-(2**31), 2**31) for _ in range(20000 if thorough else 4000)}
        f16 |= {rng.randrange(-(2**18), 2**18) for _ in range(20000 if thorough else 4000)}
        for fx in sorted(f16):
            s = fixedTools.fixedToStr(fx, 16)
            out.append({"k": "fixstr", "fx": fx, "p": 16, "s": codes(s), "back": fixedTools.strToFixed(s, 16)})
        for p in (6, 2):  # F26Dot6-style and Fixed 30.2-style precisions
            for fx in list(range(-300, 300)) + [rng.randrange(-(2**20), 2**20) for _ in range(500)]:
                s = fixedTools.fixedToStr(fx, p)
                out.append({"k": "fixstr", "fx": fx, "p": p, "s": codes(s), "back": fixedTools.strToFixed(s, p)})

    with _section(out, 'otRound / floatToFixed'):
        # ---- otRound / floatToFixed ---------------------------------------------
        for d in (1, 2, 4, 8, 3, 5):
            for n in range(-60, 61):
                out.append({"k": "otround", "n": n, "d": d, "v": roundTools.otRound(n / d)})
        for p in (14, 16):
            for n in range(-40, 41):
                for d in (1, 2, 4, 8, 16):  # exactly representable inputs n/d
                    out.append({"k": "otround", "n": n * (1 << p), "d": d, "v": fixedTools.floatToFixed(n / d, p)})
            # half-ulp ties: (2k+1)/2^(p+1)
            for k2 in range(-50, 51):
                out.append({"k": "otround", "n": 2 * k2 + 1, "d": 2, "v": fixedTools.floatToFixed((2 * k2 + 1) / (1 << (p + 1)), p)})

    with _section(out, 'timestamps'):
        # ---- timestamps -------------------------------------------------------
        tvals = {2082844800, 2082844801, 2082844799 + 86400, 2**32 - 1, 3600000000, 3786912000}
        tvals |= {rng.randrange(2082844800, 2**32) for _ in range(3000 if thorough else 700)}
        # leap-day and year boundaries
        import calendar
        for y in (1972, 1999, 2000, 2001, 2024, 2036, 2038, 2039):
            for mo, dd in ((1, 1), (2, 28), (2, 29), (3, 1), (12, 31)):
                try:
                    tvals.add(calendar.timegm((y, mo, dd, 0, 0, 0)) - timeTools.epoch_diff)
                    tvals.add(calendar.timegm((y, mo, dd, 23, 59, 59)) - timeTools.epoch_diff)
                except ValueError:
                    pass
        # Domain: values from 1970-01-01 on.  Earlier LONGDATETIME values are treated by the
        # library as bogus by design (head.decompile re-bases them as Unix timestamps and
        # timestampToString clamps at the Unix epoch), so they are outside this codec's domain.
        for v in sorted(tvals):
            s = timeTools.timestampToString(v)
            try:
                back = timeTools.timestampFromString(s)
            except Exception:
                back = -1
            out.append({"k": "time", "days": v // 86400, "secs": v % 86400, "s": codes(s),
                        "bdays": back // 86400, "bsecs": back % 86400})

    with _section(out, 'table tags'):
        # ---- table tags ---------------------------------------------------------
        alpha = "aZ0 /_-~" if not thorough else "aZz09 /_-~(@"
        tags = set()
        for a in alpha:
            for b_ in alpha:
                for c in alpha:
                    for d in alpha:
                        tags.add(a + b_ + c + d)
        tags |= {"glyf", "cvt ", "OS/2", "CFF ", "SVG ", "GSUB", "head", "CFF2", "fpgm", "TSI0", "Zapf", "a   ", "A   ", "9   ", "    "}
        for _ in range(2000 if thorough else 500):
            tags.add("".join(chr(rng.randint(0x20, 0x7E)) for _ in range(4)))
        for t in sorted(tags):
            ident = ttFont.tagToIdentifier(t)
            try:
                back = str(ttFont.identifierToTag(ident))
            except Exception:
                back = ""
            out.append({"k": "tag", "tag": codes(t), "ident": codes(ident), "back": codes(back)})
            x = ttFont.tagToXML(t)
            try:
                backx = str(ttFont.xmlToTag(x))
            except Exception:
                backx = ""
            out.append({"k": "xmltag", "tag": codes(t), "xml": codes(x), "back": codes(backx)})

    with _section(out, 'IFT sparse bit set'):
        # ---- IFT sparse bit set -------------------------------------------------
        sets = [[], [0], [40], list(range(41)), list(range(0, 41, 2)), [0, 1, 2, 3], list(range(8)), list(range(32)), list(range(64)),
                [31, 32], [7, 8], [1023], list(range(1024)), [0, 1023], list(range(16, 32)), [65535], [2**20], list(range(256, 512))]
        for _ in range(3000 if thorough else 600):
            universe = rng.choice([8, 16, 41, 41, 41, 64, 300, 5000])
            dens = rng.random()
            s = [v for v in range(universe) if rng.random() < dens] if universe <= 300 else rng.sample(range(universe), rng.randint(1, 40))
            sets.append(sorted(s))
        for s in sets:
            b = sbs.encode(s)
            dset, used = sbs.decode(b + b"\x55\x55\x55\x55"[: 0])
            out.append({"k": "sbs", "vals": s, "b": list(b), "dec": sorted(dset) if used == len(b) else None})

    with _section(out, 'sstruct'):
        # ---- sstruct ------------------------------------------------------------
        fmt = """
            > # big endian
            a: b
            bb: B
            x
            c: h
            d: H
            e: l
            f: L
            g: 16.16F
            h: 2.14F
        """
        tfmt = ["b", "B", "x", "h", "H", "l", "L", "l", "h"]
        for _ in range(600 if thorough else 150):
            g = rng.randrange(-(2**31), 2**31)
            h = rng.randrange(-32768, 32768)
            f_ = rng.getrandbits(32)
            obj = {"a": rng.randint(-128, 127), "bb": rng.randint(0, 255), "c": rng.randint(-32768, 32767), "d": rng.randint(0, 65535),
                   "e": rng.randrange(-(2**31), 2**31), "f": f_, "g": g / 65536, "h": h / 16384}
            b = sstruct.pack(fmt, obj)
            back = sstruct.unpack(fmt, b)
            vals = [obj["a"], obj["bb"], obj["c"], obj["d"], obj["e"], list(limbs(f_)), g, h]
            dec = [back["a"], back["bb"], back["c"], back["d"], back["e"], list(limbs(back["f"])),
                   fixedTools.floatToFixed(back["g"], 16), fixedTools.floatToFixed(back["h"], 14)]
            out.append({"k": "struct", "fmt": tfmt, "vals": vals, "b": list(b), "dec": dec})

    with _section(out, 'Adobe glyph list'):
        # ---- Adobe glyph list ----------------------------------------------------
        uvs = sorted(agl.UV2AGL)
        for u in (uvs if thorough else uvs[:: 3]):
            name = agl.UV2AGL[u]
            r = agl.toUnicode(name)
            out.append({"k": "agl", "u": u, "name": codes("x"), "back": ord(r) if len(r) == 1 else -1})
        for u in [0x20, 0x41, 0xD7FF, 0xE000, 0xFFFF, 0x1234, 0xABCD] + [rng.randrange(0, 0xD800) for _ in range(100)]:
            name = "uni%04X" % u
            r = agl.toUnicode(name)
            out.append({"k": "agl", "u": u, "name": codes(name), "back": ord(r) if len(r) == 1 else -1})
        for u in [0x10000, 0x10FFFF, 0x1F600, 0xE000, 0xABCD, 0x0041] + [rng.randrange(0x10000, 0x110000) for _ in range(100)]:
            for f_ in ("u%04X", "u%05X", "u%06X"):
                name = f_ % u
                if len(name) > 7:
                    continue
                r = agl.toUnicode(name)
                out.append({"k": "agl", "u": u, "name": codes(name), "back": ord(r) if len(r) == 1 else -1})
    return out


KNOWN_KEYS = {}


def judge(chk, cases):
    rejected = chk.judge("Trace_C15", cases, chunk=60000, timeout=1200)
    return rejected


def describe(t):
    keep = {k: v for k, v in t.items() if not isinstance(v, list) or len(v) <= 24}
    return keep


def run(chk):
    chk.rule = ("one case = (codec kind, value) pushed through the real encoder and decoder; distinct by (kind, value); "
                "non-trivial = encodes to >1 byte/char or sits on a documented form boundary")
    # (M) the specification's codecs are inverse on whole small domains
    r = chk.tlc("MC_Codec", label="MC_Codec", timeout=900)
    chk.log("MC_Codec: %d states" % r.distinct)
    cases = gen_cases(chk)
    for i, t in enumerate(cases):
        # a None field means the real decoder did not consume exactly the bytes the real encoder emitted: the pair is
        # not inverse on that value; JSON null cannot travel to TLC, so it goes as a refused `raised` event
        if any(v is None for v in t.values()):
            cases[i] = {"k": "raised", "codec": "%s (real decoder stopped short of / ran past the encoder's bytes)" % t["k"],
                        "err": "length", "where": str({k: v for k, v in t.items() if not isinstance(v, list) or len(v) < 20})[:200]}
    chk.count(len(cases))
    for t in cases:
        enc = t.get("b") or t.get("s") or t.get("c") or t.get("ident") or t.get("xml") or t.get("name") or []
        if t["k"] == "raised":
            chk.nontriv(("raised", t["codec"]))
        elif t["k"] == "otround" or len(enc) > 1:
            chk.nontriv((t["k"], str({k: v for k, v in t.items() if k in ("v", "fx", "m", "e", "hi", "lo", "pts", "ds", "p", "r", "tag", "vals", "days", "secs", "u", "n", "d", "fmt", "opt")})))
    kinds = {}
    for t in cases:
        kinds[t["k"]] = kinds.get(t["k"], 0) + 1
    chk.notes["cases_per_codec"] = kinds
    for k in kinds:
        if k != "raised":
            chk.sample(describe(next(t for t in cases if t["k"] == k and len(t.get("b", t.get("s", [1, 2]))) > 1)), limit=30)
    chk.log("generated %d cases over %d codecs" % (len(cases), len(kinds)))
    rej = judge(chk, cases)
    for t, clause in rej:
        clause = clause[0] if clause else "?"
        key = "%s" % clause
        chk.reject(key, "codec %s: %s on %s" % (t["k"], clause, describe(t)), t)
    chk.exhaustive = False
    chk.assumptions += [
        "encoders/decoders are called at function level (fontTools.misc.psCharStrings, woff2, TupleVariation, eexec, ...)",
        "T2 integer domain is 16-bit (wider values take the documented legacy path and are excluded)",
        "AGL names other than uniXXXX/uXXXXX are checked against the real decoder only (the list itself is data)",
    ]


def replay(chk, rep):
    t = rep["replay"]
    chk.log("replaying recorded case (as recorded, re-judged by TLC):", describe(t))
    # regenerate the same kind of case from the current tree is kind-specific; re-run all
    run(chk)
