"""Subprocess worker for C16 (EnvIndependent): runs a list of pipeline jobs under the
PYTHONHASHSEED / environment chosen by the parent and prints {job key: sha256 of output}.
Usage: python -m harness.c16_worker jobs.json  (PYTHONPATH must contain /repo/Lib and /verif)"""
import hashlib
import io
import json
import logging
import os
import random
import sys


def _sha(b):
    return hashlib.sha256(b).hexdigest()


def _save(font, **kw):
    buf = io.BytesIO()
    font.save(buf, **kw)
    return buf.getvalue()


def run_job(j):
    from fontTools.ttLib import TTFont

    op = j["op"]
    if op == "recompile":
        f = TTFont(j["path"], fontNumber=j.get("idx", 0), lazy=j.get("lazy"), recalcTimestamp=False)
        order = list(f.keys())
        random.Random(j.get("order", 0)).shuffle(order)
        for t in order:
            f[t]
        if j.get("ensure"):
            f.ensureDecompiled()
        return _save(f)
    if op == "ttx":
        f = TTFont(recalcTimestamp=j.get("restamp", False))
        f.importXML(j["path"])
        return _save(f)
    if op == "ttxdump":
        f = TTFont(j["path"], fontNumber=j.get("idx", 0), lazy=j.get("lazy"))
        s = io.StringIO()
        f.saveXML(s)
        return s.getvalue().encode("utf-8")
    if op == "fea":
        from fontTools.feaLib.builder import addOpenTypeFeatures

        sys.path.insert(0, os.path.join(j["tests"], "feaLib"))
        import importlib.util

        spec = importlib.util.spec_from_file_location("fea_builder_test", os.path.join(j["tests"], "feaLib", "builder_test.py"))
        mod = importlib.util.module_from_spec(spec)
        spec.loader.exec_module(mod)
        font = mod.makeTTFont()
        addOpenTypeFeatures(font, j["path"])
        out = b""
        for t in ("GDEF", "GSUB", "GPOS", "BASE", "name", "OS/2", "head", "hhea", "vhea", "STAT"):
            if t in font:
                try:
                    out += t.encode() + font[t].compile(font)
                except Exception as e:  # noqa
                    out += t.encode() + b"!" + type(e).__name__.encode()
        return out
    if op == "subset":
        from fontTools import subset

        opts = subset.Options()
        for k, v in j.get("options", {}).items():
            setattr(opts, k, v)
        if j["path"].endswith(".ttx"):
            f0 = TTFont(recalcTimestamp=False)
            f0.importXML(j["path"])
            f = TTFont(io.BytesIO(_save(f0)), lazy=j.get("lazy"), recalcTimestamp=False)
        else:
            f = TTFont(j["path"], lazy=j.get("lazy"), recalcTimestamp=False)
        s = subset.Subsetter(opts)
        glyphs = j.get("glyphs", [])
        if glyphs == ["*"]:
            glyphs = f.getGlyphOrder()
        elif glyphs == ["%half"]:
            glyphs = f.getGlyphOrder()[::2] + f.getGlyphOrder()[-3:]
        s.populate(unicodes=j.get("unicodes", []), glyphs=glyphs)
        s.subset(f)
        return _save(f)
    if op == "instance":
        from fontTools.varLib import instancer

        f = TTFont(j["path"], recalcTimestamp=False)
        inst = instancer.instantiateVariableFont(f, {k: (tuple(v) if isinstance(v, list) else v) for k, v in j["limits"].items()})
        return _save(inst)
    if op == "build":
        from fontTools import varLib

        rep = j["finder"]
        vf, _model, _ = varLib.build(j["path"], lambda s: s.replace(rep[0], rep[1]).replace(rep[2], rep[3]))
        vf.recalcTimestamp = False
        return _save(vf)
    if op == "merge":
        from fontTools import merge

        m = merge.Merger()
        f = m.merge(j["paths"])
        f.recalcTimestamp = False
        return _save(f)
    raise ValueError(op)


def main():
    logging.disable(logging.CRITICAL)
    jobs = json.load(open(sys.argv[1]))
    out = {}
    for j in jobs:
        try:
            out[j["key"]] = _sha(run_job(j))
        except Exception as e:  # a pipeline that fails must fail the same way everywhere
            out[j["key"]] = "EXC:" + type(e).__name__
    json.dump(out, sys.stdout)


if __name__ == "__main__":
    main()
