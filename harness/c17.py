"""C17 — renumbering glyphs or rescaling the em changes nothing else.

(M) MC_Reorder: Reorder on a family of 4-glyph fonts, all renumberings keeping .notdef, applied
    repeatedly: NameView preserved, every gid-ordered array well formed; MC_Reorder_neg: eight wrong
    variants of the transformation are each reported by the same predicates.  MC_ScaleUpem: the specified
    scaling meets the per-kind bounds for the factors {1/2, 2, 3/2, 1000/2048}, witnesses show the
    accumulated bound is needed.
(R) the MC_Reorder family (JSON emitted by TLC) and hand-built rich fonts realised with FontBuilder +
    feaLib; the MC_ScaleUpem value families realised as glyf / CFF fonts; all transformed by the real
    reorderGlyphs / scale_upem.
(V) every corpus font (binaries + compiled whole-font TTX) x seeded permutations / upem targets.
Every case is recorded as name-keyed projections of the saved files (fontTools reader), by-gid
observations of independent readers (HarfBuzz, harness.rawsfnt) and shaping results; Trace_C17 (TLC)
decides: NameView equality, permuted by-gid arrays, sorted Coverages, NoDangling / Scaled within the
stated bound, NothingElse.

Mechanics: (M) runs in a background thread while the worker pool drives the real code.  The design-unit
numbers of the scale cases are sent to TLC as de-duplicated facts (kind "nums": factor, before, after,
bound) and the verdicts are joined back to the cases in judge_results.  A transformation that raises
anything but NotImplementedError is a case of kind "raised" (rejected unless it was scaling UP).  The
clauses TLC rejects are reported under one stable key per root cause (ROOT_CAUSES): the primary clause
names the table the defect lives in, dependent observations of the same case are folded into it.
VERIF_C17_ONLY=<regex> (development / sensitivity runs only) restricts the fonts and skips (M).
"""
import io
import json
import os
import random
import time
import traceback
from fractions import Fraction

from . import common
from .common import MachineryError

LEVEL = "model_checking"

BIG = 400  # glyphs; larger fonts get sampled glyph sets / fewer transformations in the quick tier


# ---------------------------------------------------------------------------
# plans
def permutations_for(order, rng, tier, big, full=True):
    """`full`: every kind (model fonts, thorough tier); otherwise the quick tier keeps the random permutation
    and one seeded choice of the structured ones (the corpus holds hundreds of near-identical fonts)."""
    head, rest = order[:1], order[1:]
    if len(rest) < 2:
        return []
    out = [("reverse", head + rest[::-1])]
    k = rng.randrange(1, len(rest))
    out.append(("rotate", head + rest[k:] + rest[:k]))
    sh = list(rest)
    rng.shuffle(sh)
    out.append(("random", head + sh))
    i, j = rng.sample(range(len(rest)), 2)
    sw = list(rest)
    sw[i], sw[j] = sw[j], sw[i]
    out.append(("swap", head + sw))
    if tier == "thorough" and not big:
        for t in range(3):
            sh = list(rest)
            rng.shuffle(sh)
            out.append(("random%d" % (t + 2), head + sh))
    if big and tier == "quick":
        out = [out[2]]
    elif tier == "quick" and not full:
        out = [out[2], out[rng.choice([0, 1, 3])]]
    return [(k, o) for k, o in out if o != order]


def upem_targets(u, rng, tier, big, full=True):
    t = []
    t.append(1000 if u != 1000 else 2048)
    t.append(u * 2)
    if u % 2 == 0:
        t.append(u // 2)
        t.append(u * 3 // 2)
    odd = rng.choice([1234, 999, 1500, 2047, 1024, 4096, 16384, 250, 3000])
    t.append(odd)
    if tier == "thorough":
        t += [2048 if u != 2048 else 1000, rng.randrange(max(16, u // 4), min(16384, u * 4)), u + 1]
    seen, out = set(), []
    for x in t:
        if x != u and 16 <= x <= 16384 and x not in seen:
            seen.add(x)
            out.append(x)
    if big and tier == "quick":
        out = [out[rng.randrange(len(out))]]
    elif tier == "quick" and not full:
        out = [out[i] for i in sorted(rng.sample(range(len(out)), min(2, len(out))))]
    return out


# ---------------------------------------------------------------------------
# worker side
def _prep(data, fontNumber):
    """Load the original, produce the untransformed twin and the shared probe plan."""
    from fontTools.ttLib import TTFont
    from . import c17_project as P

    src = TTFont(io.BytesIO(data), fontNumber=fontNumber, recalcTimestamp=False)
    order = list(src.getGlyphOrder())
    src.flavor = None
    # both transformations load every table before they save, which makes the library recompute the derived
    # fields (hhea/vhea extents, head bbox, maxp); the twin is produced the same way so that a stale derived
    # field of the source file is not attributed to the transformation
    src.ensureDecompiled()
    twin = P.save(src)
    return order, twin


def _open(data, fontNumber):
    from fontTools.ttLib import TTFont

    f = TTFont(io.BytesIO(data), fontNumber=fontNumber, recalcTimestamp=False)
    f.flavor = None
    return f


def _load_file(data, order):
    """Reload a saved file fully; glyph names come from the file when it carries them, else from
    `order` (the in-memory glyph order the file was saved with)."""
    from . import c17_project as P

    f = P.load(data, lazy=False)
    file_order = list(f.getGlyphOrder())
    # does the FILE state glyph names (CFF charset strings / post formats with names), or did the reader make them up?
    stored = "CFF " in f or ("post" in f and f["post"].formatType in (1.0, 2.0, 4.0))
    # a post table with duplicate names violates the format; the reader renames the later duplicates ("a#1"), so which
    # glyph gets which name depends on the order: such files do not carry usable names
    dup = "post" in f and bool(getattr(f["post"], "mapping", None))
    carried = bool(stored) and not dup and file_order == list(order)
    if file_order != list(order):
        f = P.load(data, lazy=False)
        f.setGlyphOrder(list(order))
        if hasattr(f, "_reverseGlyphOrderDict"):
            del f._reverseGlyphOrderDict
    return f, file_order, carried


def _plan(font, order, rng, tier):
    from . import c17_project as P

    gmap = {n: i + 1 for i, n in enumerate(sorted(order))}
    inv = {i: n for n, i in gmap.items()}
    tv, layout = P.table_views(font, gmap)
    big = len(order) > BIG
    limit = (40 if big else 60) if tier == "quick" else 300
    probes = P.shaping_probes(layout, inv, rng, limit)
    systems = P.feature_systems(layout, 2 if tier == "quick" else 4)
    cps = P.probe_codepoints(font, rng, 48 if tier == "quick" else 200)
    corners = P.var_corners(font)
    if big and tier == "quick":
        sample = sorted(rng.sample(order[1:], 200)) + order[:1]
    elif len(order) > 2500:
        sample = sorted(rng.sample(order[1:], 1000)) + order[:1]
    else:
        sample = list(order)
    return {"gmap": gmap, "probes": probes, "systems": systems, "cps": cps, "corners": corners, "sample": sample,
            "math": "MATH" in font, "ngpos": len(layout["gpos"]["lookups"]), "tv0": tv}


def _observe_reorder(data, order, plan, want_tv=None):
    from . import c17_project as P

    font, file_order, carried = _load_file(data, order)
    gid = {n: i for i, n in enumerate(order)}
    views = P.name_views(font)
    tv, _layout = P.table_views(font, plan["gmap"])
    tv["cmap"] = P.cmap_view(font)
    for tag in font.keys():
        if tag not in P.SEMANTIC_TABLES:
            tv["xml:" + tag] = P.xml_lines_view(font, tag)
    srt = P.sorted_by_gid_sequences(font)
    sample_gids = sorted(gid[n] for n in plan["sample"] if n in gid)
    hb = P.hb_observe(data, order, plan["probes"], plan["systems"], plan["cps"], plan["corners"], glyph_sample=sample_gids,
                      want_math=plan["math"])
    raw = P.raw_observe(data, order)
    rawgid = {}
    if "SVG " in font:
        rawgid["SVG "] = (P.freeze([(d.data, d.startGlyphID, d.endGlyphID) for d in font["SVG "].docList]),
                          sorted({g for d in font["SVG "].docList for g in range(d.startGlyphID, d.endGlyphID + 1)}))
    implicit = [tag for tag, a in (("HVAR", "AdvWidthMap"), ("VVAR", "AdvHeightMap")) if tag in font and getattr(font[tag].table, a, None) is None]
    return {"order": list(order), "file_order": file_order, "carried": carried, "views": views, "tv": tv, "sorted": srt, "hb": hb,
            "raw": raw, "rawgid": rawgid, "sample_gids": sample_gids, "implicit_metric_maps": implicit}


def _hb_gid_fields(obs, order, g, names_real):
    """frozen by-gid HarfBuzz record with glyph ids translated to names by the file's own order"""
    r = obs["hb"]["gid"].get(g)
    if r is None:
        return None
    nm = lambda x: order[x] if 0 <= x < len(order) else "?%d" % x
    out = {
        "hb.name": r["name"] if names_real else None,
        "hb.hadv": r["hadv"], "hb.vadv": r["vadv"], "hb.vorg": r["vorg"], "hb.draw": r["draw"],
        "hb.layers": None if r["layers"] is None else tuple((nm(a), b) for a, b in r["layers"]),
        "hb.var": tuple(obs["hb"]["var"][ci].get(g) for ci in sorted(obs["hb"]["var"])),
    }
    m = obs["hb"]["math"]
    if m is not None:
        rec = m["gid"].get(g)
        if rec is not None and rec[0] != "math-error":
            ic, ta, vv, hv, parts = rec
            rec = (ic, ta, tuple((nm(a), b) for a, b in vv), tuple((nm(a), b) for a, b in hv),
                   tuple((tuple((nm(p[0]),) + tuple(p[1:]) for p in ps), c) for ps, c in parts))
        out["hb.math"] = rec
    return out


GID_FIELDS = ["hb.name", "hb.hadv", "hb.vadv", "hb.vorg", "hb.draw", "hb.layers", "hb.var", "hb.math", "raw.hmtx", "raw.glyf"]


def build_reorder_trace(B, A, want, meta):
    I = common.Interner()
    old = B["order"]
    nid = {n: i + 1 for i, n in enumerate(old)}
    N = len(old)
    new = [nid.get(n, 0) for n in A["order"]]
    wantids = [nid.get(n, 0) for n in want]
    fields = sorted({f for v in B["views"].values() for f in v} | {f for v in A["views"].values() for f in v})
    absent = ("<absent>",)
    nb = [[I(B["views"][n].get(f, absent)) for f in fields] for n in old]
    na = [[I(A["views"].get(n, {}).get(f, absent)) for f in fields] for n in old]
    keys = sorted(set(B["tv"]) | set(A["tv"]))
    tb = [[k, I(B["tv"].get(k, absent)), I(A["tv"].get(k, absent))] for k in keys]
    # by-gid observations, indexed by each file's own glyph ids
    names_real = all(B["hb"]["gid"][g]["name"] == old[g] for g in B["sample_gids"]) and B["carried"]

    def rows(P, order):
        n = len(order)
        out = [[0] * len(GID_FIELDS) for _ in range(n)]
        raw = P["raw"] or {}
        for g in range(n):
            h = _hb_gid_fields(P, order, g, names_real) if g in P["hb"]["gid"] else None
            row = out[g]
            for fi, f in enumerate(GID_FIELDS):
                if f.startswith("hb."):
                    if h is not None and f in h:
                        row[fi] = I((f, h[f]))
                elif f == "raw.hmtx" and raw.get("hmtx") and g < len(raw["hmtx"]):
                    row[fi] = I((f, raw["hmtx"][g]))
                elif f == "raw.glyf" and raw.get("glyf") and g < len(raw["glyf"]):
                    row[fi] = I((f, raw["glyf"][g]))
        return out

    gb = rows(B, B["order"])
    ga = rows(A, A["order"])
    nom = []
    for cp in sorted(B["hb"]["nominal"]):
        b, a = B["hb"]["nominal"][cp] or 0, A["hb"]["nominal"].get(cp, 0) or 0     # None: HarfBuzz has no mapping
        nom.append([cp, nid.get(old[b], 0) if b < N else 0, nid.get(A["order"][a], 0) if a < len(A["order"]) else 0])
    sa = dict(A["hb"]["shape"])
    sh = [[i + 1, I(res), I(sa.get(key, absent))] for i, (key, res) in enumerate(B["hb"]["shape"])]
    unsorted_before = sorted({w for w, seq in B["sorted"] if any(seq[i] >= seq[i + 1] for i in range(len(seq) - 1))})
    srt = [[w, seq] for w, seq in A["sorted"]]
    rawgid = []
    for tag, (val, gids) in sorted(B["rawgid"].items()):
        av = A["rawgid"].get(tag, (None, []))[0]
        rawgid.append([tag, val == av, [g + 1 for g in gids if g < N]])
    t = {"k": "reorder", "n": N, "new": new, "want": wantids, "carried": bool(B["carried"]), "acarried": bool(A["carried"]),
         "fileorder": [nid.get(n, 0) for n in A["file_order"]],
         "nf": fields, "nb": nb, "na": na, "tb": tb, "gf": GID_FIELDS, "gb": gb, "ga": ga, "nom": nom, "sh": sh,
         "sorted": srt, "unsortedb": unsorted_before, "rawgid": rawgid, "meta": meta}
    return t


def _first_diff(a, b, path=()):
    if type(a) != type(b) or not isinstance(a, tuple):
        return path, a, b
    if len(a) != len(b):
        for i, (x, y) in enumerate(zip(a, b)):
            if x != y:
                return _first_diff(x, y, path + (i,))
        return path + ("len",), len(a), len(b)
    for i, (x, y) in enumerate(zip(a, b)):
        if x != y:
            return _first_diff(x, y, path + (i,))
    return path, a, b


def describe_reorder(B, A, clause):
    """Human-readable detail for a rejected clause (not a verdict)."""
    try:
        c = clause[0] if clause else ""
        arg = clause[1] if len(clause) > 1 else None
        if c == "nameview":
            for n in B["order"]:
                x, y = B["views"][n].get(arg), A["views"].get(n, {}).get(arg)
                if x != y:
                    p, u, v = _first_diff(x, y)
                    return "glyph %r field %s at %s: before %s after %s" % (n, arg, p, repr(u)[:160], repr(v)[:160])
        if c == "table":
            p, u, v = _first_diff(B["tv"].get(arg), A["tv"].get(arg))
            return "%s at %s: before %s after %s" % (arg, p, repr(u)[:200], repr(v)[:200])
        if c == "sorted":
            for w, seq in A["sorted"]:
                if w == arg and any(seq[i] >= seq[i + 1] for i in range(len(seq) - 1)):
                    return "%s glyph ids in the saved file: %s" % (w, seq[:40])
        if c == "shape":
            sa = dict(A["hb"]["shape"])
            for key, res in B["hb"]["shape"]:
                if sa.get(key) != res:
                    return "probe %s: before %s after %s" % (key, repr(res)[:200], repr(sa.get(key))[:200])
        if c == "bygid":
            return "by-gid observation %s differs for some glyph name" % arg
    except Exception as e:
        return "(no detail: %s)" % e
    return ""


# ---- scale --------------------------------------------------------------------
def _observe_scale(data, order, plan):
    from . import c17_project as P

    font, file_order, carried = _load_file(data, order)
    V, info = P.scale_views(font, data, glyph_names=plan["sample"] if len(plan["sample"]) < len(order) else None)
    gid = {n: i for i, n in enumerate(order)}
    sample_gids = sorted(gid[n] for n in plan["sample"] if n in gid)
    hb = P.hb_observe(data, order, plan["probes"], plan["systems"], plan["cps"], [], glyph_sample=sample_gids, want_math=plan["math"])
    depth = {}
    transformed = set()
    if "glyf" in font:
        memo = {}
        for n in order:
            depth[n] = P._comp_depth(font["glyf"], n, memo)
            g = font["glyf"][n]
            if g.isComposite() and any(hasattr(c, "transform") or hasattr(c, "firstPt") for c in g.components):
                transformed.add(n)      # 2x2 transform or point matching: HarfBuzz outline numbers are not judged, only their structure
        for n in order:  # a glyph is "transformed" if anything below it is
            g = font["glyf"][n]
            if g.isComposite() and any(c.glyphName in transformed for c in g.components):
                transformed.add(n)
    return {"order": list(order), "upem": font["head"].unitsPerEm, "V": V, "info": info, "hb": hb, "sample_gids": sample_gids,
            "iscff": "CFF " in font or "CFF2" in font, "depth": depth, "transformed": transformed, "vorg": "VORG" in font,
            "kern": "kern" in font, "tables": sorted(font.keys())}


def _skel(leaves):
    """everything that is not a design-unit number: paths, kinds and the identity values (the bound h of a number
    is taken from the BEFORE side and is not part of the font)"""
    return tuple((p, k, (v if k in ("I",) else None)) for p, k, v, h in leaves)


def _strip_close(ops):
    """HarfBuzz closes an open charstring contour with an explicit line to the start point; drop a
    final line that lands exactly on the contour's start so that explicit and implied closes compare."""
    out = []
    start = None
    for op, cs in ops:
        if op == "M":
            start = cs
        if op == "Z" and out and out[-1][0] == "L" and out[-1][1] == start:
            out.pop()
        out.append((op, cs))
    return out


def build_scale_trace(B, A, want, meta, rng, cap):
    I = common.Interner()
    tabs, items, fm = [], [], []
    fractional = 0
    for key in sorted(set(B["V"]) | set(A["V"])):
        lb, la = B["V"].get(key), A["V"].get(key)
        if lb is not None and la is not None:
            # glyphs whose coordinates are not (half-)integral before scaling are outside the integer arithmetic of the
            # judge: their pen leaves are dropped on both sides (counted)
            frac = {p[:2] for p, k, v, _h in lb if k == "I" and v == "non-integer-coordinates"}
            if frac:
                fractional += len(frac)
                lb = [l for l in lb if l[0][:2] not in frac]
                la = [l for l in la if l[0][:2] not in frac]
        sb = _skel(lb) if lb is not None else ("<absent>",)
        sa = _skel(la) if la is not None else ("<absent>",)
        tabs.append([key, I(sb), I(sa)])
        if lb is not None and la is not None and sb == sa:
            for (p, k, vb, h), (_p, _k, va, _h) in zip(lb, la):
                if k == "D":
                    items.append((key, int(vb), int(va), h))
                elif k == "E":
                    # a quantity derived from (at most two) glyph-box numbers that are ROUNDED reals on both sides:
                    # B = b + eB, A = a + eA with |eB|, |eA| < 2 in total each and |a - k*b| <= h/2 (h separately rounded
                    # stored numbers)  =>  |A - k*B| < h/2 + 2 + 2k: bound (h + 4 + 4*ceil(k))/2
                    items.append((key, int(vb), int(va), h + 4 + 4 * -(-want // B["upem"])))
                elif k == "M":
                    for x, y in zip(vb, va):
                        fm.append([key.strip() + ".FontMatrix", x, y])
    # HarfBuzz
    hbt, hbi = [], []
    order = B["order"]
    closure_skips = 0
    nonint = 0
    for g in B["sample_gids"]:
        rb, ra = B["hb"]["gid"].get(g), A["hb"]["gid"].get(g)
        if rb is None or ra is None:
            continue
        n = order[g]
        hbi.append(("hb.hadv", rb["hadv"], ra["hadv"], 1))
        hbi.append(("hb.vadv", rb["vadv"], ra["vadv"], 1 if "vmtx" in B["tables"] else 2))
        if B["vorg"] and len(rb["vorg"]) == 2 and len(ra["vorg"]) == 2:
            hbi.append(("hb.vorg", rb["vorg"][1], ra["vorg"][1], 1))
        hbt.append(["hb.layers", I(rb["layers"]), I(ra["layers"])])
        if n in B["transformed"]:
            continue
        db, da = list(rb["draw"]), list(ra["draw"])
        if B["iscff"]:
            db, da = _strip_close(db), _strip_close(da)
        kb = tuple((op, len(c)) for op, c in db)
        ka = tuple((op, len(c)) for op, c in da)
        if kb != ka and B["iscff"] and tuple(x for x in kb if x[0] != "L") == tuple(x for x in ka if x[0] != "L"):
            closure_skips += 1  # a closing line appeared/disappeared through accumulated rounding (see assumptions)
            continue
        hbt.append(["hb.draw:" + n, I(kb), I(ka)])
        if kb != ka:
            continue
        j = 0
        ok = True
        tmp = []
        for (op, cb), (_op, ca) in zip(db, da):
            for i in range(0, len(cb), 2):
                j += 1
                for c in (0, 1):
                    x, y = cb[i + c], ca[i + c]
                    if x != int(x) or y != int(y):
                        ok = False
                    # glyf: HarfBuzz reports x + lsb - xMin when it applies phantom points (three rounded numbers),
                    # plus one component offset per level of nesting
                    tmp.append(("hb.draw", int(x), int(y), j if B["iscff"] else 3 + B["depth"].get(n, 0)))
        if ok:
            hbi.extend(tmp)
        else:
            nonint += 1
    sa = dict(A["hb"]["shape"])
    L = meta.get("ngpos", 0) + (1 if B["kern"] else 0)
    for key, res in B["hb"]["shape"]:
        ra = sa.get(key)
        nb_ = tuple(r[0] for r in res)
        na_ = tuple(r[0] for r in ra) if ra is not None else ("<absent>",)
        hbt.append(["hb.shape", I(nb_), I(na_)])
        if nb_ == na_:
            h = 2 + 3 * L * max(1, len(res))
            if key[0] == "c":
                # code-point probes: without GPOS mark positioning HarfBuzz places Unicode marks from the glyph EXTENTS
                # of base and mark (x/y bearing, width, height of each: 8 numbers, each made of bb rounded numbers)
                h += 8 * B["info"].get("bb", 1)
            for r1, r2 in zip(res, ra):
                for c in (1, 2, 3, 4):
                    hbi.append(("hb.pos", r1[c], r2[c], h))
    if B["hb"]["extents"] and A["hb"]["extents"]:
        for x, y in zip(B["hb"]["extents"], A["hb"]["extents"]):
            hbi.append(("hb.extents", x, y, 1))
    mb, ma = B["hb"]["math"], A["hb"]["math"]
    if mb is not None and ma is not None:
        PERCENT = (0, 1, 55)
        for ci, (x, y) in enumerate(zip(mb["constants"], ma["constants"])):
            if x is None or y is None:
                continue
            if ci in PERCENT:
                hbt.append(["hb.math.percent", x + 100000, y + 100000])
            else:
                hbi.append(("hb.math.constant", x, y, 1))
        for x, y in zip(mb["minoverlap"], ma["minoverlap"]):
            hbi.append(("hb.math.minoverlap", x, y, 1))
        for g in B["sample_gids"]:
            x, y = mb["gid"].get(g), ma["gid"].get(g)
            if not x or not y or x[0] == "math-error" or y[0] == "math-error":
                continue
            hbi.append(("hb.math.italics", x[0], y[0], 1))
            # without a top-accent record HarfBuzz answers floor(advance / 2): A = floor(round(k*a)/2), B = floor(a/2)
            # gives -3/4 <= A - k*B <= 1/4 + k/2, within (2 + ceil(k))/2; records themselves are judged on the table (h = 1)
            hbi.append(("hb.math.topaccent", x[1], y[1], 2 + -(-want // B["upem"])))
            sk_b = (tuple(v[0] for v in x[2]), tuple(v[0] for v in x[3]), tuple(tuple((p[0], p[4]) for p in ps) for ps, _ in x[4]))
            sk_a = (tuple(v[0] for v in y[2]), tuple(v[0] for v in y[3]), tuple(tuple((p[0], p[4]) for p in ps) for ps, _ in y[4]))
            hbt.append(["hb.math.variants", I(sk_b), I(sk_a)])
            if sk_b == sk_a:
                for vb_, va_ in list(zip(x[2], y[2])) + list(zip(x[3], y[3])):
                    hbi.append(("hb.math.variant-advance", vb_[1], va_[1], 1))
                for (psb, icb), (psa, ica) in zip(x[4], y[4]):
                    hbi.append(("hb.math.assembly-italics", icb, ica, 1))
                    for pb, pa in zip(psb, psa):
                        for c in (1, 2, 3):
                            hbi.append(("hb.math.part", pb[c], pa[c], 1))
    items = sorted(set(items))
    hbi = sorted(set(hbi))
    total = len(items) + len(hbi)
    if len(items) > cap:
        items = [items[i] for i in sorted(rng.sample(range(len(items)), cap))]
    if len(hbi) > cap:
        hbi = [hbi[i] for i in sorted(rng.sample(range(len(hbi)), cap))]
    # "_items" / "_hbi" (design-unit numbers) are judged as de-duplicated "nums" facts, see judge_results
    t = {"k": "scale", "ub": B["upem"], "ua": A["upem"], "want": want, "tabs": tabs, "_items": items, "fm": fm,
         "hbt": hbt, "_hbi": hbi, "meta": meta}
    stats = {"numbers": total, "closure_skips": closure_skips, "nonint": nonint + B["info"]["nonint"], "skipped": B["info"]["skipped"],
             "fractional": fractional}
    return t, stats


def describe_scale(B, A, clause, num, den):
    try:
        c = clause[0] if clause else ""
        key = clause[1] if len(clause) > 1 else None
        if c == "nothingelse" and key in B["V"] and key in A["V"]:
            lb, la = B["V"][key], A["V"][key]
            if len(lb) != len(la):
                pb = {p for p, *_ in lb}
                pa = {p for p, *_ in la}
                return "%s: %d leaves before, %d after; e.g. only before %s only after %s" % (
                    key, len(lb), len(la), sorted(pb - pa, key=repr)[:2], sorted(pa - pb, key=repr)[:2])
            for x, y in zip(lb, la):
                if (x[0], x[1]) != (y[0], y[1]) or (x[1] == "I" and x[2] != y[2]):
                    return "%s %s: before %s after %s" % (key, x[0], repr(x[1:3])[:120], repr(y[1:3])[:120])
        if c == "scaled" and key in B["V"] and key in A["V"]:
            for x, y in zip(B["V"][key], A["V"][key]):
                if x[1] == "D" and abs(Fraction(y[2]) - Fraction(x[2]) * num / den) * 2 > x[3]:
                    return "%s %s: %s -> %s (k=%d/%d, exact %.3f, bound %s/2)" % (key, x[0], x[2], y[2], num, den, x[2] * num / den, x[3])
    except Exception as e:
        return "(no detail: %s)" % e
    return ""


# ---- the job ----------------------------------------------------------------------
def _exc_id(e):
    """exception type @ innermost fontTools function: stable across inputs for one cause"""
    tb = traceback.extract_tb(e.__traceback__)
    fr = [f for f in tb if "fontTools" in f.filename] or list(tb)
    f = fr[-1]
    return "%s@%s.%s" % (type(e).__name__, os.path.splitext(os.path.basename(f.filename))[0], f.name)


class _Timer:
    """CPU seconds per phase of one job (evidence / tuning only)."""

    def __init__(self, acc):
        self.acc = acc
        self.t = time.process_time()

    def __call__(self, phase):
        now = time.process_time()
        self.acc[phase] = round(self.acc.get(phase, 0.0) + now - self.t, 3)
        self.t = now


def font_job(args):
    """All transformations of one font; returns traces and notes.  Runs in a forked worker."""
    label, data, fontNumber, seed, tier, do = args
    import logging

    logging.disable(logging.CRITICAL)
    from fontTools.ttLib.reorderGlyphs import reorderGlyphs
    from fontTools.ttLib.scaleUpem import scale_upem
    from . import c17_project as P

    out = {"label": label, "traces": [], "skips": [], "stats": [], "errors": [], "cpu": {}}
    rng = random.Random("%d|%s|%d" % (seed, label, fontNumber))
    full = label.startswith("model:") or tier != "quick"
    tm = _Timer(out["cpu"])
    try:
        order, twin = _prep(data, fontNumber)
    except Exception as e:
        out["skips"].append("font does not load/save untransformed (%s)" % type(e).__name__)
        return out
    tm("prep")
    if len(order) < 3:
        out["skips"].append("fewer than 3 glyphs")
        return out
    try:
        fb, _fo, carried = _load_file(twin, order)
        plan = _plan(fb, order, rng, tier)
        big = len(order) > BIG
        upem = fb["head"].unitsPerEm
    except Exception as e:
        out["skips"].append("projection of the untransformed font failed (%s: %s)" % (type(e).__name__, str(e)[:60]))
        return out
    meta0 = {"font": label, "n": len(order), "ngpos": plan["ngpos"]}
    tm("plan")
    if "reorder" in do:
        try:
            B = _observe_reorder(twin, order, plan)
        except Exception as e:
            out["errors"].append("observe-before reorder %s: %s" % (label, traceback.format_exc()[-600:]))
            B = None
        tm("reorder-observe-before")
        for kind, want in (permutations_for(order, rng, tier, big, full) if B else []):
            meta = dict(meta0, op="reorder", perm=kind)
            try:
                f = _open(data, fontNumber)
                try:
                    if rng.random() < 0.5:
                        # history: the same object was saved once before being reordered (compiling fills the
                        # per-table name -> glyph-ID caches that a reorder has to invalidate)
                        meta["history"] = "save-then-reorder"
                        P.save(f)
                    reorderGlyphs(f, list(want))
                    after = P.save(f)
                    tm("reorder-transform")
                except NotImplementedError as e:
                    out["skips"].append("reorderGlyphs refused: %s" % str(e)[:60])
                    continue
                except Exception as e:
                    out["stats"].append({"raised": "%s reorder %s: %s: %s" % (label, kind, type(e).__name__, str(e)[:100])})
                    out["traces"].append(({"k": "raised", "op": "reorder", "exc": _exc_id(e), "ub": 1, "want": 1,
                                           "meta": dict(meta, error=str(e)[:200])}, ("reorder", label, kind)))
                    continue
                A = _observe_reorder(after, want, plan)
                tm("reorder-observe-after")
                t = build_reorder_trace(B, A, want, meta)
                t["meta"]["moved"] = sum(1 for a, b in zip(order, want) if a != b)
                t["meta"]["implicit_metric_maps"] = B["implicit_metric_maps"]
                if len(want) <= 60:
                    t["meta"]["want_order"] = list(want)
                out["traces"].append((t, ("reorder", label, kind)))
                t["_desc"] = {c: describe_reorder(B, A, [c, a]) for c, a in _prejudge_reorder(t)}
                tm("reorder-trace")
            except Exception:
                out["errors"].append("reorder %s %s: %s" % (label, kind, traceback.format_exc()[-800:]))
    if "scale" in do:
        try:
            B = _observe_scale(twin, order, plan)
        except Exception:
            out["errors"].append("observe-before scale %s: %s" % (label, traceback.format_exc()[-600:]))
            B = None
        tm("scale-observe-before")
        for target in (upem_targets(upem, rng, tier, big, full) if B else []):
            meta = dict(meta0, op="scale", upem=upem, target=target)
            try:
                f = _open(data, fontNumber)
                try:
                    scale_upem(f, target)
                    after = P.save(f)
                    tm("scale-transform")
                except NotImplementedError as e:
                    out["skips"].append("scale_upem refused: %s" % str(e)[:60])
                    continue
                except Exception as e:
                    out["stats"].append({"raised": "%s scale %d->%d: %s: %s" % (label, upem, target, type(e).__name__, str(e)[:100])})
                    out["traces"].append(({"k": "raised", "op": "scale", "exc": _exc_id(e), "ub": upem, "want": target,
                                           "meta": dict(meta, error=str(e)[:200])}, ("scale", label, target)))
                    continue
                A = _observe_scale(after, order, plan)
                tm("scale-observe-after")
                t, stats = build_scale_trace(B, A, target, meta, rng, 1200 if tier == "quick" else 20000)
                g = Fraction(target, upem)
                t["_desc"] = {}
                for c, a in _prejudge_scale(t, g.numerator, g.denominator):
                    t["_desc"][c + ":" + str(a)] = describe_scale(B, A, [c, a], g.numerator, g.denominator)
                out["traces"].append((t, ("scale", label, target)))
                out["stats"].append(stats)
                for s in stats["skipped"]:
                    out["skips"].append(s)
                if stats["fractional"]:
                    out["skips"].append("glyph outlines with fractional coordinates before scaling (glyphs)")
                if stats["closure_skips"]:
                    out["skips"].append("HarfBuzz outline: closing line changed through accumulated rounding (glyphs)")
                tm("scale-trace")
            except Exception:
                out["errors"].append("scale %s %s: %s" % (label, target, traceback.format_exc()[-800:]))
    return out


def _prejudge_reorder(t):
    """Which (clause, arg) details are worth describing: every field/table whose interned ids differ.
    Descriptions only; the verdict is TLC's."""
    out = []
    for fi, f in enumerate(t["nf"]):
        if any(x[fi] != y[fi] for x, y in zip(t["nb"], t["na"])):
            out.append(("nameview", f))
    for k, b, a in t["tb"]:
        if a != b:
            out.append(("table", k))
    for w, seq in t["sorted"]:
        if any(seq[i] >= seq[i + 1] for i in range(len(seq) - 1)):
            out.append(("sorted", w))
    if any(b != a for _i, b, a in t["sh"]):
        out.append(("shape", None))
    return out[:12]


def _prejudge_scale(t, num, den):
    out = []
    for k, b, a in t["tabs"]:
        if a != b:
            out.append(("nothingelse", k))
    seen = set()
    for key, vb, va, h in t["_items"]:
        if key not in seen and 2 * abs(va * den - vb * num) > h * den:
            seen.add(key)
            out.append(("scaled", key))
    return out[:12]


# ---------------------------------------------------------------------------
# parent side
def sources(chk, keep=None):
    from . import fonts

    src = []
    for p in common.corpus_fonts():
        if keep is not None and not keep(common.rel(p)):
            continue
        try:
            n = fonts.num_fonts_in(p)
            with open(p, "rb") as f:
                data = f.read()
        except OSError:
            continue
        for i in range(n):
            src.append((common.rel(p) + ("#%d" % i if n > 1 else ""), data, i if n > 1 else -1))
    ttx = [p for p in fonts.whole_font_ttx() if keep is None or keep(common.rel(p))]
    for p, b in fonts.compiled_ttx_fonts(ttx):
        src.append((common.rel(p), b, -1))
    return src


def model_sources(chk, gen_specs):
    from . import c17_models as M

    rng = random.Random("models-%d" % chk.seed)
    out = []
    specs = gen_specs
    if chk.tier == "quick" and len(specs) > 70:
        specs = [specs[i] for i in sorted(rng.sample(range(len(specs)), 70))]
    for i, s in enumerate(specs):
        data, _names = M.family_font(s)
        out.append(("model:family/%s" % common.digest(s), data, -1, ("reorder",)))
    for i in range(2 if chk.tier == "quick" else 6):
        out.append(("model:rich-ttf/%d" % i, M.rich_ttf(rng, upem=rng.choice([1000, 2048]))[0], -1, ("reorder", "scale")))
        out.append(("model:rich-cff/%d" % i, M.rich_cff(rng, upem=rng.choice([1000, 2048]), colr1=bool(i % 2 == 0))[0], -1, ("reorder", "scale")))
    out.append(("model:svg", M.svg_font()[0], -1, ("reorder",)))
    out.append(("model:ttf-point-matched", M.point_matched_ttf()[0], -1, ("reorder", "scale")))
    return out


def scale_family_sources(chk):
    """MC_ScaleUpem's value families as real fonts: absolute values -2100..2100 (glyf, hmtx, kern, GPOS),
    relative triples over RelVals (CFF); upem = den*16 so that every factor of the MC gives an integral upem."""
    from . import c17_models as M

    rng = random.Random("scale-family-%d" % chk.seed)
    relvals = [-1025, -257, -3, -1, 0, 1, 2, 3, 5, 129, 255, 1023]
    out = []
    for num, den in ((1, 2), (2, 1), (3, 2), (125, 256)):
        upem = den * 16
        vals = list(range(-2100, 2101)) if chk.tier == "thorough" else sorted(set(rng.sample(range(-2100, 2101), 900)) | set(range(-40, 41)) | {1023, 1024, 1025, -1023, -1024, -1025, 2047, 2048})
        rng.shuffle(vals)
        paths = [[a, b, c] for a in relvals for b in relvals for c in relvals]
        if chk.tier == "quick":
            paths = [paths[i] for i in sorted(rng.sample(range(len(paths)), 300))]
        out.append(("model:scale-abs/%d_%d" % (num, den), M.scale_abs_font(vals, upem)[0], upem * num // den))
        out.append(("model:scale-rel/%d_%d" % (num, den), M.scale_rel_font(paths, upem)[0], upem * num // den))
    return out


def scale_family_job(args):
    label, data, target, seed, tier = args
    import logging

    logging.disable(logging.CRITICAL)
    from fontTools.ttLib.scaleUpem import scale_upem
    from . import c17_project as P

    out = {"label": label, "traces": [], "skips": [], "stats": [], "errors": []}
    rng = random.Random("%d|%s" % (seed, label))
    try:
        order, twin = _prep(data, -1)
        fb, _fo, _c = _load_file(twin, order)
        plan = _plan(fb, order, rng, "thorough")
        plan["sample"] = list(order)
        B = _observe_scale(twin, order, plan)
        f = _open(data, -1)
        upem = f["head"].unitsPerEm
        scale_upem(f, target)
        A = _observe_scale(P.save(f), order, plan)
        meta = {"font": label, "op": "scale", "upem": upem, "target": target, "n": len(order), "ngpos": plan["ngpos"]}
        t, stats = build_scale_trace(B, A, target, meta, rng, 6000 if tier == "quick" else 40000)
        g = Fraction(target, upem)
        t["_desc"] = {c + ":" + str(a): describe_scale(B, A, [c, a], g.numerator, g.denominator) for c, a in _prejudge_scale(t, g.numerator, g.denominator)}
        out["traces"].append((t, ("scale", label, target)))
        out["stats"].append(stats)
    except Exception:
        out["errors"].append("scale family %s: %s" % (label, traceback.format_exc()[-800:]))
    return out


def _any_job(a):
    kind, j = a
    return scale_family_job(j) if kind == "family" else font_job(j)


def _strip(t):
    return {k: v for k, v in t.items() if not k.startswith("_") and k != "detail"}


def run_gen(chk, workers=8):
    """The MC_Reorder family as JSON (input of (R))."""
    rg = chk.tlc("MC_Reorder", cfg="MC_Reorder_gen", label="MC_Reorder_gen", timeout=600, workers=workers)
    specs = [json.loads(p[0]) for p in rg.prints.get("GEN", [])]
    if len(specs) < 500:
        raise MachineryError("MC_Reorder_gen emitted %d fonts" % len(specs))
    return specs


def run_mc(chk, workers=16):
    """(M): exhaustive runs of the two specifications (and the sensitivity run of Reorder's predicates)."""
    r = chk.tlc("MC_Reorder", cfg="MC_Reorder" if chk.tier == "quick" else "MC_Reorder_thorough", label="MC_Reorder", timeout=1500, workers=workers)
    chk.log("MC_Reorder: %d distinct states, %d transitions, depth %d (%.0fs)" % (r.distinct, r.generated, r.depth, r.wall))
    rn = chk.tlc("MC_Reorder", cfg="MC_Reorder_neg", label="MC_Reorder_neg", timeout=600, workers=workers)
    caught = sorted({p[0] for p in rn.prints.get("NEG", [])})
    want = ["base-parallel", "component-gid", "coverage-unsorted", "hmtx", "lig-parallel", "pairset-unsorted", "single-parallel", "var-row"]
    if caught != want:
        raise MachineryError("MC_Reorder_neg: wrong variants reported %s, expected %s (NameView/WellFormed vacuous?)" % (caught, want))
    chk.notes["spec_mutants_distinguished"] = caught
    rs = chk.tlc("MC_ScaleUpem", label="MC_ScaleUpem", timeout=900, workers=workers)
    wit = {(p[0], p[1], p[2]) for p in rs.prints.get("WIT", [])}
    need = {("abs-half-attained", 1, 2), ("rel-exceeds-half", 1, 2), ("rel-exceeds-half", 3, 2), ("rel-exceeds-half", 125, 256), ("rel-exceeds-one", 125, 256)}
    if not need <= wit:
        raise MachineryError("MC_ScaleUpem: witnesses missing %s" % sorted(need - wit))
    chk.notes["scale_bound_witnesses"] = sorted("%s k=%d/%d" % w for w in wit)
    chk.log("MC_ScaleUpem: %d states (%.0fs); witnesses %d" % (rs.distinct, rs.wall, len(wit)))


class _Background:
    """Runs (M) while the worker pool drives the real code; the main thread starts no TLC run until join()."""

    def __init__(self, fn, *a, **kw):
        import threading

        self.exc = None

        def body():
            try:
                fn(*a, **kw)
            except BaseException as e:  # re-raised in the main thread
                self.exc = e

        self.th = threading.Thread(target=body, daemon=True)
        self.th.start()

    def join(self):
        self.th.join()
        if self.exc is not None:
            raise self.exc


def run(chk):
    chk.rule = ("one case = (font, transformation): reorderGlyphs with a seeded permutation keeping glyph 0 (reverse, rotate, random, "
                "swap-two) or scale_upem to a new units-per-em (1000<->2048, x2, /2, x3/2, odd); model fonts get every kind, corpus "
                "fonts in the quick tier the random permutation plus one seeded other and two seeded targets (one each for fonts "
                "over 400 glyphs); distinct by (font, permutation/target); "
                "non-trivial = reorder that moves >= 2 glyphs of a font with a gid-indexed layout/composite/variation structure, or a "
                "scale with factor != 1 yielding >= 20 distinct design-unit numbers")
    t0 = time.time()
    # development / sensitivity runs only: VERIF_C17_ONLY=<regex on font labels> restricts the fonts and skips (M);
    # the evidence is then marked "subset" (never set for a registered run)
    only = os.environ.get("VERIF_C17_ONLY")
    import re

    keep = (lambda label: re.search(only, label) is not None) if only else (lambda label: True)
    specs = run_gen(chk) if keep("model:family/") else []
    jobs = []
    for label, data, idx in sources(chk, keep if only else None):
        if keep(label):
            jobs.append((label, data, idx, chk.seed, chk.tier, ("reorder", "scale")))
    for label, data, idx, do in model_sources(chk, specs):
        if keep(label):
            jobs.append((label, data, idx, chk.seed, chk.tier, do))
    # biggest first so that the pool is balanced
    jobs.sort(key=lambda j: -len(j[1]))
    chk.log("%d fonts (%d corpus, rest model); driving the real reorderGlyphs / scale_upem" % (len(jobs), len([j for j in jobs if not j[0].startswith("model:")])))
    fam_jobs = [(l, d, t, chk.seed, chk.tier) for l, d, t in scale_family_sources(chk) if keep(l)]
    if only:
        chk.notes["subset"] = only
        mc = _Background(lambda: None)
    else:
        mc = _Background(run_mc, chk, workers=4)       # (M) shares the machine with the worker pool
    t1 = time.time()
    results = common.pmap(_any_job, [("family", j) for j in fam_jobs] + [("font", j) for j in jobs], procs=13)
    chk.log("driven in %.0fs" % (time.time() - t1))
    cpu = {}
    for r in results:
        for k, v in r.get("cpu", {}).items():
            cpu[k] = cpu.get(k, 0.0) + v
    chk.notes["drive_cpu_seconds_by_phase"] = {k: round(v, 1) for k, v in sorted(cpu.items(), key=lambda kv: -kv[1])}
    chk.notes["slowest_jobs"] = [[r["label"], round(sum(r.get("cpu", {}).values()), 1)]
                                 for r in sorted(results, key=lambda r: -sum(r.get("cpu", {}).values()))[:5]]
    mc.join()
    chk.log("(M) finished")
    judge_results(chk, results)
    chk.exhaustive = False
    chk.assumptions += [
        "before = the untransformed font saved once by the library, after = the transformed font saved; both re-read from bytes",
        "glyph names of files that do not carry names (post 3.0) are taken from the in-memory glyph order the file was saved with",
        "TrueType hinting (cvt, fpgm, prep, glyph programs, cvar), the stem-hint operands of charstrings and the Private DICT's "
        "BlueScale / BlueShift / BlueFuzz are outside the property's list of scaled quantities: required unchanged where compared as "
        "bytes, else not compared; the Private DICT's zones, stem widths and default/nominal widths are compared as design units",
        "numbers of glyphs whose coordinates are fractional before scaling are not judged (integer arithmetic in the judge; counted)",
        "an exception while scaling UP is counted as out of domain (a 16-bit field may overflow); while scaling down or reordering it is a rejection",
        "post tables with duplicate glyph names are treated as carrying no names",
        "COLRv1 paint graphs under scale_upem are only checked through ClipBoxes/VarStore (rescaled by paint wrapping, not modelled)",
        "HarfBuzz outline of a charstring contour whose closing line appears/disappears through accumulated rounding is skipped (counted)",
        "shaping positions under scale_upem use the loose derived bound (2 + 3*lookups*glyphs)/2; exact per-value bounds are checked on the tables",
        "AAT / Graphite tables are declared unsupported by scale_upem: they must be byte-identical (left untouched)",
    ]


# Root causes: one stable key per defect.  A root cause is recognised by its PRIMARY clause (a clause of TLC's verdict
# that names the table / field the defect lives in); the listed SECONDARY clauses of the SAME case are observations that
# depend on that table and are reported under the root key instead of their own.  Labelling only: every clause below was
# rejected by TLC, and a secondary clause without its primary keeps its own key.
ROOT_CAUSES = [
    ("reorder:CFF2-charstrings-keyed-after-order-change", {("nameview", "CFF2.program")},
     {("nameview", "outline"), ("nameview", "CFF2.fd"), ("table", "hhea"), ("table", "vhea"), ("table", "head"), ("bygid", "hb.draw"),
      ("bygid", "hb.vorg"), ("bygid", "hb.var"), ("bygid", "hb.math"), ("shape", "hb")}),
    ("reorder:CFF-FDSelect-not-permuted", {("nameview", "CFF.fd")}, {("shape", "hb"), ("bygid", "hb.hadv")}),
    # only for input fonts WITHOUT the map (meta.implicit_metric_maps, a fact about the input); a font with an explicit map
    # that fails the same clause keeps the clause's own key
    ("reorder:HVAR-VVAR-implicit-glyph-id-map", {("nameview", "HVAR.AdvWidthMap"), ("nameview", "VVAR.AdvHeightMap")},
     {("bygid", "hb.var")}, lambda t: bool(t["meta"].get("implicit_metric_maps"))),
    ("reorder:VARC-coverage-not-sorted", {("sorted", "VARC:Coverage")}, set()),
    ("reorder:SVG-glyph-ids-dangling", {("nodangling", "SVG ")}, set()),
    ("scale:VORG-records-not-scaled", {("scaled", "VORG.records")}, {("hb-scaled", "hb.vorg")}),
    ("scale:CFF-FontMatrix-default-mutated-not-stored", {("nothingelse", "CFF.FontMatrix"), ("nothingelse", "CFF2.FontMatrix")}, set()),
    ("scale:MATH-plain-int16-fields-not-scaled", {("scaled", "MATH.plain-int16-fields")},
     {("hb-scaled", "hb.math.constant"), ("hb-scaled", "hb.math.minoverlap"), ("hb-scaled", "hb.math.variant-advance"), ("hb-scaled", "hb.math.part")}),
    ("scale:avar2-VarStore-deltas-scaled", {("nothingelse", "avar")}, set()),
]


def _lean(t):
    """What TLC needs of a case, compactly: strings once (keys), numbers in columns."""
    if t["k"] != "scale":
        return {k: v for k, v in t.items() if k != "meta" and not k.startswith("_")}
    keys, kid = [], {}

    def K(x):
        if x not in kid:
            keys.append(x)
            kid[x] = len(keys)
        return kid[x]

    g = _gcd(t["ub"], t["want"]) if t["ub"] > 0 and t["want"] > 0 else 1
    out = {"k": "scale", "ub": t["ub"], "ua": t["ua"], "want": t["want"], "num": t["want"] // g, "den": t["ub"] // g, "keys": keys}
    for name, rows in (("t", t["tabs"]), ("f", t["fm"]), ("h", t["hbt"])):
        out[name + "k"] = [K(r[0]) for r in rows]
        out[name + "b"] = [r[1] for r in rows]
        out[name + "a"] = [r[2] for r in rows]
    return out


def judge_results(chk, results):
    traces, keys, descs = [], [], []
    raised = []
    numbers = 0
    for r in results:
        for s in r["skips"]:
            chk.skip(s)
        if r["errors"]:
            raise MachineryError("harness error on %s:\n%s" % (r["label"], r["errors"][0]))
        for st in r["stats"]:
            if "raised" in st:
                raised.append(st["raised"])
            else:
                numbers += st.get("numbers", 0)
        for t, key in r["traces"]:
            descs.append(t.pop("_desc", {}))
            traces.append(t)
            keys.append(key)
    chk.notes["transformation_raised"] = sorted(raised)[:40]
    chk.notes["design_unit_numbers_compared"] = numbers
    chk.count(len(traces))
    nre = sum(1 for k in keys if k[0] == "reorder")
    chk.notes["cases"] = {"reorder": nre, "scale": len(keys) - nre, "of which raised": sum(1 for t in traces if t["k"] == "raised")}
    for t, key in zip(traces, keys):
        if t["k"] == "raised":
            continue
        if t["k"] == "reorder":
            structured = len(t["tb"]) > 8 or any("glyf" in f or "gvar" in f or "HVAR" in f for f in t["nf"])
            if t["meta"].get("moved", 0) >= 2 and structured:
                chk.nontriv(key)
        elif t["ub"] != t["want"] and len(t["_items"]) >= 20:
            chk.nontriv(key)
    for t in traces[:2] + [x for x in traces if x["k"] == "scale"][:2]:
        chk.sample({"meta": t["meta"], "k": t["k"], "fields": t.get("nf"), "tables": [x[0] for x in t.get("tb", t.get("tabs", []))][:30],
                    "numbers": len(t.get("_items", []))})
    # design-unit numbers: the fact "v became v2 under factor num/den, bound h/2" is the same for every case it occurs in
    # (hundreds of corpus fonts share their outlines); every DISTINCT fact is judged once by TLC (kind "nums"), and the
    # verdicts are joined back to the cases here (bookkeeping, no arithmetic).
    groups = {}     # (num, den) -> {(vb, va, h): index}
    refs = []       # per case: [(clause, key, (num, den), index)]
    for t in traces:
        rr = []
        if t["k"] == "scale" and t["ub"] > 0 and t["want"] > 0:
            g = _gcd(t["ub"], t["want"])
            k = (t["want"] // g, t["ub"] // g)
            facts = groups.setdefault(k, {})
            for cl, rows in (("scaled", t["_items"]), ("hb-scaled", t["_hbi"])):
                for key, vb, va, h in rows:
                    f = (vb, va, h)
                    i = facts.get(f)
                    if i is None:
                        i = facts[f] = len(facts)
                    rr.append((cl, key, k, i))
        refs.append(rr)
    NUMS = 20000
    nums, where = [], {}
    for k in sorted(groups):
        rows = sorted(groups[k].items(), key=lambda kv: kv[1])
        for base in range(0, len(rows), NUMS):
            part = rows[base : base + NUMS]
            where[(k, base // NUMS)] = len(nums)
            nums.append({"k": "nums", "num": k[0], "den": k[1], "vb": [f[0] for f, _ in part], "va": [f[1] for f, _ in part], "h": [f[2] for f, _ in part]})
    chk.notes["distinct_scaled_number_facts"] = sum(len(v) for v in groups.values())
    chk.log("judging %d cases (%d reorder, %d scale) and %d distinct scaled-number facts with TLC" % (
        len(traces), nre, len(traces) - nre, chk.notes["distinct_scaled_number_facts"]))
    lean = [_lean(t) for t in traces] + nums
    index = {id(t): i for i, t in enumerate(lean)}
    before = chk.traces_validated
    rej = chk.judge("Trace_C17", lean, chunk=3000 if chk.tier == "quick" else 1000, multi=True, timeout=1800)
    verdicts = [set() for _ in traces]
    numbad = {}     # index of nums trace -> {position: "bad" | "overflow"}
    for lt, clauses in rej:
        i = index[id(lt)]
        if i >= len(traces):
            for c in clauses:
                numbad.setdefault(i - len(traces), {})[c[1] - 1] = c[0]
        else:
            for c in clauses:
                verdicts[i].add((c[0] if c else "?", c[1] if len(c) > 1 else ""))
    for i, rr in enumerate(refs):
        for cl, key, k, fi in rr:
            v = numbad.get(where[(k, fi // NUMS)], {}).get(fi % NUMS)
            if v == "bad":
                verdicts[i].add((cl, key))
            elif v == "overflow":
                verdicts[i].add(("skip:overflow", key))
            elif v is not None:
                raise MachineryError("Trace_C17: unknown verdict %r of a scaled-number fact" % (v,))
    validated = 0
    only_skip = 0
    for i, t in enumerate(traces):
        cl = verdicts[i]
        for c0, arg in sorted(cl, key=repr):
            if c0.startswith("skip:"):
                chk.skip("out of domain: " + c0[5:])
        real = {c for c in cl if not c[0].startswith("skip:")}
        if not cl:
            validated += 1
        elif not real:
            only_skip += 1
        op = t.get("op", t["k"])
        labelled = []
        for root, primary, secondary, *cond in ROOT_CAUSES:
            hit = real & primary
            if hit and root.startswith(op + ":") and (not cond or cond[0](t)):
                labelled.append((root, sorted(hit, key=repr)[0], sorted(real & (primary | secondary), key=repr)))
                real -= primary | secondary
        for c0, arg in sorted(real, key=repr):
            labelled.append(("%s:%s:%s" % (op, c0, arg), (c0, arg), [(c0, arg)]))
        for key, (c0, arg), clauses in labelled:
            d = descs[i].get(c0) or descs[i].get("%s:%s" % (c0, arg)) or t["meta"].get("error", "")
            what = "%s %s: clause %s %s -- %s" % (t["meta"].get("font"), {k: v for k, v in t["meta"].items() if k in ("op", "perm", "upem", "target")},
                                                c0, arg, d)
            chk.reject(key, what, {"font": t["meta"].get("font"), "meta": t["meta"], "clauses": [list(c) for c in clauses], "detail": d})
    chk.traces_validated = before + validated      # cases without any failing clause (facts are not cases)
    chk.notes["out_of_domain_cases"] = only_skip


def _gcd(a, b):
    while b:
        a, b = b, a % b
    return a


def replay(chk, rep):
    """Re-run every transformation of the font named in the replay file against the current tree."""
    label = rep["replay"]["font"]
    specs = run_gen(chk) if label.startswith("model:family") else []
    jobs = []
    for l, data, idx in sources(chk):
        if l == label:
            jobs.append((l, data, idx, chk.seed, chk.tier, ("reorder", "scale")))
    if label.startswith("model:"):
        for l, data, idx, do in model_sources(chk, specs):
            if l == label:
                jobs.append((l, data, idx, chk.seed, chk.tier, do))
    if not jobs:
        raise MachineryError("replay: font %s not found" % label)
    chk.log("replaying all transformations of %s" % label)
    judge_results(chk, [font_job(j) for j in jobs])
