"""C17 (R): model fonts realised with FontBuilder + feaLib.

  family_font(spec)      one font of the MC_Reorder family (JSON emitted by TLC, MC_Reorder_gen.cfg)
  rich_ttf(rng) / rich_cff(rng)   hand-built fonts that carry every glyph-indexed table kind the corpus
                                  lacks (hdmx, LTSH, kern, VORG/vmtx, COLR v0/v1, HVAR without a map, gvar,
                                  cmap format 14, device tables, ligature carets, BASE)
  svg_font()             a font with an SVG table (documents address glyph-id ranges, in design units)
  scale_abs_font(vals) / scale_rel_font(paths)   the MC_ScaleUpem value families as real glyf / CFF fonts
"""
import io

from fontTools.fontBuilder import FontBuilder
from fontTools.feaLib.builder import addOpenTypeFeaturesFromString
from fontTools.pens.t2CharStringPen import T2CharStringPen
from fontTools.pens.ttGlyphPen import TTGlyphPen
from fontTools.ttLib import newTable


def _bytes(font):
    buf = io.BytesIO()
    font.save(buf)
    return buf.getvalue()


def _box(pen, x0, y0, x1, y1):
    pen.moveTo((x0, y0))
    pen.lineTo((x0, y1))
    pen.lineTo((x1, y1))
    pen.lineTo((x1, y0))
    pen.closePath()


def _finish(fb, names, metrics, upem=1000):
    fb.setupHorizontalMetrics(metrics)
    fb.setupHorizontalHeader(ascent=int(upem * 0.8), descent=-int(upem * 0.2))
    fb.setupNameTable({"familyName": "VerifC17", "styleName": "Regular"})
    fb.setupOS2(sTypoAscender=int(upem * 0.8), sTypoDescender=-int(upem * 0.2), usWinAscent=int(upem * 0.9), usWinDescent=int(upem * 0.25),
                sxHeight=int(upem * 0.5), sCapHeight=int(upem * 0.7), ySubscriptXSize=650 * upem // 1000, ySubscriptYOffset=75 * upem // 1000,
                yStrikeoutSize=51 * upem // 1000, yStrikeoutPosition=258 * upem // 1000)
    fb.setupPost(underlinePosition=-75 * upem // 1000, underlineThickness=51 * upem // 1000)


# ---------------------------------------------------------------------------
def family_font(spec):
    """Realise one abstract font of the MC_Reorder family; returns (bytes, glyph names)."""
    nm = {"nd": ".notdef"}
    names = [nm.get(x, x) for x in spec["order"]]
    G = lambda gid: names[gid - 1]
    fb = FontBuilder(1000, isTTF=True)
    fb.setupGlyphOrder(names)
    fb.setupCharacterMap({cp: G(g) for cp, g in spec["cmap"]})
    glyphs = {}
    for i, o in enumerate(spec["glyf"]):
        pen = TTGlyphPen({n: None for n in names})
        if o["k"] == "simple":
            _box(pen, 10 * o["id"], 0, 100 * o["id"] + 50, 100 + 37 * o["id"])
        else:
            for g, dx, dy in o["parts"]:
                pen.addComponent(G(g), (1, 0, 0, 1, dx, dy))
        glyphs[names[i]] = pen.glyph()
    fb.setupGlyf(glyphs)
    _finish(fb, names, {names[i]: tuple(m) for i, m in enumerate(spec["hmtx"])})
    font = fb.font
    hd = newTable("hdmx")
    hd.hdmx = {12: {names[i]: v for i, v in enumerate(spec["var"])}, 20: {names[i]: (v * 2) % 256 for i, v in enumerate(spec["var"])}}
    font["hdmx"] = hd
    fea = []
    s = spec["single"]
    fea.append("feature ss01 {\n" + "".join("  sub %s by %s;\n" % (G(a), G(b)) for a, b in zip(s["cov"], s["sub"])) + "} ss01;")
    l = spec["lig"]
    body = ""
    for first, ligset in zip(l["cov"], l["sets"]):
        for comps, lig in ligset:
            body += "  sub %s %s by %s;\n" % (G(first), " ".join(G(c) for c in comps), G(lig))
    fea.append("feature liga {\n" + body + "} liga;")
    p = spec["pair"]
    body = ""
    for first, pset in zip(p["cov"], p["sets"]):
        for second, val in pset:
            body += "  pos %s %s %d;\n" % (G(first), G(second), val)
    c = spec["cls"]
    cd = c["classdef"]
    firsts = [G(g) for g in c["cov"]]
    for ci, v in zip((1, 2), c["val"]):
        seconds = [names[i] for i, k in enumerate(cd) if k == ci]
        if seconds and firsts:
            body += "  pos [%s] [%s] %d;\n" % (" ".join(firsts), " ".join(seconds), v)
    fea.append("feature kern {\n" + body + "} kern;")
    m = spec["mark"]
    marks = [G(g) for g in m["mcov"]]
    mk = "".join("markClass %s <anchor %d %d> @M%d;\n" % (G(g), a, a + 1, k) for g, (k, a) in zip(m["mcov"], m["marks"]))
    body = "".join("  pos base %s <anchor %d %d> mark @M0;\n" % (G(g), a, a - 1) for g, a in zip(m["bcov"], m["bases"]))
    fea.append(mk + "feature mark {\n" + body + "} mark;")
    bases = [n for n in names[1:] if n not in marks]
    fea.append("table GDEF { GlyphClassDef [%s], , [%s], ; } GDEF;" % (" ".join(bases), " ".join(marks)))
    addOpenTypeFeaturesFromString(font, "languagesystem DFLT dflt;\n" + "\n".join(fea))
    return _bytes(font), names


# ---------------------------------------------------------------------------
RICH_FEA = """
languagesystem DFLT dflt;
languagesystem latn dflt;
@UC = [A B C D];
@LC = [a b c d];
markClass acutecomb <anchor 250 500> @TOP;
markClass gravecomb <anchor 240 510> @TOP;
markClass dotbelow <anchor 260 -20> @BOT;
feature ss01 { sub A by a; sub C by c; sub D by d; } ss01;
feature ss02 { sub f_i by f i; sub A by B C; } ss02;
feature salt { sub a from [b c d]; sub B from [A D]; } salt;
feature liga { sub f i by f_i; sub f f i by f_f_i; sub a b by c; sub a by d; } liga;
lookup L1 { sub a by A; sub b by B; sub A by a; sub B by b; } L1;
feature calt {
  sub A' lookup L1 B' lookup L1 C;
  sub [a b]' lookup L1 @UC;
  ignore sub d d';
  sub d' by D;
} calt;
feature rclt { rsub [A B] a' [c d] by b; rsub D b' by c; rsub V [a b c d]' by [d c a b]; } rclt;
feature kern {
  pos A V -80; pos A a 13; pos V A -75; pos f_i A <10 0 20 0>;
  pos A <0 0 7 0> C <3 0 0 0>;
  pos @UC @LC -21; pos [V a] [f i] 17;
  pos f <-5 0 -11 0>;
  pos B <0 0 15 0 <device NULL> <device NULL> <device 11 -1, 12 1> <device NULL>>;
} kern;
feature curs {
  pos cursive a <anchor 0 100> <anchor 500 120>;
  pos cursive b <anchor 10 90> <anchor NULL>;
  pos cursive c <anchor NULL> <anchor 480 60>;
} curs;
feature mark {
  pos base A <anchor 300 700> mark @TOP <anchor 310 0> mark @BOT;
  pos base a <anchor 250 480> mark @TOP <anchor 255 -5> mark @BOT;
  pos base V <anchor 333 701> mark @TOP;
  pos ligature f_i <anchor 150 700> mark @TOP ligComponent <anchor 420 690> mark @TOP <anchor 400 -10> mark @BOT;
  pos ligature f_f_i <anchor 150 700> mark @TOP ligComponent <anchor NULL> ligComponent <anchor 620 690> mark @TOP;
} mark;
feature mkmk { pos mark acutecomb <anchor 250 650> mark @TOP; pos mark gravecomb <anchor 245 660> mark @TOP; } mkmk;
feature ccmp { lookupflag UseMarkFilteringSet [acutecomb dotbelow]; sub A acutecomb by V; } ccmp;
table GDEF {
  GlyphClassDef [A B C D a b c d f i V], [f_i f_f_i], [acutecomb gravecomb dotbelow], ;
  LigatureCaretByPos f_i 260; LigatureCaretByPos f_f_i 250 510;
  Attach A 1 2; Attach a 3;
} GDEF;
table BASE {
  HorizAxis.BaseTagList ideo romn;
  HorizAxis.BaseScriptList latn romn -120 0, DFLT romn -120 0;
} BASE;
"""
RICH_NAMES = [".notdef", "A", "B", "C", "D", "a", "b", "c", "d", "f", "i", "V", "f_i", "f_f_i", "acutecomb", "gravecomb", "dotbelow",
              "comp1", "comp2", "layer1", "layer2", "empty"]


def _rich_metrics(rng, upem=1000):
    return {n: (rng.choice([0, 250, 500, 501, 600, 733, 1000, 1001]) if i else 500, rng.choice([0, 10, -7, 33])) for i, n in enumerate(RICH_NAMES)}


def _add_common(font, rng, names, ttf):
    hd = newTable("hdmx")
    hd.hdmx = {p: {n: rng.randint(1, 40) for n in names} for p in (9, 12, 24)}
    font["hdmx"] = hd
    lt = newTable("LTSH")
    lt.version = 0
    lt.yPels = {n: rng.randint(1, 60) for n in names}
    font["LTSH"] = lt
    from fontTools.ttLib.tables._k_e_r_n import KernTable_format_0

    k = newTable("kern")
    k.version = 0
    st = KernTable_format_0()
    st.version = 0
    st.coverage = 1
    st.format = 0
    st.apple = False
    pairs = {}
    for _ in range(12):
        pairs[(rng.choice(names[1:12]), rng.choice(names[1:12]))] = rng.choice([-80, -33, -7, 5, 15, 101])
    st.kernTable = pairs
    k.kernTables = [st]
    font["kern"] = k


def _layout_and_color(fb, rng, names):
    from fontTools.ttLib.tables import otTables as ot

    fb.setupCOLR({"A": [("layer1", 0), ("layer2", 1)], "d": [("layer2", 1)], "V": [("layer1", 1), ("layer2", 0), ("B", 0)]})
    fb.setupCPAL([[(1.0, 0.0, 0.0, 1.0), (0.0, 0.0, 1.0, 1.0)]])
    addOpenTypeFeaturesFromString(fb.font, RICH_FEA)


def rich_ttf(rng, upem=1000, variable=True, colr1=False):
    names = list(RICH_NAMES)
    fb = FontBuilder(upem, isTTF=True)
    fb.setupGlyphOrder(names)
    cm = {0x41: "A", 0x42: "B", 0x43: "C", 0x44: "D", 0x61: "a", 0x62: "b", 0x63: "c", 0x64: "d", 0x66: "f", 0x69: "i", 0x56: "V",
          0xFB01: "f_i", 0x301: "acutecomb", 0x300: "gravecomb", 0x323: "dotbelow", 0xE000: "comp1", 0xE001: "comp2", 0x1F600: "layer1", 0x20: "empty"}
    fb.setupCharacterMap(cm, uvs=[(0x41, 0xFE00, "a"), (0x42, 0xFE00, None), (0x43, 0xFE01, "comp1")])
    glyphs = {}
    for i, n in enumerate(names):
        pen = TTGlyphPen({k: None for k in names})
        if n == "comp1":
            pen.addComponent("A", (1, 0, 0, 1, 0, 0))
            pen.addComponent("acutecomb", (1, 0, 0, 1, 120, 215))
        elif n == "comp2":
            pen.addComponent("comp1", (1, 0, 0, 1, 13, -7))
            pen.addComponent("dotbelow", (0.5, 0, 0, 0.75, 55, -101))
        elif n == "empty":
            pass
        else:
            for c in range(1 + i % 2):
                x0, y0 = rng.randint(-50, 200), rng.randint(-200, 200)
                pen.moveTo((x0, y0))
                pen.lineTo((x0 + rng.randint(1, 300), y0 + rng.randint(200, 500)))
                pen.qCurveTo((x0 + rng.randint(300, 500), y0 + rng.randint(300, 701)), (x0 + rng.randint(300, 555), y0 + rng.randint(-99, 99)))
                pen.closePath()
        glyphs[n] = pen.glyph()
    fb.setupGlyf(glyphs)
    _finish(fb, names, _rich_metrics(rng, upem), upem)
    fb.setupVerticalMetrics({n: (rng.choice([1000, 900, 1201]), rng.choice([0, 31, 77])) for n in names})
    fb.setupVerticalHeader(ascent=500, descent=-500)
    _layout_and_color(fb, rng, names)
    font = fb.font
    _add_common(font, rng, names, True)
    if variable:
        from fontTools.ttLib.tables.TupleVariation import TupleVariation
        from fontTools.varLib import builder as vb
        from fontTools.ttLib.tables import otTables as ot

        fb.setupFvar([("wght", 100, 400, 900, "Weight"), ("wdth", 50, 100, 200, "Width")], [])
        variations = {}
        glyf = font["glyf"]
        for n in names:
            g = glyf[n]
            npts = (len(g.components) if g.isComposite() else len(getattr(g, "coordinates", []))) + 4
            if npts == 4 and not g.isComposite():
                continue
            tvs = []
            for axes in ({"wght": (0, 1.0, 1.0)}, {"wdth": (-1.0, -1.0, 0)}, {"wght": (0, 1.0, 1.0), "wdth": (0, 1.0, 1.0)}):
                tvs.append(TupleVariation(axes, [(rng.randint(-60, 60), rng.randint(-30, 30)) for _ in range(npts)]))
            variations[n] = tvs
        fb.setupGvar(variations)
        # HVAR with the IMPLICIT glyph-id mapping (no AdvWidthMap): one delta row per glyph id
        regions = vb.buildVarRegionList([{"wght": (0, 1.0, 1.0)}, {"wdth": (-1.0, -1.0, 0)}], ["wght", "wdth"])
        data = vb.buildVarData([0, 1], [[rng.randint(-90, 90), rng.randint(-50, 50)] for _ in names], optimize=False)
        hvar = ot.HVAR()
        hvar.Version = 0x00010000
        hvar.VarStore = vb.buildVarStore(regions, [data])
        hvar.AdvWidthMap = hvar.LsbMap = hvar.RsbMap = None
        font["HVAR"] = newTable("HVAR")
        font["HVAR"].table = hvar
    return _bytes(font), names


def rich_cff(rng, upem=1000, colr1=True):
    names = list(RICH_NAMES)
    fb = FontBuilder(upem, isTTF=False)
    fb.setupGlyphOrder(names)
    cm = {0x41: "A", 0x42: "B", 0x43: "C", 0x44: "D", 0x61: "a", 0x62: "b", 0x63: "c", 0x64: "d", 0x66: "f", 0x69: "i", 0x56: "V",
          0xFB01: "f_i", 0x301: "acutecomb", 0x300: "gravecomb", 0x323: "dotbelow", 0xE000: "comp1", 0xE001: "comp2", 0x20: "empty"}
    fb.setupCharacterMap(cm)
    metrics = _rich_metrics(rng, upem)
    cs = {}
    for i, n in enumerate(names):
        pen = T2CharStringPen(metrics[n][0], None)
        if n != "empty":
            for c in range(1 + i % 3):
                x0, y0 = rng.randint(-50, 200), rng.randint(-200, 200)
                pen.moveTo((x0, y0))
                pen.lineTo((x0 + rng.randint(1, 301), y0 + rng.randint(199, 501)))
                pen.curveTo((x0 + 301, y0 + 333), (x0 + rng.randint(300, 555), y0 + 77), (x0 + rng.randint(100, 433), y0 - rng.randint(1, 99)))
                pen.lineTo((x0 + 7, y0 - 3))
                pen.closePath()
        cs[n] = pen.getCharString()
    fb.setupCFF("VerifC17-Regular", {"FullName": "VerifC17 Regular"}, cs, {})
    _finish(fb, names, metrics, upem)
    fb.setupVerticalMetrics({n: (rng.choice([1000, 900, 1201]), rng.choice([0, 31, 77])) for n in names})
    fb.setupVerticalHeader(ascent=500, descent=-500)
    fb.setupVerticalOrigins({n: rng.choice([880, 881, 700, 933]) for n in names[1:12]}, 880)
    if colr1:
        from fontTools.ttLib.tables import otTables as ot

        P = ot.PaintFormat
        grad = {"Format": P.PaintLinearGradient, "ColorLine": {"ColorStop": [(0.0, 0), (1.0, 1)], "Extend": "pad"},
                "x0": 0, "y0": 0, "x1": 0, "y1": 700, "x2": 100, "y2": 0}
        fb.setupCOLR({
            "A": (P.PaintColrLayers, [
                {"Format": P.PaintGlyph, "Paint": {"Format": P.PaintSolid, "PaletteIndex": 0, "Alpha": 1.0}, "Glyph": "layer1"},
                {"Format": P.PaintGlyph, "Paint": grad, "Glyph": "layer2"}]),
            "d": {"Format": P.PaintGlyph, "Paint": {"Format": P.PaintSolid, "PaletteIndex": 1, "Alpha": 0.5}, "Glyph": "layer2"},
            "V": {"Format": P.PaintTranslate, "dx": 100, "dy": -50,
                  "Paint": {"Format": P.PaintGlyph, "Paint": grad, "Glyph": "B"}},
        }, clipBoxes={"A": (0, -200, 700, 900), "V": (10, -100, 650, 801)})
        fb.setupCPAL([[(1.0, 0.0, 0.0, 1.0), (0.0, 0.0, 1.0, 1.0)]])
        addOpenTypeFeaturesFromString(fb.font, RICH_FEA)
    else:
        _layout_and_color(fb, rng, names)
    _add_common(fb.font, rng, names, False)
    return _bytes(fb.font), names


def svg_font():
    names = [".notdef", "A", "B", "C", "D"]
    fb = FontBuilder(1000, isTTF=True)
    fb.setupGlyphOrder(names)
    fb.setupCharacterMap({0x41: "A", 0x42: "B", 0x43: "C", 0x44: "D"})
    glyphs = {}
    for i, n in enumerate(names):
        pen = TTGlyphPen(None)
        _box(pen, 0, 0, 100 + 100 * i, 700)
        glyphs[n] = pen.glyph()
    fb.setupGlyf(glyphs)
    _finish(fb, names, {n: (600, 0) for n in names})
    svg = newTable("SVG ")
    from fontTools.ttLib.tables.S_V_G_ import SVGDocument

    doc = '<svg xmlns="http://www.w3.org/2000/svg"><g id="glyph%d"><rect x="0" y="-700" width="300" height="700"/></g></svg>'
    svg.docList = [SVGDocument(doc % 1, 1, 1, False), SVGDocument(doc % 3, 3, 3, False)]
    fb.font["SVG "] = svg
    return _bytes(fb.font), names


# ---------------------------------------------------------------------------
def scale_abs_font(values, upem):
    """glyf font whose point coordinates, advances, side bearings, kern values, vertical metrics
    and OS/2 metrics run through `values` (each an absolute design-unit number)."""
    per = 12
    chunks = [values[i : i + per] for i in range(0, len(values), per)]
    names = [".notdef"] + ["v%d" % i for i in range(len(chunks))]
    fb = FontBuilder(upem, isTTF=True)
    fb.setupGlyphOrder(names)
    fb.setupCharacterMap({0xE000 + i: n for i, n in enumerate(names) if i})
    glyphs = {}
    metrics = {}
    for n, ch in zip(names, [[0, 10, 20]] + chunks):
        pen = TTGlyphPen(None)
        pts = [(ch[i], ch[(i * 5 + 3) % len(ch)]) for i in range(len(ch))]
        while len(pts) < 3:
            pts.append((pts[-1][0] + 7, pts[-1][1] - 3))
        pen.moveTo(pts[0])
        for p in pts[1:]:
            pen.lineTo(p)
        pen.closePath()
        glyphs[n] = pen.glyph()
        metrics[n] = (abs(ch[0]), ch[-1])
    fb.setupGlyf(glyphs)
    _finish(fb, names, metrics, upem)
    from fontTools.ttLib.tables._k_e_r_n import KernTable_format_0

    k = newTable("kern")
    k.version = 0
    st = KernTable_format_0()
    st.version, st.coverage, st.format, st.apple = 0, 1, 0, False
    st.kernTable = {(names[1 + i % (len(names) - 1)], names[1 + (i * 7 + 1) % (len(names) - 1)]): v for i, v in enumerate(values) if -32768 <= v <= 32767}
    k.kernTables = [st]
    fb.font["kern"] = k
    fea = "languagesystem DFLT dflt;\nfeature kern {\n"
    for i, v in enumerate(values[: 400]):
        fea += "  pos %s <%d %d %d 0>;\n" % (names[1 + i % (len(names) - 1)], v, -v, values[(i * 3 + 1) % len(values)]) if i < len(names) - 1 else ""
    fea += "} kern;\n"
    addOpenTypeFeaturesFromString(fb.font, fea)
    return _bytes(fb.font), names


def scale_rel_font(paths, upem):
    """CFF font: glyph i draws the relative path paths[i] = [d1, d2, d3] on both axes (each point is the
    sum of the stored deltas so far)."""
    names = [".notdef"] + ["r%d" % i for i in range(len(paths))]
    fb = FontBuilder(upem, isTTF=False)
    fb.setupGlyphOrder(names)
    fb.setupCharacterMap({0xE000 + i: n for i, n in enumerate(names) if i})
    from fontTools.misc.psCharStrings import T2CharString

    cs = {}
    for n, p in zip(names, [[5, 7, 9]] + list(paths)):
        a, b, c = p
        prog = [a, b, "rmoveto", b, c, c, a, "rlineto", a, a, b, b, c, c, "rrcurveto", "endchar"]
        cs[n] = T2CharString(program=prog)
    fb.setupCFF("VerifC17Rel", {}, cs, {})
    _finish(fb, names, {n: (600, 0) for n in names}, upem)
    return _bytes(fb.font), names


def point_matched_ttf():
    """TrueType font with a composite whose second component is attached by POINT MATCHING (ARGS_ARE_XY_VALUES clear:
    the arguments are point numbers, there is no x/y offset) next to ordinary components."""
    from fontTools.ttLib.tables._g_l_y_f import Glyph, GlyphComponent

    names = [".notdef", "A", "B", "dot", "Adot", "Bdot"]
    fb = FontBuilder(1000, isTTF=True)
    fb.setupGlyphOrder(names)
    fb.setupCharacterMap({0x41: "A", 0x42: "B", 0x2E: "dot", 0xC4: "Adot", 0xC5: "Bdot"})
    glyphs = {}
    for i, n in enumerate(names[:4]):
        pen = TTGlyphPen(None)
        _box(pen, 10 * i, 0, 300 + 51 * i, 701 - 100 * i)
        glyphs[n] = pen.glyph()
    for n, base, pt in (("Adot", "A", 2), ("Bdot", "B", 1)):
        g = Glyph()
        g.numberOfContours = -1
        c1 = GlyphComponent()
        c1.glyphName, c1.x, c1.y, c1.flags = base, 13, -7, 0x2
        c2 = GlyphComponent()
        c2.glyphName, c2.firstPt, c2.secondPt, c2.flags = "dot", pt, 0, 0
        g.components = [c1, c2]
        glyphs[n] = g
    fb.setupGlyf(glyphs)
    _finish(fb, names, {n: (600 + 7 * i, 10 * i) for i, n in enumerate(names)})
    return _bytes(fb.font), names
